#!/bin/bash
# usage: ./check.sh <Cnn> [quick|thorough]     — decide property Cnn on /repo's current working tree
#        ./check.sh explain <violations.json>  — print the violated obligations of a previous run
#        ./check.sh build                      — (re)build bin/tsscheck
set -u
cd "$(dirname "$0")"
VERIF="$(pwd)"
export GOFLAGS=-mod=mod GOPROXY=off GOSUMDB=off GOTOOLCHAIN=local
unset GOWORK
REPO="${VERIF_REPO:-/repo}"
build() {
  (cd "$VERIF/tsscheck" && go build -o "$VERIF/bin/tsscheck" ./cmd/tsscheck) || { echo "tsscheck build failed" >&2; exit 2; }
}
case "${1:-}" in
  build) build; exit 0 ;;
  explain)
    f="${2:?path}"
    if [ -f "$f" ]; then python3 - "$f" <<'PY'
import json,sys
for o in json.load(open(sys.argv[1])):
    print("%s  %s\n    at %s\n    rule %s: %s\n" % (o['status'].upper(), o['key'], o['pos'], o['rule'], o.get('reason','')))
PY
    else echo "no such file: $f (re-run the check to regenerate it)"; fi
    exit 0 ;;
esac
ID="${1:?property id}"
TIER="${2:-${VERIF_TIER:-quick}}"
build
if [ "$TIER" = thorough ] && [ -x "$VERIF/selftest/run.sh" ]; then
  "$VERIF/bin/tsscheck" -property "$ID" -tier thorough -repo "$REPO" -verif "$VERIF"; rc=$?
  [ $rc -ne 0 ] && exit $rc
  "$VERIF/selftest/run.sh" "$ID"; exit $?
fi
exec "$VERIF/bin/tsscheck" -property "$ID" -tier "$TIER" -repo "$REPO" -verif "$VERIF"
