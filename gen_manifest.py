#!/usr/bin/env python3
"""Regenerates /verif/MANIFEST.json from the table below (one entry per claimed property)."""
import json, os

BASE = "for m in $(cat /w/out/gomods.txt); do MF=$(cd /repo/$m && . /w/out/goenv.sh && gomodflag); (cd /repo/$m && go test $MF -json -vet=off -count=1 -timeout 25m ./...); done"

COMMON_NOTE = ("Trusted base: go/types, go/ssa, go/packages (golang.org/x/tools v0.29.0) and the Go toolchain's linux/amd64 build configuration; "
               "/repo uses no unsafe/cgo/reflect-based writes in hand-written code (the loader fails otherwise). The check decides structural necessary "
               "conditions on every path of the current source, never the numerical/scheduling behaviour itself. ")

# id -> (technique, level text, design_ref, level_note (what is not decided))
CHECKS = {
 "C11": ("dominating-guard inventory over go/ssa (ordering-set facts, symbolic bounds, data-dependence of equations)",
         "Every range/gcd/parity/compositeness guard and every verification equation the property names is shown to dominate each accepting return of its verifier with a reject set at least as large as required, on all paths of the current source; Paillier domain guards dominate every non-error return; security constants are read from the type checker. A missing, weakened, misplaced or wrong-operand guard is reported with its verifier and guard name.",
         "§4.11",
         "Not decided: soundness itself (that the inventory suffices to reject every false statement) and collision resistance of the hash. The inventory is the protocol specification's (GG18 / CGGMP figures)."),
 "C01": ("dominating-guard + must-pass-through gate + value/object identity (big.Int object state) on go/ssa; post-condition of the padding helper by edge facts",
         "The digest guard m >= N dominates every first-round send and judges the constructor's own argument; the one result emission is dominated by the true edge of crypto/ecdsa.Verify on exactly the emitted (group key, M, R, S) with no in-place change of s between storing and verifying; s is replaced by N-s exactly on s > N>>1 and only that branch toggles the recovery bit; R and S pass a padding helper whose every return is at least the requested width, Signature = R||S, M is m.Bytes() or FillBytes of the requested length.",
         "§4.1",
         "Not decided: that all signers output the same signature and that the combined s is valid (Lagrange/MtA/phase-5 algebra), schedules. The gate reduces 'verifies with a standard verifier' to the stdlib verifier having accepted exactly the emitted values."),
 "C02": ("must-pass-through gate + value identity + static types (64-byte layout) + normal-form agreement of the message encoding",
         "The result emission is dominated by the true edge of edwards.Verify on the emitted data.M with r = the temp.r whose encoding is the first half and s decoded from the very 32-byte array emitted as the second half, under key.EDDSAPub; both halves are full slices of *[32]byte (type fact); the message bytes hashed into the challenge and the bytes echoed in M have one normal form over (m, fullBytesLen).",
         "§4.2",
         "Not decided: RFC 8032 correctness of the encoders and the challenge, equality across signers."),
 "C17": ("who-may-write (field stores of ECPoint), must-pass-through on-curve gates, provenance of unchecked-constructor arguments, def-use must-pass-through of EightInvEight",
         "ECPoint fields are unexported and written only by the two constructors, the two decoders and SetCurve; NewECPoint returns a point only on the true edge of isOnCurve on the very values stored; GobDecode/UnmarshalJSON return nil only after IsOnCurve() on the stored coordinates with a registry curve; the unchecked constructor is fed only generator/constant/curve-arithmetic coordinates and UnFlattenECPoints never has its check disabled; in the EdDSA protocols every point decoded from a peer passes through EightInvEight before any other use, EightInvEight is (8P)*8^-1 with 8^-1 modulo the edwards25519 order, and ScalarMult does not alter its scalar.",
         "§4.17",
         "Not decided: correctness of the curve arithmetic, round-trip equality of encodings, that EightInvEight fixes the prime-order subgroup."),
 "C18": ("dominating refusal guards, loop-carried fold recognition, layout by resolved callees/constants, right-alignment post-condition of the padding helper, effect analysis",
         "DeriveChildKey returns a key only behind index < 2^31, depth != max, parent on curve, 0 < IL < N (of the curve passed in) and a successful child addition, with child = parent + IL*G; the hierarchy walk chains parent -> child, aborts on the first error and returns offset_{k+1} = (IL_k + offset_k) mod m with m the curve order at the signing call site; HMAC-SHA512 over compressed(parent)||BE32(index) keyed by the chain code, IL/chain-code split, hash160 fingerprint, compressed key = format || X right-aligned in 32 bytes; signing applies the offset to a fresh integer (no in-place operation on caller-owned key data).",
         "§4.18",
         "Not decided: equality with BIP32 beyond the layout facts; validity of signatures under the child key."),
 "C19": ("must-pass-through emission gates with same-variable load identity, defer-order and fork-join rules, value identity of pre-parameter relations on canonical terms, inductive loop-exit guards of samplers",
         "A (p,q) pair is emitted only after q.ProbablyPrime, Pocklington(p), bitlen(q) = requested-1 and Validate (q prime, 2q+1 = p, p prime) accepted the very pair sent; the generator's defers execute cancel -> Wait -> close, workers call Done once, poll ctx each candidate, send a prime only as an arm of a select that also watches ctx.Done() and returns on it, send at most one error into a channel with room for every worker; both pre-parameter producers send exactly once on buffered channels; NTilde = P*Q of two distinct pairs, H1 = f^2, H2 = H1^alpha, Beta = alpha^-1 mod pq, Paillier key from an independent 2048-bit call; samplers return only values behind their loop-exit guards.",
         "§4.19",
         "Not decided: primality, exact bit lengths, wall-clock promptness, that h1,h2 generate each other."),
 "C20": ("interprocedural ownership/alias effect analysis over *big.Int objects, single-store provenance of nonces, JSON-closure type walk, field-set agreement of the subset copy",
         "No signing-path instruction overwrites, element-stores into or relabels an object owned by the caller's key data (one declared exception); the ECDSA k/gamma and EdDSA r_i nonces are stored once per session directly from GetRandomPositiveInt(round.Rand(), N); both save-data types are closed under encoding/json (exported fields or symmetric custom codecs with identical auxiliary types); the subset builder copies every per-party slice at one (j, savedIdx) pair and every other field group whole, into slices of its own.",
         "§4.20",
         "Not decided: equality of results after a JSON reload, nonce distinctness as a probability statement."),
 "C03": ("accept-edge removal reachability on the per-peer verification closures, culprit-gate dominance for key-material stores, three-way table agreement (wire source / own slot / receivers' slot) extracted from the round-1 constructor, its call site, the accessors and the slot stores, data-dependence of the stored secret share; party-id and cofactor rules shared with C15/C17",
         "In both keygen protocols a peer's contribution is reported good only through the accepting edges of the de-commitment, point decoding, Share.Verify and (ECDSA) modulus / no-small-factor proofs (compatibility switches only after a decoding failure; EdDSA: Schnorr proof), and public key material is stored only when nobody was blamed; for each field of the ECDSA round-1 broadcast the value sent, the sender's own slot and the slot peers fill agree, the stored Paillier private key is the one whose public half was sent, share ids are the party keys at the own position; x_i adds the own share and every peer's share; ids are non-zero and distinct modulo q; decoded Edwards points are cofactor-cleared in place.",
         "§4.3",
         "Not decided: that the public share points lie on one degree-t polynomial with the group key as constant term, x_i·G = X_i, equality of views across parties."),
 "C04": ("who-may-write (effect) and must-pass-through rules over the resharing packages: module-wide *big.Int ownership/mutation analysis for the old share, store/emit placement for the new key material, dominating accept-edge and for-all-loop facts at the acknowledgement send, constructor/NextRound placement of the erasing round, constructor-parameter plumbing by name agreement; round-engine and ok-flag rules shared with C07/C08",
         "The only instruction in the module that can modify the old share is one call in the final round's Start on the old-only branch; new key material is written and emitted only there, on the new-committee branch; the acknowledgement is sent (and the new share parked) only after every old member's de-commitment, point decoding and share check and the group-key comparison succeeded; the erasing round is constructed only by the acknowledgement round, which waits for the acknowledgement array; the resharing parameters (t', n') reach their accessors from the constructor arguments of the same name. The one place where a new member can still abort after the acknowledgements (ecdsa/resharing round 5, fac proofs) is a recorded known finding.",
         "§4.4",
         "Not decided: that the new sharing is of the same key and that any t'+1 members can sign (polynomial algebra over runtime values), chains of resharings, delivery liveness."),
 "C05": ("must-verify / must-branch / blame-index rules: interprocedural data dependence from message accessors to verifier operands, greatest-fixpoint must-abort regions over the CFG with abort actions (error return, error/false send, culprit record), verdict flow through channels, result arrays and completion callbacks, index-origin resolution of culprits and of the message elements a guard reads (loops, closures, captured variables), session-context index classes",
         "Every proof, de-commitment and share carried by a message flows into its verifier in a round that reads it; every verifier verdict controls a branch whose failing side cannot reach an exit without an abort action, and recorded culprits reach a returned error; every abort site that names parties names the sender of the message its guard reads in the same iteration (nobody/self only for aggregate or local failures), and asynchronously run closures do not read variables the spawning loop reassigns; provers and verifiers receive ssid||index of the same party.",
         "§4.5",
         "Not decided: sufficiency of the checks performed (soundness of the proofs, protocol-level argument), equality of outputs across honest parties, blame where the guard reads values assembled from several peers by an earlier loop (classed aggregate: any of self/nobody/current position accepted)."),
 "C06": ("panic-site discharge over go/ssa: module-wide origin analysis (WIRE/RAND/HASH/KEY/CONST with field summaries, own-key and trusted key-data paths), dominating-guard facts on symbolic terms, helper preconditions lifted to their call sites, length-origin and element-length invariants for lists, use-before-error paths, assertion/store table agreement, fork-join and channel-capacity rule",
         "Every reachable instance of seven repository-specific crash classes is discharged on all paths: stored messages are validated and index-bounded by their own array's length class; peer-influenced scalars of the panicking curve wrappers are guarded non-zero mod q; possibly-nil ModInverse/negative-power results are nil-checked or their operand proven a unit; Jacobi/Mod/Div/Exp moduli that a peer chooses are guarded (odd, positive / non-zero) in the verifier or at every call site of the helper; constant and loop indices into lists whose length the sender picks are covered by an established length; results of fallible constructors are not used before the error is branched on; unchecked type assertions name the filed type; explicit panics form a reasoned table; goroutines are joined and result channels have room for every send.",
         "§4.6",
         "Not decided: panics inside btcec/edwards/protobuf/runtime for well-typed arguments; nil dereferences outside the listed classes; hangs other than zero-modulus powers, unjoined goroutines and blocked sends; byte-length arithmetic on encodings of single integers; whether a results-array slot of a failed peer can be read (decided only for the early-return form)."),
 "C07": ("who-may-write / control-dependence / must-pass-through rules over the extracted protocol model and the round engine's CFG",
         "Five necessary conditions of order-independence decided on every path: StoreMessage stores every content type under conditions that depend only on the message and its validation; message slots are written only by StoreMessage[sender] and Start[self] and never cleared; after advance() BaseUpdate starts the new round and re-runs itself with the same message after unlocking (or returns the Start error); every slot a round's Start reads was awaited by an earlier round or self-stored; one result emission, in the final round, with the started/NextRound lifecycle intact.",
         "§4.7",
         "Not decided: that all causally consistent schedules give the same result and none deadlocks (the conditions are necessary, not sufficient)."),
 "C08": ("table agreement over the extracted protocol model (constructors, StoreMessage, CanAccept, Update, Start, WaitingFor), role-pruned CFG facts, index-class agreement, loop-exit analysis",
         "For all 32 message types in six protocols: routing constant = flag demanded by the accepting round, one array by sender index scanned by exactly the accepting round, sent by the round that awaits it; ok[j] is set only after every message required for the party's committee role is present and accepted on its channel kind; secret-bearing payloads are point-to-point to the loop peer with that peer's payload; no constructor argument copies a long-term secret; WaitingFor lists exactly ok[j]==false in storage of its own, Update loops visit every peer, Start resets the flags before every send and every successful return; each send runs once per recipient; the routing a message hands to the transport is its own (or a complete copy) and wire wrapper and accessors carry every flag.",
         "§4.8",
         "Not decided: protobuf wire round-trip equality; derived (arithmetic) leakage of secrets."),
 "C09": ("forward lock-state dataflow + lockset walk of the call graph from the concurrent entry points + fork-join (WaitGroup/channel) pairing",
         "For all interleavings: lock/unlock pair on every path of the engine functions and the recursion runs unlocked; from Start/Update/UpdateFromBytes/WaitingFor of all six parties, round code, the current-round pointer and the party's message store/temp data are only reached with the party mutex held; all 15 goroutines started under update entry points are joined (balanced WaitGroup, one receive per sender, counted receive or select join) before results are read or the spawner returns, write only their own slot or channel, shared result channels drained after the join have capacity for every sender, every goroutine that signals a pre-armed WaitGroup is started in every counted iteration, and parameterless accessors of key-data/parameter types do not write their receiver.",
         "§4.9",
         "Not decided: result equivalence between concurrent and sequential delivery; races inside dependencies."),
 "C10": ("role-sequence agreement of prover/verifier challenge calls (flattened variadic arguments, API-position statement mapping), codec table extraction (Bytes/FromBytes/constructor/Unmarshal/ValidateBasic), commit/open arity agreement, blinded-scalar and hash-totality rules",
         "For the nine proof systems the prover and verifier derive the challenge with the same hash (or helper) over role-wise equal ordered inputs and reduce it alike; the five byte codecs and the dln serializer agree position by position and on their part counts (decoder, constant, array type, ValidateBasic); messages write each proof with the encoder whose decoder their Unmarshal uses; commitments agree three ways on their arity; provers multiply points only by blinded scalars (so admissible zero witnesses do not hit the identity-point panic) the hash functions return nil only for no input; no function of the proof packages overwrites a big.Int it did not allocate (an accepted proof stays the proof that is serialised); no prover refuses the admissible witness 0.",
         "§4.10",
         "Not decided: algebraic completeness at witness extremes and range slack (numeric); empty encodings of zero components."),
 "C12": ("Fiat-Shamir completeness by data-dependence over go/ssa (commitment classification, hash-input reachability through helpers), tag provenance, session-context index classes",
         "For each of the nine proof systems: every first-move commitment of the prover (a returned proof field not data-dependent on the challenge) flows into the challenge hash; the verifier's hash receives every commitment and every statement parameter (reasoned exemptions frozen per symbol); session parameters are exactly the tag of the tagged hash; every prover/verifier call in round code receives ssid||index with a role-consistent index class; no hash-input buffer is built with a truncating copy; the tagged hash writes H(tag) twice before the framed data.",
         "§4.12",
         "Not decided: collision resistance and the random-oracle argument; that shifting a commitment and its response together fails follows from R12.1/R12.2 only under that argument."),
 "C13": ("must-pass-through gates + value identity on canonical terms + interprocedural big.Int ownership/mutation (effect) analysis",
         "Every share-producing return of BobMid/BobMidWC/AliceEnd/AliceEndWC is dominated by the true edge of the matching proof verification on exactly the function's own parameters; the ciphertext decrypted is the ciphertext verified; the mask encrypted, proven, negated and returned is one value below q^5 and cB = b*cA + Enc(mask); no function of crypto/mta or crypto/paillier overwrites or returns a caller-owned big.Int (so 'verified value = used value' holds for objects, not only SSA names); round 2/3 call sites pass per-peer arguments with one peer index; with-check: X and U are hashed on both sides and the public-point equation guards every accepting path with X != nil.",
         "§4.13",
         "Not decided: alpha+beta = a*b mod q (Paillier arithmetic, no wrap-around) — numeric."),
 "C14": ("ordering-set domain guards + symbolic normal forms of key generation and ciphertext + effect analysis",
         "The seven Paillier domain guards dominate every non-error return with the required reject sets; the randomizer is a per-call unit sample from the rand parameter and the ciphertext has the symbolic form (N+1)^m x^N mod N^2; key generation uses two distinct safe primes of half length, leaves its loop only through the |P-Q| guard and returns N=PQ, phi=(P-1)(Q-1), lambda=phi/gcd; operations never overwrite or return their operands; the lower-edge guards of the operations do not reject the admissible values 0 / 1.",
         "§4.14",
         "Not decided: Dec(Enc(m))=m, homomorphic laws, exact bit length of N, primality."),
 "C15": ("for-all loop facts and dominance over go/ssa; term shape of the duplicate-set key",
         "CheckIndexes judges both the zero test and the duplicate key on id mod q for every id; Create's refusal guards and the nil-error edge of CheckIndexes dominate sampling, every evaluation and every commitment; shares are evaluated at the checked ids with one threshold/polynomial; Verify's arity guard dominates acceptance, its loop runs 1..threshold, the result is Equals(share*G, accumulated point) and a failed addition rejects; ReConstruct collects the x-coordinates from the very list its interpolation ranges over.",
         "§4.15",
         "Not decided: shares lie on one polynomial, subset reconstruction (ReConstruct's algebra), rejection of every altered component."),
 "C16": ("structural matching of the framing loops on go/ssa (append chains, value identity of the length operand), sibling agreement, layout of commit/open, inductive phi invariants for the parser bounds",
         "The three hash functions frame their input as LE64(count) then, for every input in order without a skip edge, bytes | delimiter | LE64(len of those same bytes); the tagged variant prefixes H(tag) twice; commitments are H(r, secrets...) over exactly D with fresh 256-bit r, Verify recomputes and rejects on inequality, DeCommit returns D[1:] only after Verify; the parts builder keeps every part handed in (empty or not) and emits len then part, the parser's slice bounds are guarded (0 <= n <= MaxPartSize, hi <= len) as inductive invariants, an input that ends right after a length prefix yields the (empty) part or an error, and a one-element input reaches the parser; the framing may be factored into private helpers (read through). Injectivity of that layout is a three-line paper argument in DESIGN §4.16.",
         "§4.16",
         "Not decided: collision resistance of SHA-512/256; sign-forgetting of Bytes() (inputs assumed non-negative)."),
}

NOT_BUILT_REASON = "check not yet built in this working session (planned: see DESIGN.md §4); not claimed until its rules run silent on the unchanged tree and fire on seeded defects"

ALL = ["C%02d" % i for i in range(1, 21)]

def main():
    checks = []
    for pid in ALL:
        if pid not in CHECKS:
            continue
        tech, text, ref, note = CHECKS[pid]
        checks.append({
            "property_id": pid,
            "quick_cmd": "./check.sh %s quick" % pid,
            "thorough_cmd": "./check.sh %s thorough" % pid,
            "evidence_file": "/verif/evidence/%s.json" % pid,
            "replay_cmd_template": "./check.sh explain {path}",
            "engine": "tsscheck",
            "level_claimed": {"category": "other", "text": text, "design_ref": "DESIGN.md " + ref},
            "level_note": COMMON_NOTE + note,
            "technique": "static analysis: " + tech,
        })
    na = [{"property_id": pid, "reason": NOT_BUILT_REASON} for pid in ALL if pid not in CHECKS]
    m = {
        "version": 1,
        "setup_cmd": "cd /verif/tsscheck && GOFLAGS=-mod=mod GOPROXY=off GOSUMDB=off GOTOOLCHAIN=local GOWORK=off go build -o /verif/bin/tsscheck ./cmd/tsscheck",
        "hooks": {"guard": "verif", "enable": "none needed: the checks analyse /repo's source as built by default (no instrumentation)", "baseline_off_cmd": BASE, "source_commits": [], "add_only": True},
        "engines": [{"name": "tsscheck", "path": "/verif/tsscheck", "serves_properties": [c["property_id"] for c in checks],
                     "kind_free_text": "repository-specific static analyzer over go/packages + go/ssa: dominance/edge facts with ordering sets, symbolic big.Int terms, data-dependence, typestate and table-agreement rules"}],
        "checks": checks,
        "not_applicable": na,
        "notes": "All claims are at level 'other': a structural necessary condition of the property is decided for every path of /repo's current source; the behavioural remainder is listed per check in level_note and in each evidence file's coverage.explanation. Genuine defects found are in known_findings.json (fixed: entries record fix commits in /repo).",
    }
    with open(os.path.join(os.path.dirname(os.path.abspath(__file__)), "MANIFEST.json"), "w") as f:
        json.dump(m, f, indent=1)
        f.write("\n")

if __name__ == "__main__":
    main()
