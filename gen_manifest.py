#!/usr/bin/env python3
"""Regenerates /verif/MANIFEST.json from the table below (one entry per claimed property)."""
import json, os

BASE = "for m in $(cat /w/out/gomods.txt); do MF=$(cd /repo/$m && . /w/out/goenv.sh && gomodflag); (cd /repo/$m && go test $MF -json -vet=off -count=1 -timeout 25m ./...); done"

COMMON_NOTE = ("Trusted base: go/types, go/ssa, go/packages (golang.org/x/tools v0.29.0) and the Go toolchain's linux/amd64 build configuration; "
               "/repo uses no unsafe/cgo/reflect-based writes in hand-written code (the loader fails otherwise). The check decides structural necessary "
               "conditions on every path of the current source, never the numerical/scheduling behaviour itself. ")

# id -> (technique, level text, design_ref, level_note (what is not decided))
CHECKS = {
 "C11": ("dominating-guard inventory over go/ssa (ordering-set facts, symbolic bounds, data-dependence of equations)",
         "Every range/gcd/parity/compositeness guard and every verification equation the property names is shown to dominate each accepting return of its verifier with a reject set at least as large as required, on all paths of the current source; Paillier domain guards dominate every non-error return; security constants are read from the type checker. A missing, weakened, misplaced or wrong-operand guard is reported with its verifier and guard name.",
         "§4.11",
         "Not decided: soundness itself (that the inventory suffices to reject every false statement) and collision resistance of the hash. The inventory is the protocol specification's (GG18 / CGGMP figures)."),
}

NOT_BUILT_REASON = "check not yet built in this working session (planned: see DESIGN.md §4); not claimed until its rules run silent on the unchanged tree and fire on seeded defects"

ALL = ["C%02d" % i for i in range(1, 21)]

def main():
    checks = []
    for pid in ALL:
        if pid not in CHECKS:
            continue
        tech, text, ref, note = CHECKS[pid]
        checks.append({
            "property_id": pid,
            "quick_cmd": "./check.sh %s quick" % pid,
            "thorough_cmd": "./check.sh %s thorough" % pid,
            "evidence_file": "/verif/evidence/%s.json" % pid,
            "replay_cmd_template": "./check.sh explain {path}",
            "engine": "tsscheck",
            "level_claimed": {"category": "other", "text": text, "design_ref": "DESIGN.md " + ref},
            "level_note": COMMON_NOTE + note,
            "technique": "static analysis: " + tech,
        })
    na = [{"property_id": pid, "reason": NOT_BUILT_REASON} for pid in ALL if pid not in CHECKS]
    m = {
        "version": 1,
        "setup_cmd": "cd /verif/tsscheck && GOFLAGS=-mod=mod GOPROXY=off GOSUMDB=off GOTOOLCHAIN=local GOWORK=off go build -o /verif/bin/tsscheck ./cmd/tsscheck",
        "hooks": {"guard": "verif", "enable": "none needed: the checks analyse /repo's source as built by default (no instrumentation)", "baseline_off_cmd": BASE, "source_commits": [], "add_only": True},
        "engines": [{"name": "tsscheck", "path": "/verif/tsscheck", "serves_properties": [c["property_id"] for c in checks],
                     "kind_free_text": "repository-specific static analyzer over go/packages + go/ssa: dominance/edge facts with ordering sets, symbolic big.Int terms, data-dependence, typestate and table-agreement rules"}],
        "checks": checks,
        "not_applicable": na,
        "notes": "All claims are at level 'other': a structural necessary condition of the property is decided for every path of /repo's current source; the behavioural remainder is listed per check in level_note and in each evidence file's coverage.explanation. Genuine defects found are in known_findings.json (fixed: entries record fix commits in /repo).",
    }
    with open(os.path.join(os.path.dirname(os.path.abspath(__file__)), "MANIFEST.json"), "w") as f:
        json.dump(m, f, indent=1)
        f.write("\n")

if __name__ == "__main__":
    main()
