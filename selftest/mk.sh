#!/bin/bash
# usage: mk.sh <ID> <name> <expect> <file> <python-replace-old> <python-replace-new> [<file2> <old2> <new2> ...]
# creates selftest/<ID>/<name>.diff by replacing an exact (unique) source fragment in a scratch copy of /repo.
set -eu
ID="$1"; NAME="$2"; EXP="$3"; shift 3
VERIF="$(cd "$(dirname "$0")/.." && pwd)"
S="$(mktemp -d /tmp/mkmut.XXXXXX)"
mkdir -p "$S/a" "$S/b"
files=()
while [ $# -ge 3 ]; do
  F="$1"; OLD="$2"; NEW="$3"; shift 3
  mkdir -p "$S/a/$(dirname "$F")" "$S/b/$(dirname "$F")"
  [ -f "$S/a/$F" ] || cp "/repo/$F" "$S/a/$F"
  [ -f "$S/b/$F" ] || cp "/repo/$F" "$S/b/$F"
  python3 - "$S/b/$F" "$OLD" "$NEW" <<'PY'
import sys
p,old,new=sys.argv[1:4]
s=open(p).read()
n=s.count(old)
if n!=1:
    sys.exit("fragment occurs %d times in %s (need exactly 1)"%(n,p))
open(p,'w').write(s.replace(old,new))
PY
done
mkdir -p "$VERIF/selftest/$ID"
OUT="$VERIF/selftest/$ID/$NAME.diff"
{ IFS='|'; for e in $EXP; do echo "# expect: $e"; done; unset IFS; (cd "$S" && diff -ruN a b || true); } > "$OUT"
rm -rf "$S"
grep -c '^[-+][^-+]' "$OUT" | xargs echo "wrote $OUT; changed lines:"
