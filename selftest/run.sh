#!/bin/bash
# Self-test of the checker: applies each patch in selftest/<ID>/*.diff to a scratch copy of the
# CURRENT /repo tree and runs the property's check on it.
#   "# expect: <substring of an obligation key>"  -> the check must report a violation whose key contains it
#   "# expect: silent"                               -> the check must stay silent (behaviour-preserving refactor)
# A patch that no longer applies is reported as skipped. A miss prints SELFTEST-FAIL and exits 2
# (never a VIOLATION line: this tests the machinery, not /repo).
set -u
ID="${1:?property id}"
VERIF="$(cd "$(dirname "$0")/.." && pwd)"
REPO="${VERIF_REPO:-/repo}"
DIR="$VERIF/selftest/$ID"
[ -d "$DIR" ] || [ -d "$VERIF/selftest/benign" ] || { echo "selftest $ID: no corpus"; exit 0; }
export GOFLAGS=-mod=mod GOPROXY=off GOSUMDB=off GOTOOLCHAIN=local; unset GOWORK
fail=0; n=0; skipped=0
run_one() {
  d="$1"
  name="$(basename "$d" .diff)"
  S="$(mktemp -d "${TMPDIR:-/tmp}/tsscheck-selftest.XXXXXX")"
  rsync -a --exclude .git "$REPO/" "$S/repo/"
  if ! (cd "$S/repo" && patch -p1 -s --no-backup-if-mismatch < "$d" >/dev/null 2>&1); then
    echo "selftest $ID/$name: SKIPPED (patch does not apply to the current tree)"; rm -rf "$S"; return 3
  fi
  mkdir -p "$S/verif/evidence"; cp "$VERIF/known_findings.json" "$S/verif/" 2>/dev/null
  out="$("$VERIF/bin/tsscheck" -property "$ID" -tier quick -repo "$S/repo" -verif "$S/verif" 2>&1)"; rc=$?
  rm -rf "$S"
  rcsum=0
  while IFS= read -r exp; do
    exp="${exp#\# expect: }"
    if [ "$exp" = silent ]; then
      if [ $rc -ne 0 ]; then echo "SELFTEST-FAIL $ID/$name: expected silence, got:"; echo "$out" | grep -E 'VIOLATED|UNDECIDED' | head -5; rcsum=1; fi
    else
      if ! echo "$out" | grep -E 'VIOLATED|UNDECIDED' | grep -qF -- "$exp"; then echo "SELFTEST-FAIL $ID/$name: expected a violation containing '$exp', got rc=$rc:"; echo "$out" | grep -E 'VIOLATED|UNDECIDED' | head -5; rcsum=1; fi
    fi
  done < <(grep '^# expect: ' "$d")
  [ $rcsum -eq 0 ] && echo "selftest $ID/$name: ok"
  return $rcsum
}
pids=()
# the property's own corpus, then the behaviour-preserving corpus shared by all properties (expect: silent)
for d in "$DIR"/*.diff "$VERIF"/selftest/benign/*.diff; do
  [ -f "$d" ] || continue
  # a benign variant tagged "# checks: Cxx Cyy" is the regression test of those checks (it once raised a
  # false alarm there); it is replayed for them only. Untagged variants are replayed for every property.
  # (tools/benign_sweep.sh replays every variant under all twenty checks.)
  if tags="$(grep -m1 '^# checks:' "$d")"; then case " ${tags#\# checks:} " in *" $ID "*) ;; *) continue ;; esac; fi
  n=$((n+1))
  run_one "$d" & pids+=($!)
  if [ ${#pids[@]} -ge 6 ]; then wait "${pids[0]}"; r=$?; [ $r -eq 1 ] && fail=$((fail+1)); [ $r -eq 3 ] && skipped=$((skipped+1)); pids=("${pids[@]:1}"); fi
done
for p in "${pids[@]}"; do wait "$p"; r=$?; [ $r -eq 1 ] && fail=$((fail+1)); [ $r -eq 3 ] && skipped=$((skipped+1)); done
echo "selftest $ID: $n variants, $fail failed, $skipped skipped"
[ $fail -eq 0 ] || exit 2
exit 0
