#!/bin/bash
# usage: benign_sweep.sh [diff ...] — apply each behaviour-preserving variant (default: selftest/benign) to a scratch
# copy of /repo, check that it still compiles, and run EVERY property check on it (one load, `-property all`):
# any alarm is a false alarm of the machinery. Prints one line per (variant, check) that is not silent.
set -u
VERIF="$(cd "$(dirname "$0")/.." && pwd)"
export GOFLAGS=-mod=mod GOPROXY=off GOSUMDB=off GOTOOLCHAIN=local; unset GOWORK
PAR="${SWEEP_PAR:-4}"
files=("$@"); [ ${#files[@]} -eq 0 ] && files=("$VERIF"/selftest/benign/*.diff)
run_one() {
  d="$(readlink -f "$1")"; n="$(basename "$(dirname "$d")")/$(basename "$d" .diff)"
  S="$(mktemp -d /tmp/bsweep.XXXXXX)"
  rsync -a --exclude .git /repo/ "$S/repo/"
  if ! (cd "$S/repo" && patch -p1 -s --no-backup-if-mismatch < "$d" >/dev/null 2>&1); then echo "benign $n: SKIPPED (does not apply)"; rm -rf "$S"; return; fi
  if ! (cd "$S/repo" && go build ./... >/dev/null 2>&1); then echo "benign $n: DOES NOT COMPILE"; rm -rf "$S"; return; fi
  mkdir -p "$S/verif/evidence"; cp "$VERIF/known_findings.json" "$S/verif/"
  out="$("$VERIF/bin/tsscheck" -property all -tier quick -repo "$S/repo" -verif "$S/verif" 2>&1)"
  bad=0
  if ! echo "$out" | grep -q '^SWEEP C20'; then bad=1; echo "FALSE-ALARM benign/$n INFRA: $(echo "$out" | tail -3 | tr '\n' ' ' | cut -c1-300)"; fi
  for q in $(echo "$out" | awk '/^SWEEP / && $3!="rc=0" {print $2}'); do
    bad=1
    echo "FALSE-ALARM benign/$n $q: $(echo "$out" | awk -v q="$q" '/^  (VIOLATED|UNDECIDED)/{buf=buf $0 "\n"} /^SWEEP /{ if ($2==q) printf "%s", buf; buf="" }' | head -3 | cut -c1-300 | tr '\n' ' ')"
  done
  [ $bad = 0 ] && echo "benign $n: silent under all 20 checks"
  rm -rf "$S"
}
pids=()
for d in "${files[@]}"; do
  run_one "$d" & pids+=($!)
  if [ ${#pids[@]} -ge "$PAR" ]; then wait "${pids[0]}"; pids=("${pids[@]:1}"); fi
done
wait
