#!/bin/bash
# usage: benign_sweep.sh [diff ...] — apply each behaviour-preserving variant of selftest/benign to a scratch
# copy of /repo, check that it still compiles, and run EVERY property check on it: any alarm is a false alarm
# of the machinery. Prints one line per (variant, check) that is not silent.
set -u
VERIF="$(cd "$(dirname "$0")/.." && pwd)"
export GOFLAGS=-mod=mod GOPROXY=off GOSUMDB=off GOTOOLCHAIN=local; unset GOWORK
files=("$@"); [ ${#files[@]} -eq 0 ] && files=("$VERIF"/selftest/benign/*.diff)
run_one() {
  d="$1"; n="$(basename "$d" .diff)"
  S="$(mktemp -d /tmp/benign.XXXXXX)"
  rsync -a --exclude .git /repo/ "$S/repo/"
  if ! (cd "$S/repo" && patch -p1 -s --no-backup-if-mismatch < "$d" >/dev/null 2>&1); then echo "benign $n: SKIPPED (does not apply)"; rm -rf "$S"; return; fi
  if ! (cd "$S/repo" && go build ./... >/dev/null 2>&1); then echo "benign $n: DOES NOT COMPILE"; rm -rf "$S"; return; fi
  mkdir -p "$S/verif/evidence"; cp "$VERIF/known_findings.json" "$S/verif/"
  bad=0
  for q in C01 C02 C03 C04 C05 C06 C07 C08 C09 C10 C11 C12 C13 C14 C15 C16 C17 C18 C19 C20; do
    out="$("$VERIF/bin/tsscheck" -property "$q" -tier quick -repo "$S/repo" -verif "$S/verif" 2>&1)"; rc=$?
    if [ $rc -ne 0 ]; then bad=1; echo "FALSE-ALARM benign/$n $q: $(echo "$out" | grep -E '^\s+(VIOLATED|UNDECIDED)' | head -3 | cut -c1-300 | tr '\n' ' ')"; fi
  done
  [ $bad = 0 ] && echo "benign $n: silent under all 20 checks"
  rm -rf "$S"
}
pids=()
for d in "${files[@]}"; do
  run_one "$d" & pids+=($!)
  if [ ${#pids[@]} -ge 6 ]; then wait "${pids[0]}"; pids=("${pids[@]:1}"); fi
done
wait
