#!/bin/bash
# usage: detect_matrix.sh [ids...]  — for each seeded change, run its own property's check (and every other check
# with --all) on a scratch copy of /repo with the patch applied; writes seeded/DETECTION.tsv
set -u
VERIF="$(cd "$(dirname "$0")/.." && pwd)"
ALL=0; [ "${1:-}" = "--all" ] && { ALL=1; shift; }
OUT="$VERIF/seeded/DETECTION.tsv"
: > "$OUT.tmp"
run_one() {
  d="$1"; n="$(basename "$d")"; prop="${n%-*}"
  p="$d/patch.diff"; [ -f "$d/patch.rebased.diff" ] && p="$d/patch.rebased.diff"
  S="$(mktemp -d /tmp/detect.XXXXXX)"
  rsync -a --exclude .git /repo/ "$S/repo/"
  if ! (cd "$S/repo" && (git apply "$p" 2>/dev/null || patch -p1 -s --no-backup-if-mismatch < "$p" >/dev/null 2>&1)); then echo -e "$n\t-\tPATCH-DOES-NOT-APPLY" >> "$OUT.tmp"; rm -rf "$S"; return; fi
  mkdir -p "$S/verif/evidence"; cp "$VERIF/known_findings.json" "$S/verif/"
  props="$prop"; [ $ALL = 1 ] && props="C01 C02 C03 C04 C05 C06 C07 C08 C09 C10 C11 C12 C13 C14 C15 C16 C17 C18 C19 C20"
  for q in $props; do
    out="$("$VERIF/bin/tsscheck" -property "$q" -tier quick -repo "$S/repo" -verif "$S/verif" 2>&1)"; rc=$?
    rules="$(echo "$out" | grep -E '^\s+(VIOLATED|UNDECIDED)' | sed -E 's/^\s+(VIOLATED|UNDECIDED) ([^|]+)\|.*/\2/' | sort -u | tr '\n' ',' | sed 's/,$//')"
    if [ $rc -ne 0 ]; then echo -e "$n\t$q\tDETECTED\t$rules" >> "$OUT.tmp"; else [ "$q" = "$prop" ] && echo -e "$n\t$q\tmissed\t" >> "$OUT.tmp"; fi
  done
  rm -rf "$S"
}
pids=()
for d in "$VERIF"/seeded/C*-*/; do
  d="${d%/}"
  if [ $# -gt 0 ]; then match=0; for w in "$@"; do [ "$(basename "$d")" = "$w" ] && match=1; done; [ $match = 1 ] || continue; fi
  run_one "$d" & pids+=($!)
  if [ ${#pids[@]} -ge 5 ]; then wait "${pids[0]}"; pids=("${pids[@]:1}"); fi
done
wait
# merge: rows of the changes examined in this run replace their old rows, the others are kept
if [ -f "$OUT" ]; then
  cut -f1 "$OUT.tmp" | sort -u > "$OUT.ids"
  if [ $ALL = 1 ]; then grep -v -F -w -f "$OUT.ids" "$OUT" >> "$OUT.tmp" || true
  else awk -F'\t' 'NR==FNR{ids[$1]=1;next} !(($1 in ids) && (substr($1,1,3)==$2))' "$OUT.ids" "$OUT" >> "$OUT.tmp" || true; fi
  rm -f "$OUT.ids"
fi
sort -u "$OUT.tmp" > "$OUT"; rm -f "$OUT.tmp"
cat "$OUT"
