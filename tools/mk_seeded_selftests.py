#!/usr/bin/env python3
"""Turn every confirmed seeded change into a self-test variant of its own property:
selftest/<Cid>/seeded-<Cid>-<X>.diff = '# expect: <rule>' + the (rebased) patch, the rule being the one
seeded/DETECTION.tsv records for the change under its own property's check."""
import csv, json, os, sys
V = os.path.dirname(os.path.dirname(os.path.abspath(__file__)))
det = {}
for row in csv.reader(open(os.path.join(V, "seeded", "DETECTION.tsv")), delimiter="\t"):
    if len(row) >= 4 and row[2] == "DETECTED" and row[0].startswith(row[1]):
        det[row[0]] = row[3].split(",")
n = 0
for d in sorted(os.listdir(os.path.join(V, "seeded"))):
    p = os.path.join(V, "seeded", d)
    if not os.path.isdir(p) or d not in det:
        continue
    meta = json.load(open(os.path.join(p, "meta.json")))
    if not meta.get("confirmed"):
        continue
    patch = os.path.join(p, "patch.rebased.diff")
    if not os.path.exists(patch):
        patch = os.path.join(p, "patch.diff")
    cid = d.split("-")[0]
    os.makedirs(os.path.join(V, "selftest", cid), exist_ok=True)
    out = os.path.join(V, "selftest", cid, "seeded-%s.diff" % d)
    body = open(patch).read()
    rule = det[d][0]
    new = "# expect: %s\n# seeded change %s (see seeded/%s/)\n%s" % (rule, d, d, body)
    if not os.path.exists(out) or open(out).read() != new:
        open(out, "w").write(new)
        n += 1
print("seeded self-test variants written/updated:", n)
