#!/bin/bash
# usage: try_patch.sh <ID> <patch.diff>  — run property check ID on a scratch copy of /repo with the patch applied
set -u
ID="$1"; P="$(readlink -f "$2")"
VERIF="$(cd "$(dirname "$0")/.." && pwd)"
S="$(mktemp -d /tmp/trypatch.XXXXXX)"
rsync -a --exclude .git --exclude mutants /repo/ "$S/repo/"
if ! (cd "$S/repo" && (git apply "$P" 2>/dev/null || patch -p1 -s --no-backup-if-mismatch < "$P")); then echo "PATCH DOES NOT APPLY"; rm -rf "$S"; exit 3; fi
mkdir -p "$S/verif/evidence"; cp "$VERIF/known_findings.json" "$S/verif/"
"$VERIF/bin/tsscheck" -property "$ID" -tier quick -repo "$S/repo" -verif "$S/verif" 2>&1 | grep -vE '^KNOWN-FINDING' | cut -c1-500 | tail -8
rm -rf "$S"
