#!/usr/bin/env python3
"""Fill seeded/<id>/meta.json with: summary, clause broken, what it needs to manifest (from the author's README),
and which checks/rules report it (from seeded/DETECTION.tsv, produced by tools/detect_matrix.sh --all)."""
import json,os,re,glob
V=os.path.dirname(os.path.dirname(os.path.abspath(__file__)))
det={}
for l in open(os.path.join(V,'seeded','DETECTION.tsv')):
    f=l.rstrip('\n').split('\t')
    if len(f)<3: continue
    det.setdefault(f[0],[]).append({'check':f[1],'result':f[2],'rules':[r for r in (f[3] if len(f)>3 else '').split(',') if r]})
def section(txt,*heads):
    for h in heads:
        m=re.search(r'^#+\s*[^\n]*'+h+r'[^\n]*\n(.*?)(?=^#+\s|\Z)',txt,re.S|re.M|re.I)
        if m: return ' '.join(m.group(1).split())[:900]
    return ''
for d in sorted(glob.glob(os.path.join(V,'seeded','C*-*'))):
    n=os.path.basename(d)
    mp=os.path.join(d,'meta.json')
    meta=json.load(open(mp)) if os.path.exists(mp) else {}
    rd=''
    for cand in ('AGENT_README.md','README.md'):
        p=os.path.join(d,cand)
        if os.path.exists(p): rd=open(p).read(); break
    title=rd.split('\n',1)[0].lstrip('# ').strip() if rd else ''
    meta['summary']=title
    meta['breaks']=section(rd,'clause','breaks','broken')
    meta['needs_to_manifest']=section(rd,'needs','manifest')
    rows=det.get(n,[])
    own=[r for r in rows if r['check']==n.split('-')[0]]
    meta['detected_by_own_check']=bool(own and own[0]['result']=='DETECTED')
    meta['detected_by']=[{'check':r['check'],'rules':r['rules']} for r in rows if r['result']=='DETECTED']
    meta['what_i_ran']='tools/verify_seeded.py (a: demo passes without the patch, b: demo fails with it, c: pinned suite passes with it); tools/detect_matrix.sh --all (every check on a scratch copy with the patch applied)'
    if os.path.exists(os.path.join(d,'patch.rebased.diff')): meta['rebased']='patch.rebased.diff applies to the tree after the fix: commits; patch.diff is the author\'s original'
    json.dump(meta,open(mp,'w'),indent=1)
print('updated',len(glob.glob(os.path.join(V,'seeded','C*-*'))))
