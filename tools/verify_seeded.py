#!/usr/bin/env python3
"""Independent confirmation of a seeded change: in a scratch worktree of /repo's HEAD,
(a) the demonstration passes without the patch, (b) fails with it, (c) the existing suite passes with it.
usage: verify_seeded.py <Cid> <A|B> <srcdir> [--no-suite]   -> writes /verif/seeded/<Cid>-<X>/{patch.diff,demo,meta.json}"""
import json, os, re, shutil, subprocess, sys, time, glob

def sh(cmd, cwd=None, timeout=1800):
    env = dict(os.environ, GOFLAGS="-mod=mod", GOPROXY="off", GOSUMDB="off", GOTOOLCHAIN="local")
    env.pop("GOWORK", None)
    try:
        p = subprocess.run(cmd, shell=True, cwd=cwd, env=env, stdout=subprocess.PIPE, stderr=subprocess.STDOUT, timeout=timeout, text=True)
        return p.returncode, p.stdout
    except subprocess.TimeoutExpired as e:
        return 124, (e.stdout or "") + "\nTIMEOUT"

def main():
    cid, x, src = sys.argv[1], sys.argv[2], sys.argv[3]
    suite = "--no-suite" not in sys.argv
    wt = f"/tmp/sv-{cid}-{x}"
    sh(f"git -C /repo worktree remove --force {wt}")
    rc, out = sh(f"git -C /repo worktree add -q --detach {wt} HEAD")
    if rc != 0:
        print(out); return 2
    meta = {"property": cid, "variant": x, "base_commit": sh("git -C /repo rev-parse --short HEAD")[1].strip()}
    try:
        patch = os.path.join(src, "patch.rebased.diff")
        if not os.path.exists(patch):
            patch = os.path.join(src, "patch.diff")
        demos = [f for f in glob.glob(os.path.join(src, "*.go"))]
        if not demos:
            meta["error"] = "no demo file"; return finish(meta, cid, x, src, patch, None)
        demo = demos[0]
        readme = open(os.path.join(src, "README.md")).read() if os.path.exists(os.path.join(src, "README.md")) else ""
        base = os.path.basename(demo).lstrip("_")
        # placement: a path in the README ending in the demo's file name
        m = re.findall(r"([A-Za-z0-9_./-]*/" + re.escape(base) + r")", readme)
        place = None
        for cand in m:
            cand = cand.lstrip("./")
            cand = re.sub(r"^.*?(ecdsa|eddsa|crypto|common|tss)/", r"\1/", cand)
            if os.path.isdir(os.path.join(wt, os.path.dirname(cand))) and not cand.startswith("mutants"):
                place = cand; break
        if place is None:
            # "cp …/zz_demo_x_test.go <dir>/"  or  "place it in `<dir>/`"
            for pat in [r"cp\s+\S*" + re.escape(base) + r"\s+(\S+?)/?\s*$", r"place[sd]? (?:it )?(?:in|at|under) `?([A-Za-z0-9_./-]+?)/?`"]:
                for cand in re.findall(pat, readme, re.M):
                    cand = cand.lstrip("./")
                    cand = re.sub(r"^.*?(ecdsa|eddsa|crypto|common|tss)(/|$)", r"\1\2", cand)
                    if cand.endswith(base):
                        cand = os.path.dirname(cand)
                    if cand and os.path.isdir(os.path.join(wt, cand)):
                        place = cand + "/" + base; break
                if place: break
        if place is None:
            # fall back: package clause of the demo
            pk = re.search(r"^package (\w+)", open(demo).read(), re.M).group(1).replace("_test", "")
            for d in ["ecdsa/"+pk, "eddsa/"+pk, "crypto/"+pk, pk, "crypto"]:
                if os.path.isdir(os.path.join(wt, d)):
                    place = d + "/" + base; break
        meta["demo_file"] = os.path.basename(demo); meta["demo_placement"] = place
        pkgdir = os.path.dirname(place)
        shutil.copy(demo, os.path.join(wt, place))
        race = "-race " if "-race" in readme else ""
        runpat = ""
        tests = re.findall(r"^func (Test\w+)\(", open(demo).read(), re.M)
        if tests:
            runpat = "-run '^(" + "|".join(tests) + ")$' "
        cmd = f"go test -vet=off -count=1 {race}{runpat}-timeout 10m ./{pkgdir}/"
        meta["demo_cmd"] = cmd
        t0 = time.time()
        rc_a, out_a = sh(cmd, cwd=wt)
        meta["a_demo_without_patch"] = {"exit": rc_a, "tail": out_a[-600:]}
        rc, out = sh(f"git apply {patch}", cwd=wt)
        if rc != 0:
            rc, out = sh(f"git apply --3way {patch}", cwd=wt)
        if rc != 0:
            meta["error"] = "patch does not apply to current HEAD: " + out[-300:]
            return finish(meta, cid, x, src, patch, demo)
        rc_b, out_b = sh(cmd, cwd=wt)
        meta["b_demo_with_patch"] = {"exit": rc_b, "tail": out_b[-900:]}
        os.remove(os.path.join(wt, place))
        if suite:
            rc_c, out_c = sh("go test -vet=off -count=1 -timeout 25m ./...", cwd=wt, timeout=2400)
            meta["c_suite_with_patch"] = {"exit": rc_c, "tail": out_c[-700:]}
        else:
            rc_c = None
        meta["confirmed"] = (rc_a == 0 and rc_b != 0 and (rc_c == 0 or rc_c is None))
        meta["wall_s"] = round(time.time() - t0)
        return finish(meta, cid, x, src, patch, demo)
    finally:
        sh(f"git -C /repo worktree remove --force {wt}")

def finish(meta, cid, x, src, patch, demo):
    out = f"/verif/seeded/{cid}-{x}"
    os.makedirs(out, exist_ok=True)
    shutil.copy(patch, os.path.join(out, "patch.diff"))
    if demo:
        shutil.copy(demo, os.path.join(out, os.path.basename(demo).lstrip("_") + ".txt"))
    if os.path.exists(os.path.join(src, "README.md")):
        shutil.copy(os.path.join(src, "README.md"), os.path.join(out, "AGENT_README.md"))
    json.dump(meta, open(os.path.join(out, "meta.json"), "w"), indent=1)
    print(cid, x, "confirmed" if meta.get("confirmed") else "NOT-CONFIRMED", meta.get("error", ""))
    return 0

if __name__ == "__main__":
    sys.exit(main())
