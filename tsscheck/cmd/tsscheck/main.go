// tsscheck decides structural necessary conditions of the tss-lib properties
// C01–C20 by static analysis of /repo's current working tree.
package main

import (
	"flag"
	"fmt"
	"os"
	"runtime/debug"
	"strconv"

	"tsscheck/internal/core"
	"tsscheck/internal/rules"
)

func main() {
	prop := flag.String("property", "", "property id C01..C20")
	tier := flag.String("tier", "quick", "quick|thorough")
	repo := flag.String("repo", "/repo", "repository to analyse")
	verif := flag.String("verif", "/verif", "verif directory (evidence, known findings)")
	goarch := flag.String("goarch", "", "GOARCH override for loading")
	list := flag.Bool("list", false, "list properties")
	dump := flag.String("dump", "", "debug: print facts of pkg:Func or pkg:Type.Method")
	flag.Parse()
	if *list {
		for _, id := range rules.IDs() {
			fmt.Println(id)
		}
		return
	}
	if *dump != "" {
		p, err := core.Load(*repo, *goarch)
		if err != nil {
			fmt.Fprintln(os.Stderr, err)
			os.Exit(2)
		}
		rules.Dump(p, *dump)
		return
	}
	seed, _ := strconv.ParseInt(os.Getenv("VERIF_SEED"), 10, 64)
	if *prop == "all" {
		// development aid (benign sweeps): one load, every property's check in turn; exit 1 if any fails
		p, err := core.Load(*repo, *goarch)
		if err != nil {
			fmt.Fprintln(os.Stderr, err)
			os.Exit(2)
		}
		worst := 0
		for _, id := range rules.IDs() {
			rep := core.NewReport(id, *tier, seed)
			code := func() (code int) {
				defer func() {
					if r := recover(); r != nil {
						fmt.Fprintf(os.Stderr, "analyzer panic in %s: %v\n%s\n", id, r, debug.Stack())
						rep.Unk("infra", "infra|panic", "-", fmt.Sprintf("analyzer panic: %v", r))
						code = rep.Finish(*verif)
					}
				}()
				rep.Stats["packages"] = len(p.Pkgs)
				rep.Stats["module_functions"] = len(p.ModuleFuncs(false))
				rules.Registry[id](p, rep)
				return rep.Finish(*verif)
			}()
			fmt.Printf("SWEEP %s rc=%d\n", id, code)
			if code > worst {
				worst = code
			}
		}
		os.Exit(worst)
	}
	run, ok := rules.Registry[*prop]
	if !ok {
		fmt.Fprintf(os.Stderr, "unknown property %q\n", *prop)
		os.Exit(2)
	}
	rep := core.NewReport(*prop, *tier, seed)
	code := func() (code int) {
		defer func() {
			if r := recover(); r != nil {
				// analyzer panics fail the check: silence is only produced by discharged obligations
				fmt.Fprintf(os.Stderr, "analyzer panic: %v\n%s\n", r, debug.Stack())
				rep.Unk("infra", "infra|panic", "-", fmt.Sprintf("analyzer panic: %v", r))
				code = rep.Finish(*verif)
			}
		}()
		p, err := core.Load(*repo, *goarch)
		if err != nil {
			rep.Unk("infra", "infra|load", "-", "cannot load /repo: "+err.Error())
			return rep.Finish(*verif)
		}
		rep.Stats["packages"] = len(p.Pkgs)
		rep.Stats["module_functions"] = len(p.ModuleFuncs(false))
		run(p, rep)
		return rep.Finish(*verif)
	}()
	os.Exit(code)
}
