package core

import (
	"go/types"
	"strings"

	"golang.org/x/tools/go/ssa"
)

// big.Int values are pointers to mutable objects: z.Op(x,y) overwrites z and
// returns z. A call result therefore denotes "the object's state right after
// that call", and every other SSA name of the same object (the allocation, an
// earlier call result) silently changes meaning. The term evaluator resolves a
// *big.Int value at a *use site* to the last mutating call on its object that
// dominates the site; without a site, a name that may be read after a later
// mutation of its object is reported as opaque ("stale").

var bigSetters = map[string]bool{
	"Mul": true, "Add": true, "Sub": true, "Mod": true, "Div": true, "Quo": true, "Rem": true, "Exp": true,
	"ModInverse": true, "Sqrt": true, "Set": true, "Neg": true, "Abs": true, "Lsh": true, "Rsh": true, "GCD": true,
	"SetBytes": true, "SetInt64": true, "SetUint64": true, "SetBit": true, "And": true, "Or": true, "Xor": true,
	"Not": true, "ModSqrt": true, "Rand": true, "Binomial": true, "MulRange": true, "AndNot": true, "SetBits": true,
	"FillBytes": false,
}

// BigSetter: call is a receiver-mutating, receiver-returning (*big.Int) method.
func BigSetter(c ssa.CallInstruction) bool {
	n := CalleeName(c)
	if !strings.HasPrefix(n, big_) {
		return false
	}
	return bigSetters[strings.TrimPrefix(n, big_)]
}

func isBigPtr(t types.Type) bool {
	p, ok := t.(*types.Pointer)
	if !ok {
		return false
	}
	n, ok := p.Elem().(*types.Named)
	return ok && n.Obj().Pkg() != nil && n.Obj().Pkg().Path() == "math/big" && n.Obj().Name() == "Int"
}

// BigRoot follows receiver-returning setter results back to the object they mutate.
func BigRoot(v ssa.Value) ssa.Value {
	for i := 0; i < 64; i++ {
		v = Strip(v)
		c, ok := v.(*ssa.Call)
		if !ok || !BigSetter(c) {
			return v
		}
		v = c.Call.Args[0]
	}
	return v
}

var bigMutCache = map[*ssa.Function]map[ssa.Value][]*ssa.Call{}

// BigMuts lists the setter calls in root's function that mutate the object root.
func BigMuts(root ssa.Value) []*ssa.Call {
	fn := root.Parent()
	if fn == nil {
		return nil
	}
	m, ok := bigMutCache[fn]
	if !ok {
		m = map[ssa.Value][]*ssa.Call{}
		for _, b := range fn.Blocks {
			for _, in := range b.Instrs {
				if c, ok := in.(*ssa.Call); ok && BigSetter(c) {
					r := BigRoot(c.Call.Args[0])
					m[r] = append(m[r], c)
				}
			}
		}
		bigMutCache[fn] = m
	}
	return m[root]
}

// bigStateAt: the setter call that defines the state of v's object at site
// `at` (nil,true = initial state; nil,false = cannot be decided).
func bigStateAt(v ssa.Value, at ssa.Instruction) (*ssa.Call, bool) {
	root := BigRoot(v)
	muts := BigMuts(root)
	if len(muts) == 0 {
		return nil, true
	}
	var last *ssa.Call
	for _, m := range muts {
		if m == at || m.Parent() != at.Parent() {
			continue
		}
		if InstrDominates(m, at) {
			if last == nil || InstrDominates(last, m) {
				last = m
			} else if !InstrDominates(m, last) {
				return nil, false
			}
		} else if InstrReaches(m, at) {
			// a mutation on some but not all paths to the site
			return nil, false
		}
	}
	if last != nil {
		// a mutation inside a loop between last and the site that does not dominate it is caught above
		return last, true
	}
	return nil, true
}

// bigStale: v is the result of setter call m; is there a later mutation of the
// same object after which v is still read?
func bigStale(v *ssa.Call) bool {
	root := BigRoot(v)
	for _, m := range BigMuts(root) {
		if m == v || !InstrReaches(v, m) {
			continue
		}
		refs := v.Referrers()
		if refs == nil {
			continue
		}
		for _, u := range *refs {
			if u == ssa.Instruction(m) {
				continue
			}
			if u.Parent() == m.Parent() && InstrReaches(m, u) {
				return true
			}
		}
	}
	return false
}
