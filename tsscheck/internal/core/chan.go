package core

import (
	"go/token"

	"golang.org/x/tools/go/ssa"
)

// ChanMake resolves a channel value to its MakeChan instruction through
// single-store locals, closure free variables and closure parameters.
func ChanMake(v ssa.Value) *ssa.MakeChan {
	for i := 0; i < 12; i++ {
		v = Strip(v)
		switch x := v.(type) {
		case *ssa.MakeChan:
			return x
		case *ssa.FreeVar:
			b := FreeVarBinding(x)
			if b == nil {
				return nil
			}
			v = b
		case *ssa.Alloc:
			if s := singleStore(x); s != nil {
				v = s
				continue
			}
			return nil
		case *ssa.UnOp:
			if x.Op == token.MUL {
				if a := allocOf(x.X); a != nil {
					if s := singleStore(a); s != nil {
						v = s
						continue
					}
				}
				// element of a local slice of channels: chs[j]
				if ia, ok := x.X.(*ssa.IndexAddr); ok {
					if mk := sliceElemMake(ia.X); mk != nil {
						return mk
					}
				}
			}
			return nil
		case *ssa.Parameter:
			fn := x.Parent()
			idx := -1
			for i, p := range fn.Params {
				if p == x {
					idx = i
				}
			}
			var found ssa.Value
			for _, cs := range ClosureCallSites(fn) {
				a := cs.Common().Args
				if idx >= len(a) {
					return nil
				}
				if found != nil && found != a[idx] {
					return nil
				}
				found = a[idx]
			}
			if found == nil {
				return nil
			}
			v = found
		case *ssa.ChangeType:
			v = x.X
		default:
			return nil
		}
	}
	return nil
}

// sliceElemMake: for a local slice of channels all of whose elements are
// assigned from one MakeChan site (chs[i] = make(chan T)), return that site.
func sliceElemMake(slice ssa.Value) *ssa.MakeChan {
	slice = Strip(slice)
	var mk *ssa.MakeChan
	for _, al := range SliceAliases(slice) {
		refs := al.Referrers()
		if refs == nil {
			continue
		}
		for _, in := range *refs {
			if ia, ok := in.(*ssa.IndexAddr); ok && ia.X == al {
				if r := ia.Referrers(); r != nil {
					for _, u := range *r {
						if st, ok := u.(*ssa.Store); ok && st.Addr == ia {
							m, ok := Strip(st.Val).(*ssa.MakeChan)
							if !ok || (mk != nil && mk != m) {
								return nil
							}
							mk = m
						}
					}
				}
			}
		}
	}
	return mk
}

// SliceAliases: the slice value itself plus every load of a single-store local
// variable (possibly captured by closures) that holds it.
func SliceAliases(slice ssa.Value) []ssa.Value {
	out := []ssa.Value{slice}
	refs := slice.Referrers()
	if refs == nil {
		return out
	}
	for _, in := range *refs {
		st, ok := in.(*ssa.Store)
		if !ok || st.Val != slice {
			continue
		}
		a, ok := st.Addr.(*ssa.Alloc)
		if !ok || singleStore(a) == nil {
			continue
		}
		visitAllocUses(a, func(u ssa.Instruction, self ssa.Value) {
			if ld, ok := u.(*ssa.UnOp); ok && ld.Op == token.MUL && ld.X == self {
				out = append(out, ld)
			}
		})
	}
	return out
}

// SendsOn lists the Send instructions on channels created at mk, in fn and its closures.
func SendsOn(fn *ssa.Function, mk *ssa.MakeChan) []*ssa.Send {
	var out []*ssa.Send
	for _, g := range WithHelpers(fn) {
		for _, b := range g.Blocks {
			for _, in := range b.Instrs {
				if s, ok := in.(*ssa.Send); ok && ChanMake(s.Chan) == mk {
					out = append(out, s)
				}
			}
		}
	}
	return out
}

// Outermost returns the top-level function enclosing fn.
func Outermost(fn *ssa.Function) *ssa.Function {
	for fn.Parent() != nil {
		fn = fn.Parent()
	}
	return fn
}

// WithHelpers: fn, its closures, and the private helpers it is factored into — unexported named
// functions / methods of the same package called (or started with `go`) from inside, to depth 3.
func WithHelpers(fn *ssa.Function) []*ssa.Function {
	seen := map[*ssa.Function]bool{}
	var out []*ssa.Function
	var add func(f *ssa.Function, depth int)
	add = func(f *ssa.Function, depth int) {
		for _, g := range WithClosures(f) {
			if seen[g] {
				continue
			}
			seen[g] = true
			out = append(out, g)
			if depth >= 3 {
				continue
			}
			for _, cs := range Calls(g) {
				cc := cs.Common()
				if cc.IsInvoke() {
					continue
				}
				h, ok := cc.Value.(*ssa.Function)
				if !ok || h.Blocks == nil || h.Parent() != nil || h.Pkg == nil || h.Pkg != fn.Pkg || seen[h] {
					continue
				}
				n := h.Name()
				if n == "" || !(n[0] >= 'a' && n[0] <= 'z') || n == "init" {
					continue
				}
				add(h, depth+1)
			}
		}
	}
	add(fn, 0)
	return out
}
