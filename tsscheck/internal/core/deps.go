package core

import (
	"go/token"
	"go/types"
	"strconv"

	"golang.org/x/tools/go/ssa"
)

// HashFuncs are the library's multi-input hash functions.
var HashFuncs = []string{
	"~/common.SHA512_256", "~/common.SHA512_256i", "~/common.SHA512_256i_TAGGED", "~/common.SHA512_256iOne",
}

// DepWalker computes intra-procedural data dependence of values inside one
// function and its closures: which receiver fields ("Z"), which parameters
// ("param:3") and whether a library hash result ("challenge") a value is
// computed from. It follows operands, phis, local arrays/slices (every value
// stored into a local allocation), closure bindings and closure call-site
// arguments. It is a may-depend over-approximation.
type DepWalker struct {
	Root       *ssa.Function
	StopAtHash bool // do not descend into the inputs of hash calls
	Out        map[string]bool
	Hashes     map[*ssa.Call]bool
	Leaves     map[ssa.Value]bool // non-root leaves reached (calls without bodies, globals …)
	seen       map[ssa.Value]bool
	seenAlloc  map[ssa.Value]bool
	depth      int // interprocedural descent depth
	// FollowFieldStores: a load of a receiver field also depends on what the root function and its
	// closures store into that field or into its elements (round.ok[j] = <-ch; later `range round.ok`)
	FollowFieldStores bool
	fstores           map[string][]ssa.Value
	fdone             map[string]bool
	// NoIndexControl: do not treat the counter of a counted loop as control-dependent on the branches
	// of the loop body
	NoIndexControl bool
	// NoLoopCarriedControl: loop-header phis carry no control dependence on the loop body's branches
	NoLoopCarriedControl bool
	loopIdx              map[ssa.Value]bool
	loopFns        map[*ssa.Function]bool
	// private helpers of the root's package are walked as part of the root (like closures): their
	// parameters denote the arguments of the calls through which the walk entered them
	bound    map[*ssa.Parameter][]ssa.Value
	inlining map[*ssa.Function]bool
}

func (w *DepWalker) isLoopIndex(ph *ssa.Phi) bool {
	fn := ph.Parent()
	if w.loopFns == nil {
		w.loopFns = map[*ssa.Function]bool{}
		w.loopIdx = map[ssa.Value]bool{}
	}
	if !w.loopFns[fn] {
		w.loopFns[fn] = true
		for _, l := range Loops(fn) {
			w.loopIdx[l.Idx] = true
			// the counter phi itself (the body may use idx+… forms)
			if p, ok := Strip(l.Idx).(*ssa.Phi); ok {
				w.loopIdx[p] = true
			}
			if bo, ok := Strip(l.Idx).(*ssa.BinOp); ok {
				if p, isP := Strip(bo.X).(*ssa.Phi); isP {
					w.loopIdx[p] = true
				}
			}
		}
	}
	return w.loopIdx[ph]
}

func (w *DepWalker) fieldStores(name string) {
	if w.fdone == nil {
		w.fdone = map[string]bool{}
		w.fstores = map[string][]ssa.Value{}
		for _, g := range WithClosures(w.Root) {
			for _, b := range g.Blocks {
				for _, in := range b.Instrs {
					st, ok := in.(*ssa.Store)
					if !ok {
						continue
					}
					if fr := AsFieldAddr(st.Addr); fr != nil {
						w.fstores[fr.Name] = append(w.fstores[fr.Name], st.Val)
					}
					if ia, ok := st.Addr.(*ssa.IndexAddr); ok {
						if fr := AsFieldLoad(ia.X); fr != nil {
							w.fstores[fr.Name] = append(w.fstores[fr.Name], st.Val)
						} else if fr := AsFieldAddr(ia.X); fr != nil {
							w.fstores[fr.Name] = append(w.fstores[fr.Name], st.Val)
						}
					}
				}
			}
		}
	}
	if w.fdone[name] {
		return
	}
	w.fdone[name] = true
	for _, v := range w.fstores[name] {
		w.Walk(v)
	}
}

func NewDepWalker(root *ssa.Function, stopAtHash bool) *DepWalker {
	return &DepWalker{Root: root, StopAtHash: stopAtHash, Out: map[string]bool{}, Hashes: map[*ssa.Call]bool{},
		Leaves: map[ssa.Value]bool{}, seen: map[ssa.Value]bool{}, seenAlloc: map[ssa.Value]bool{}}
}

// DepsOf is a convenience wrapper.
func DepsOf(root *ssa.Function, stopAtHash bool, vs ...ssa.Value) map[string]bool {
	w := NewDepWalker(root, stopAtHash)
	for _, v := range vs {
		w.Walk(v)
	}
	return w.Out
}

func inModule(g *ssa.Function) bool {
	return g.Pkg != nil && g.Pkg.Pkg != nil && len(g.Pkg.Pkg.Path()) >= len(ModPath) && g.Pkg.Pkg.Path()[:len(ModPath)] == ModPath
}

// Translate maps a dependence set expressed in the frame of call's callee
// (param:i, receiver field names, challenge) into the walker's frame.
func (w *DepWalker) Translate(sub map[string]bool, call ssa.CallInstruction) {
	args := call.Common().Args
	callee := Callee(call)
	for k := range sub {
		switch {
		case k == "challenge":
			w.Out["challenge"] = true
		case len(k) > 6 && k[:6] == "param:":
			i, _ := strconv.Atoi(k[6:])
			if i < len(args) {
				w.Walk(args[i])
			}
		default:
			// a field of the callee's receiver (its argument 0)
			if callee != nil && callee.Signature.Recv() != nil && len(args) > 0 {
				a0 := Strip(args[0])
				if len(w.Root.Params) > 0 && w.Root.Signature.Recv() != nil && w.sameAsRecv(a0) {
					w.Out[k] = true
				} else {
					w.Walk(a0)
				}
			}
		}
	}
}

// sameAsRecv: v is the root's receiver, possibly through embedded pointer fields or closure capture.
func (w *DepWalker) sameAsRecv(v ssa.Value) bool { return w.sameAsRecvD(v, 0) }

func (w *DepWalker) sameAsRecvD(v ssa.Value, d int) bool {
	if d > 3 || len(w.Root.Params) == 0 {
		return false
	}
	recv := ssa.Value(w.Root.Params[0])
	for i := 0; i < 20; i++ {
		v = Strip(v)
		if v == recv {
			return true
		}
		if fv, ok := v.(*ssa.FreeVar); ok {
			if b := FreeVarBinding(fv); b != nil {
				v = b
				continue
			}
			return false
		}
		// the receiver (or a parameter) of a private helper: what its call sites pass, when they agree
		if p, ok := v.(*ssa.Parameter); ok && p.Parent() != w.Root && p.Parent().Parent() == nil {
			h := p.Parent()
			idx := -1
			for k, q := range h.Params {
				if q == p {
					idx = k
				}
			}
			sites := helperCallSites(h)
			if idx < 0 || len(sites) == 0 {
				return false
			}
			all := true
			for _, cs := range sites {
				if idx >= len(cs.Common().Args) || cs.Parent() == h || !w.sameAsRecvD(cs.Common().Args[idx], d+1) {
					all = false
				}
			}
			return all
		}
		if fr := AsFieldLoad(v); fr != nil && isEmbedded(fr) {
			v = fr.Base
			continue
		}
		if fa := AsFieldAddr(v); fa != nil && isEmbedded(fa) {
			v = fa.Base
			continue
		}
		return false
	}
	return false
}

// HashInputs computes, in fn's own frame, what flows into the arguments of
// library hash calls executed by fn, its closures and (to depth 3) the module
// functions it calls.
func HashInputs(fn *ssa.Function, depth int) map[string]bool {
	return HashInputWalker(fn, depth).Out
}

// HashInputWalker is HashInputs returning the walker, so that callers can ask
// which local values were reached (Seen).
func HashInputWalker(fn *ssa.Function, depth int) *DepWalker {
	w := NewDepWalker(fn, false)
	for _, g := range WithClosures(fn) {
		for _, cs := range Calls(g) {
			if CallIs(cs, HashFuncs...) {
				for _, a := range cs.Common().Args {
					w.Walk(a)
				}
				continue
			}
			if depth > 0 {
				if callee := Callee(cs); callee != nil && callee.Blocks != nil && callee.Parent() == nil && inModule(callee) && !pureCall(FullName(callee)) {
					sub := HashInputs(callee, depth-1)
					delete(sub, "challenge")
					if len(sub) > 0 {
						w.Translate(sub, cs)
					}
				}
			}
		}
	}
	delete(w.Out, "challenge")
	return w
}

// SeenSet exposes the set of values reached.
func (w *DepWalker) SeenSet() map[ssa.Value]bool { return w.seen }

// Seen reports whether the walk reached value v.
func (w *DepWalker) Seen(v ssa.Value) bool { return w.seen[v] }

func (w *DepWalker) paramIndex(p *ssa.Parameter) int {
	for i, q := range w.Root.Params {
		if q == p {
			return i
		}
	}
	return -1
}

func (w *DepWalker) Walk(v ssa.Value) {
	if v == nil || w.seen[v] {
		return
	}
	w.seen[v] = true
	if s := Strip(v); s != v {
		w.Walk(s)
		return
	}
	// a *big.Int is a mutable object: it depends on the arguments of every
	// in-place setter applied to the same object (flow-insensitive)
	if isBigPtr(v.Type()) {
		root := BigRoot(v)
		for _, m := range BigMuts(root) {
			for _, a := range m.Call.Args[1:] {
				w.Walk(a)
			}
		}
		if root != v {
			w.Walk(root)
		}
	}
	switch x := v.(type) {
	case *ssa.Parameter:
		if i := w.paramIndex(x); i >= 0 {
			w.Out["param:"+strconv.Itoa(i)] = true
			return
		}
		if as, ok := w.bound[x]; ok {
			for _, a := range as {
				w.Walk(a)
			}
			return
		}
		w.bindClosureParam(x)
	case *ssa.FreeVar:
		if b := FreeVarBinding(x); b != nil {
			w.Walk(b)
		}
	case *ssa.Const, *ssa.Builtin, *ssa.Function:
	case *ssa.Global:
		w.Leaves[x] = true
	case *ssa.Alloc:
		w.storesInto(x)
	case *ssa.MakeSlice:
		w.Walk(x.Len)
		for _, al := range SliceAliases(x) {
			w.storesInto(al)
		}
	case *ssa.MakeMap:
		w.storesInto(x)
	case *ssa.UnOp:
		if x.Op == token.MUL {
			w.walkLoad(x.X)
			return
		}
		if x.Op == token.ARROW {
			w.recvFrom(x.X)
			return
		}
		w.Walk(x.X)
	case *ssa.Select:
		for _, st := range x.States {
			if st.Dir == types.RecvOnly {
				w.recvFrom(st.Chan)
			}
		}
	case *ssa.Field:
		if fr := AsFieldLoad(x); fr != nil && w.recvField(fr) {
			return
		}
		w.Walk(x.X)
	case *ssa.FieldAddr:
		// address of a receiver field (arrays sliced in place: p.Alpha[:])
		if fr := AsFieldAddr(x); fr != nil && w.recvField(fr) {
			return
		}
		w.Walk(x.X)
	case *ssa.Call:
		if CallIs(x, HashFuncs...) {
			w.Out["challenge"] = true
			w.Hashes[x] = true
			if w.StopAtHash {
				return
			}
			// a hash depends on all of its inputs (its body feeds them to a hash.Hash by side effect)
			for _, a := range x.Call.Args {
				w.Walk(a)
			}
			return
		}
		// a private helper of the root's package (a piece of the root factored out): walked in place
		if g := Callee(x); PrivateHelper(g) && !x.Call.IsInvoke() && g.Pkg == outermostFn(w.Root).Pkg && g != outermostFn(w.Root) && !pureCall(FullName(g)) && len(w.inlining) < 3 && !w.inlining[g] {
			if w.bound == nil {
				w.bound = map[*ssa.Parameter][]ssa.Value{}
				w.inlining = map[*ssa.Function]bool{}
			}
			for i, p := range g.Params {
				if i < len(x.Call.Args) {
					dup := false
					for _, a := range w.bound[p] {
						if a == x.Call.Args[i] {
							dup = true
						}
					}
					if !dup {
						w.bound[p] = append(w.bound[p], x.Call.Args[i])
						// a later call with other arguments: what was reached through the parameter before must
						// also see the new argument
						if w.seen[p] {
							w.Walk(x.Call.Args[i])
						}
					}
				}
			}
			w.inlining[g] = true
			for _, ret := range Returns(g) {
				for _, r := range ret.Results {
					w.Walk(r)
				}
			}
			delete(w.inlining, g)
			return
		}
		// module callee with a body: depend only on what its results depend on
		if g := Callee(x); g != nil && g.Blocks != nil && g.Parent() == nil && w.depth < 3 && inModule(g) && !pureCall(FullName(g)) {
			sub := &DepWalker{Root: g, StopAtHash: w.StopAtHash, Out: map[string]bool{}, Hashes: map[*ssa.Call]bool{},
				Leaves: map[ssa.Value]bool{}, seen: map[ssa.Value]bool{}, seenAlloc: map[ssa.Value]bool{}, depth: w.depth + 1}
			for _, ret := range Returns(g) {
				for _, r := range ret.Results {
					sub.Walk(r)
				}
			}
			w.Translate(sub.Out, x)
			for h := range sub.Hashes {
				w.Hashes[h] = true
			}
			return
		}
		if x.Call.IsInvoke() {
			w.Walk(x.Call.Value)
		} else if _, isFn := x.Call.Value.(*ssa.Function); !isFn {
			if _, isB := x.Call.Value.(*ssa.Builtin); !isB {
				w.Walk(x.Call.Value)
			}
		}
		for _, a := range x.Call.Args {
			w.Walk(a)
		}
	case *ssa.Phi:
		for _, e := range x.Edges {
			w.Walk(e)
		}
		if w.NoIndexControl && w.isLoopIndex(x) {
			return // a loop counter takes every value of its range whatever the body's branches do
		}
		if w.NoLoopCarriedControl {
			// a phi at a loop header merges the value from before the loop with the one carried round:
			// which of the two arrives is decided by the iteration count, not by the body's branches
			hb := x.Block()
			for _, p := range hb.Preds {
				if hb.Dominates(p) {
					return
				}
			}
		}
		// control dependence: the branch conditions that select the incoming edge
		b := x.Block()
		if d := b.Idom(); d != nil {
			for _, y := range b.Parent().Blocks {
				if y != b && d.Dominates(y) && Reaches(y, b) && len(y.Instrs) > 0 {
					if iff, ok := y.Instrs[len(y.Instrs)-1].(*ssa.If); ok {
						w.Walk(iff.Cond)
					}
				}
			}
		}
	case *ssa.MakeClosure:
		for _, b := range x.Bindings {
			w.Walk(b)
		}
	default:
		if in, ok := v.(ssa.Instruction); ok {
			for _, op := range in.Operands(nil) {
				if *op != nil {
					w.Walk(*op)
				}
			}
		}
	}
}

// recvFrom: a value received from a channel depends on everything sent on it.
func (w *DepWalker) recvFrom(ch ssa.Value) {
	mk := ChanMake(ch)
	if mk == nil {
		w.Walk(ch)
		return
	}
	for _, s := range SendsOn(Outermost(mk.Parent()), mk) {
		w.Walk(s.X)
	}
}

// walkLoad handles `*addr`.
func (w *DepWalker) walkLoad(addr ssa.Value) {
	switch a := addr.(type) {
	case *ssa.FieldAddr:
		if fr := AsFieldAddr(a); fr != nil && w.recvField(fr) {
			return
		}
		w.walkAddrBase(a.X)
	case *ssa.IndexAddr:
		w.Walk(a.Index)
		w.walkAddrBase(a.X)
	case *ssa.Global:
		w.Leaves[a] = true
	default:
		w.walkAddrBase(addr)
	}
}

func (w *DepWalker) walkAddrBase(b ssa.Value) {
	switch x := b.(type) {
	case *ssa.Alloc:
		w.storesInto(x)
	case *ssa.FreeVar:
		if a := FreeVarBinding(x); a != nil {
			w.walkAddrBase(a)
		}
	case *ssa.IndexAddr:
		w.Walk(x.Index)
		w.walkAddrBase(x.X)
	case *ssa.FieldAddr:
		if fr := AsFieldAddr(x); fr != nil && w.recvField(fr) {
			return
		}
		w.walkAddrBase(x.X)
	default:
		w.Walk(b)
	}
}

// recvField: fr selects a field of the root function's receiver (through
// embedded pointers, also when the receiver is captured by a closure).
func (w *DepWalker) recvField(fr *FieldRef) bool {
	if len(w.Root.Params) == 0 || w.Root.Signature.Recv() == nil {
		return false
	}
	recv := ssa.Value(w.Root.Params[0])
	b := fr.Base
	for i := 0; i < 20; i++ {
		b = Strip(b)
		if b == recv {
			w.Out[fr.Name] = true
			if w.FollowFieldStores {
				w.fieldStores(fr.Name)
			}
			return true
		}
		if fv, ok := b.(*ssa.FreeVar); ok {
			if bb := FreeVarBinding(fv); bb != nil {
				b = bb
				continue
			}
			return false
		}
		if p, ok := b.(*ssa.Parameter); ok && p.Parent() != w.Root {
			// the receiver of a private helper method every call site of which passes the root's receiver
			if w.sameAsRecvD(p, 0) {
				b = recv
				continue
			}
			return false
		}
		if u, ok := b.(*ssa.UnOp); ok && u.Op == token.MUL {
			if fa := AsFieldAddr(u.X); fa != nil && isEmbedded(fa) {
				b = fa.Base
				continue
			}
			if fv, ok := u.X.(*ssa.FreeVar); ok {
				if a := allocOf(fv); a != nil {
					if s := singleStore(a); s != nil {
						b = s
						continue
					}
				}
			}
			return false
		}
		if fa, ok := b.(*ssa.FieldAddr); ok {
			if inner := AsFieldAddr(fa); inner != nil && isEmbedded(inner) {
				b = inner.Base
				continue
			}
		}
		return false
	}
	return false
}

func isEmbedded(fr *FieldRef) bool { return fr.Struct.Field(fr.Index).Embedded() }

// storesInto: every value stored through an address derived from alloc a.
func (w *DepWalker) storesInto(a ssa.Value) {
	if w.seenAlloc[a] {
		return
	}
	w.seenAlloc[a] = true
	var visit func(v ssa.Value, d int)
	visit = func(v ssa.Value, d int) {
		if d > 8 {
			return
		}
		refs := v.Referrers()
		if refs == nil {
			return
		}
		for _, in := range *refs {
			switch u := in.(type) {
			case *ssa.Store:
				if u.Addr == v {
					w.Walk(u.Val)
				}
			case *ssa.IndexAddr:
				if u.X == v {
					visit(u, d+1)
				}
			case *ssa.FieldAddr:
				if u.X == v {
					visit(u, d+1)
				}
			case *ssa.Slice:
				if u.X == v {
					visit(u, d+1)
				}
			case *ssa.MakeClosure:
				fn := u.Fn.(*ssa.Function)
				for i, b := range u.Bindings {
					if b == v {
						visit(fn.FreeVars[i], d+1)
					}
				}
			case *ssa.UnOp:
				// loading a slice/map header kept in a local: stores through the loaded header count
				if u.Op == token.MUL && u.X == v {
					switch u.Type().Underlying().(type) {
					case *types.Slice, *types.Map:
						visit(u, d+1)
					}
				}
			case *ssa.Call:
				if b, ok := u.Call.Value.(*ssa.Builtin); ok && b.Name() == "copy" && len(u.Call.Args) == 2 && u.Call.Args[0] == v {
					w.Walk(u.Call.Args[1])
				}
			case *ssa.MapUpdate:
				if u.Map == v {
					w.Walk(u.Key)
					w.Walk(u.Value)
				}
			}
		}
	}
	visit(a, 0)
}

// FreeVarBinding returns the value bound to fv at the (unique) MakeClosure of its function.
func FreeVarBinding(fv *ssa.FreeVar) ssa.Value {
	fn := fv.Parent()
	par := fn.Parent()
	if par == nil {
		return nil
	}
	idx := -1
	for i, f := range fn.FreeVars {
		if f == fv {
			idx = i
		}
	}
	if idx < 0 {
		return nil
	}
	var bound ssa.Value
	for _, b := range par.Blocks {
		for _, in := range b.Instrs {
			if mc, ok := in.(*ssa.MakeClosure); ok && mc.Fn == fn {
				if bound != nil && bound != mc.Bindings[idx] {
					return nil
				}
				bound = mc.Bindings[idx]
			}
		}
	}
	return bound
}

// ClosureCallSites returns the call/go/defer instructions in the parent that
// invoke closure fn (directly on the MakeClosure value).
func ClosureCallSites(fn *ssa.Function) []ssa.CallInstruction {
	par := fn.Parent()
	if par == nil {
		return helperCallSites(fn)
	}
	var out []ssa.CallInstruction
	for _, pf := range WithClosures(par) {
		for _, c := range Calls(pf) {
			if mc, ok := Strip(c.Common().Value).(*ssa.MakeClosure); ok && mc.Fn == fn {
				out = append(out, c)
			}
		}
	}
	return out
}

func (w *DepWalker) bindClosureParam(p *ssa.Parameter) {
	fn := p.Parent()
	idx := -1
	for i, q := range fn.Params {
		if q == p {
			idx = i
		}
	}
	if idx < 0 {
		return
	}
	for _, cs := range ClosureCallSites(fn) {
		args := cs.Common().Args
		if idx < len(args) {
			w.Walk(args[idx])
		}
	}
}

// CurrentProg is the program being analysed (set by Load); lets value-level helpers enumerate a package.
var CurrentProg *Prog

var helperSiteCache = map[*ssa.Function][]ssa.CallInstruction{}

// helperCallSites: for an unexported named function or method (a private helper: a goroutine body or
// a piece of a round factored out into its own function), the static call / go / defer sites in its
// own package. Its parameters are bound there exactly as a closure's are at its call sites. Exported
// functions and interface-reachable methods have callers the module does not contain: no binding.
func helperCallSites(fn *ssa.Function) []ssa.CallInstruction {
	if out, ok := helperSiteCache[fn]; ok {
		return out
	}
	helperSiteCache[fn] = nil
	if CurrentProg == nil || fn.Pkg == nil || fn.Pkg.Pkg == nil || fn.Synthetic != "" {
		return nil
	}
	n := fn.Name()
	if n == "" || n == "init" || !(n[0] >= 'a' && n[0] <= 'z') {
		return nil
	}
	var out []ssa.CallInstruction
	for _, f := range CurrentProg.ModuleFuncs(false) {
		if f.Pkg == nil || f.Pkg != fn.Pkg {
			continue
		}
		for _, c := range Calls(f) {
			if cc := c.Common(); !cc.IsInvoke() {
				if g, ok := cc.Value.(*ssa.Function); ok && g == fn {
					out = append(out, c)
				}
			}
		}
	}
	helperSiteCache[fn] = out
	return out
}

func outermostFn(f *ssa.Function) *ssa.Function {
	for f.Parent() != nil {
		f = f.Parent()
	}
	return f
}
