package core

import (
	"fmt"
	"go/token"
	"go/types"
	"sort"
	"strings"

	"golang.org/x/tools/go/ssa"
)

// Origin classes of a *big.Int pointer (who owns the object it points to).
type Origin struct {
	Kind  string // "fresh" | "param" | "field" | "global" | "elem" | "unknown"
	Param int
	Field string // "pkg.Type.field" for Kind=field
	Note  string
}

func (o Origin) String() string {
	switch o.Kind {
	case "param":
		return fmt.Sprintf("param#%d", o.Param)
	case "field":
		return "field " + o.Field
	case "global":
		return "global " + o.Field
	case "elem":
		return "element of " + o.Field
	}
	if o.Note != "" {
		return o.Kind + "(" + o.Note + ")"
	}
	return o.Kind
}

// Effects holds whole-module alias/mutation summaries for *big.Int values.
type Effects struct {
	p *Prog
	// RetAlias[f]: parameter indices that f may return as (one of) its *big.Int results
	RetAlias map[*ssa.Function]map[int]bool
	// Mutates[f]: parameter indices whose pointee *big.Int f may overwrite in place (transitively)
	Mutates map[*ssa.Function]map[int]bool
}

// NewEffects computes the summaries to a fixpoint over the module's functions.
func NewEffects(p *Prog) *Effects {
	e := &Effects{p: p, RetAlias: map[*ssa.Function]map[int]bool{}, Mutates: map[*ssa.Function]map[int]bool{}}
	fns := p.ModuleFuncs(false)
	for changed, iter := true, 0; changed && iter < 10; iter++ {
		changed = false
		for _, f := range fns {
			if f.Parent() != nil {
				continue
			}
			ra := map[int]bool{}
			for _, ret := range Returns(f) {
				for _, r := range ret.Results {
					if !isBigPtr(r.Type()) {
						continue
					}
					for _, o := range e.Origins(r) {
						if o.Kind == "param" {
							ra[o.Param] = true
						}
					}
				}
			}
			mu := map[int]bool{}
			for _, g := range WithClosures(f) {
				for _, cs := range Calls(g) {
					for _, tgt := range e.mutatedArgs(cs) {
						for _, o := range e.Origins(tgt) {
							if o.Kind == "param" {
								mu[o.Param] = true
							}
						}
					}
				}
			}
			if !sameSet(ra, e.RetAlias[f]) || !sameSet(mu, e.Mutates[f]) {
				e.RetAlias[f], e.Mutates[f] = ra, mu
				changed = true
			}
		}
	}
	return e
}

func sameSet(a, b map[int]bool) bool {
	if len(a) != len(b) {
		return false
	}
	for k := range a {
		if !b[k] {
			return false
		}
	}
	return true
}

// mutatedArgs: the *big.Int argument values whose pointee the call overwrites.
func (e *Effects) mutatedArgs(cs ssa.CallInstruction) []ssa.Value {
	if BigSetter(cs) {
		return []ssa.Value{cs.Common().Args[0]}
	}
	// (*big.Int).GCD also overwrites x and y when non-nil; DivMod/QuoRem overwrite m/r
	n := CalleeName(cs)
	switch n {
	case big_ + "GCD":
		return cs.Common().Args[0:3]
	case big_ + "DivMod", big_ + "QuoRem":
		a := cs.Common().Args
		return []ssa.Value{a[0], a[3]}
	case big_ + "SetString", big_ + "GobDecode", big_ + "UnmarshalJSON", big_ + "UnmarshalText", big_ + "Scan":
		return cs.Common().Args[0:1]
	}
	if g := Callee(cs); g != nil && e.Mutates[g] != nil {
		var out []ssa.Value
		args := cs.Common().Args
		for i := range e.Mutates[g] {
			if i < len(args) {
				out = append(out, args[i])
			}
		}
		return out
	}
	return nil
}

// Origins computes the possible owners of the object a *big.Int value points to.
func (e *Effects) Origins(v ssa.Value) []Origin {
	seen := map[ssa.Value]bool{}
	var out []Origin
	add := func(o Origin) {
		for _, x := range out {
			if x == o {
				return
			}
		}
		out = append(out, o)
	}
	var walk func(v ssa.Value, d int)
	walk = func(v ssa.Value, d int) {
		if v == nil || seen[v] || d > 30 {
			return
		}
		seen[v] = true
		v = Strip(v)
		if seen[v] && d > 0 {
			// fallthrough allowed once for the stripped value
		}
		seen[v] = true
		switch x := v.(type) {
		case *ssa.Const:
			return // nil
		case *ssa.Alloc:
			add(Origin{Kind: "fresh"})
		case *ssa.Parameter:
			fn := x.Parent()
			if fn.Parent() != nil {
				// closure parameter: bind at call sites
				idx := -1
				for i, q := range fn.Params {
					if q == x {
						idx = i
					}
				}
				bound := false
				for _, cs := range ClosureCallSites(fn) {
					if a := cs.Common().Args; idx < len(a) {
						walk(a[idx], d+1)
						bound = true
					}
				}
				if !bound {
					add(Origin{Kind: "unknown", Note: "closure parameter"})
				}
				return
			}
			for i, q := range fn.Params {
				if q == x {
					add(Origin{Kind: "param", Param: i})
				}
			}
		case *ssa.FreeVar:
			if b := FreeVarBinding(x); b != nil {
				walk(b, d+1)
			} else {
				add(Origin{Kind: "unknown", Note: "free variable"})
			}
		case *ssa.Phi:
			for _, ed := range x.Edges {
				walk(ed, d+1)
			}
		case *ssa.Extract:
			if c, ok := x.Tuple.(*ssa.Call); ok {
				e.callOrigins(c, x.Index, walk, add, d)
			} else {
				add(Origin{Kind: "unknown", Note: "extract"})
			}
		case *ssa.Call:
			e.callOrigins(x, 0, walk, add, d)
		case *ssa.UnOp:
			if x.Op != token.MUL {
				add(Origin{Kind: "unknown"})
				return
			}
			switch a := x.X.(type) {
			case *ssa.Global:
				add(Origin{Kind: "global", Field: a.String()})
			case *ssa.FieldAddr:
				fr := AsFieldAddr(a)
				add(Origin{Kind: "field", Field: typeShort(fr.Owner) + "." + fr.Name})
			case *ssa.IndexAddr:
				// element of a slice/array: owner is the container
				add(Origin{Kind: "elem", Field: containerName(a.X)})
			case *ssa.Alloc:
				// multi-store local: union of stored values
				if refs := a.Referrers(); refs != nil {
					for _, in := range *refs {
						if st, ok := in.(*ssa.Store); ok && st.Addr == a {
							walk(st.Val, d+1)
						}
					}
				}
			case *ssa.FreeVar:
				if b := FreeVarBinding(a); b != nil {
					if al, ok := b.(*ssa.Alloc); ok {
						visitAllocUses(al, func(in ssa.Instruction, self ssa.Value) {
							if st, ok := in.(*ssa.Store); ok && st.Addr == self {
								walk(st.Val, d+1)
							}
						})
						return
					}
				}
				add(Origin{Kind: "unknown", Note: "captured variable"})
			default:
				add(Origin{Kind: "unknown", Note: "load"})
			}
		case *ssa.Field:
			fr := AsFieldLoad(x)
			add(Origin{Kind: "field", Field: typeShort(fr.Owner) + "." + fr.Name})
		case *ssa.Index:
			add(Origin{Kind: "elem", Field: containerName(x.X)})
		case *ssa.Lookup:
			add(Origin{Kind: "elem", Field: containerName(x.X)})
		default:
			add(Origin{Kind: "unknown", Note: fmt.Sprintf("%T", v)})
		}
	}
	walk(v, 0)
	sort.Slice(out, func(i, j int) bool { return out[i].String() < out[j].String() })
	return out
}

func containerName(v ssa.Value) string {
	v = Strip(v)
	if fr := AsFieldLoad(v); fr != nil {
		return typeShort(fr.Owner) + "." + fr.Name
	}
	if fa := AsFieldAddr(v); fa != nil {
		return typeShort(fa.Owner) + "." + fa.Name
	}
	if p, ok := v.(*ssa.Parameter); ok {
		return "param " + p.Name()
	}
	if _, ok := v.(*ssa.MakeSlice); ok {
		return "local slice"
	}
	if _, ok := v.(*ssa.Alloc); ok {
		return "local array"
	}
	if g := GlobalOf(v); g != nil {
		return "global " + g.Name()
	}
	if c, ok := v.(*ssa.Call); ok {
		return "result of " + CalleeShort(c)
	}
	return "container"
}

func (e *Effects) callOrigins(c *ssa.Call, ri int, walk func(ssa.Value, int), add func(Origin), d int) {
	name := CalleeName(c)
	if BigSetter(c) {
		// returns its receiver
		walk(c.Call.Args[0], d+1)
		return
	}
	switch name {
	case "math/big.NewInt", "crypto/rand.Int", "crypto/rand.Prime":
		add(Origin{Kind: "fresh"})
		return
	}
	if strings.HasPrefix(name, modI) {
		add(Origin{Kind: "fresh"}) // modInt arithmetic allocates its result (checked by the summary of those methods themselves)
		return
	}
	g := Callee(c)
	if g != nil && g.Blocks != nil && inModule(g) {
		ra := e.RetAlias[g]
		args := c.Call.Args
		any := false
		for i := range ra {
			if i < len(args) {
				walk(args[i], d+1)
				any = true
			}
		}
		// non-parameter origins of the callee's results (fields, globals) propagate as such
		for _, ret := range Returns(g) {
			if ri < len(ret.Results) && isBigPtr(ret.Results[ri].Type()) {
				for _, o := range e.originsNoParam(ret.Results[ri]) {
					add(o)
					any = true
				}
			}
		}
		if !any {
			add(Origin{Kind: "fresh"})
		}
		return
	}
	if c.Call.IsInvoke() {
		add(Origin{Kind: "unknown", Note: "interface call " + name})
		return
	}
	// external function returning *big.Int: the stdlib ones used here return fresh values
	add(Origin{Kind: "fresh", Note: name})
}

var originMemo = map[ssa.Value][]Origin{}

func (e *Effects) originsNoParam(v ssa.Value) []Origin {
	if o, ok := originMemo[v]; ok {
		return o
	}
	originMemo[v] = nil
	var out []Origin
	for _, o := range e.Origins(v) {
		if o.Kind != "param" && o.Kind != "fresh" {
			out = append(out, o)
		}
	}
	originMemo[v] = out
	return out
}

// Mutation is one in-place overwrite of a *big.Int whose object is not freshly allocated.
type Mutation struct {
	Call    ssa.CallInstruction
	Target  ssa.Value
	Origins []Origin
}

// NonFreshMutations lists, for the functions of the given packages (module-relative
// paths), every call that overwrites a *big.Int whose object may be owned by a
// parameter, a struct field, a container element or a global.
func (e *Effects) NonFreshMutations(rels ...string) []Mutation {
	var out []Mutation
	for _, rel := range rels {
		for _, f := range e.p.FuncsOfPkg(rel) {
			for _, cs := range Calls(f) {
				for _, tgt := range e.mutatedArgs(cs) {
					if IsNilConst(Strip(tgt)) {
						continue
					}
					var bad []Origin
					for _, o := range e.Origins(tgt) {
						if o.Kind != "fresh" {
							bad = append(bad, o)
						}
					}
					if len(bad) > 0 {
						out = append(out, Mutation{Call: cs, Target: tgt, Origins: bad})
					}
				}
			}
		}
	}
	return out
}

// TypeShortOf renders a (pointer to a) named type as "pkg/rel.Type".
func TypeShortOf(t interface{ String() string }) string {
	if tt, ok := t.(interface{ Underlying() types.Type }); ok {
		return typeShort(tt.(types.Type))
	}
	return t.String()
}
