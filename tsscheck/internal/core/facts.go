package core

import (
	"fmt"
	"go/token"
	"go/types"

	"golang.org/x/tools/go/ssa"
)

// Ord is a set of orderings of X relative to Y: bit0 = X<Y, bit1 = X==Y, bit2 = X>Y.
type Ord uint8

const (
	LT  Ord = 1
	EQ  Ord = 2
	GT  Ord = 4
	Any Ord = 7
)

func (o Ord) String() string {
	s := "{"
	if o&LT != 0 {
		s += "<"
	}
	if o&EQ != 0 {
		s += "="
	}
	if o&GT != 0 {
		s += ">"
	}
	return s + "}"
}

// Flip: orderings of Y relative to X.
func (o Ord) Flip() Ord {
	var r Ord
	if o&LT != 0 {
		r |= GT
	}
	if o&EQ != 0 {
		r |= EQ
	}
	if o&GT != 0 {
		r |= LT
	}
	return r
}

type FactKind int

const (
	FCmp  FactKind = iota // big.Int X.Cmp(Y) ∈ Ord
	FSign                 // big.Int X.Sign() ∈ Ord (relative to 0)
	FInt                  // machine integers: X rel Y ∈ Ord (Y may be const)
	FNil                  // X is nil (Bool=true) / non-nil (Bool=false)
	FCall                 // call X returned Bool
	FBool                 // boolean value X is Bool
)

// Fact is an atomic fact known to hold on a CFG edge.
type Fact struct {
	Kind FactKind
	X, Y ssa.Value
	Ord  Ord
	Bool bool
	If   *ssa.If         // the branch that established it
	At   ssa.Instruction // the instruction that reads X and Y (Cmp/Sign call), for big.Int object state
}

func (f Fact) String() string {
	switch f.Kind {
	case FCmp:
		return fmt.Sprintf("Cmp(%s,%s)∈%s", VKey(f.X), VKey(f.Y), f.Ord)
	case FSign:
		return fmt.Sprintf("Sign(%s)∈%s", VKey(f.X), f.Ord)
	case FInt:
		return fmt.Sprintf("int(%s,%s)∈%s", VKey(f.X), VKey(f.Y), f.Ord)
	case FNil:
		return fmt.Sprintf("nil(%s)=%v", VKey(f.X), f.Bool)
	case FCall:
		return fmt.Sprintf("call(%s)=%v", CalleeName(f.X.(*ssa.Call)), f.Bool)
	default:
		return fmt.Sprintf("bool(%s)=%v", VKey(f.X), f.Bool)
	}
}

func ordOfOp(op token.Token) (Ord, bool) {
	switch op {
	case token.LSS:
		return LT, true
	case token.LEQ:
		return LT | EQ, true
	case token.GTR:
		return GT, true
	case token.GEQ:
		return GT | EQ, true
	case token.EQL:
		return EQ, true
	case token.NEQ:
		return LT | GT, true
	}
	return 0, false
}

// ordVsConst: orderings o of a {-1,0,1}-valued result r such that "r op k" holds.
func ordVsConst(op token.Token, k int64) (Ord, bool) {
	var res Ord
	for _, c := range []struct {
		v int64
		o Ord
	}{{-1, LT}, {0, EQ}, {1, GT}} {
		var holds bool
		switch op {
		case token.LSS:
			holds = c.v < k
		case token.LEQ:
			holds = c.v <= k
		case token.GTR:
			holds = c.v > k
		case token.GEQ:
			holds = c.v >= k
		case token.EQL:
			holds = c.v == k
		case token.NEQ:
			holds = c.v != k
		default:
			return 0, false
		}
		if holds {
			res |= c.o
		}
	}
	return res, true
}

func flipOp(op token.Token) token.Token {
	switch op {
	case token.LSS:
		return token.GTR
	case token.LEQ:
		return token.GEQ
	case token.GTR:
		return token.LSS
	case token.GEQ:
		return token.LEQ
	}
	return op
}

const (
	bigCmp  = "(*math/big.Int).Cmp"
	bigSign = "(*math/big.Int).Sign"
)

// CondFacts decomposes a boolean SSA value into atomic facts that hold when it
// evaluates to branch. Unknown shapes yield a single FBool fact.
func CondFacts(cond ssa.Value, branch bool, iff *ssa.If) []Fact {
	cond = Strip(cond)
	switch x := cond.(type) {
	case *ssa.UnOp:
		if x.Op == token.NOT {
			return CondFacts(x.X, !branch, iff)
		}
	case *ssa.BinOp:
		op := x.Op
		if _, ok := ordOfOp(op); !ok {
			break
		}
		l, r := Strip(x.X), Strip(x.Y)
		// nil comparisons
		if op == token.EQL || op == token.NEQ {
			if IsNilConst(r) || IsNilConst(l) {
				v := l
				if IsNilConst(l) {
					v = r
				}
				isNil := (op == token.EQL) == branch
				return []Fact{{Kind: FNil, X: v, Bool: isNil, If: iff}}
			}
			// boolean == / != constant
			if b, ok := ConstBool(r); ok {
				return CondFacts(l, (b == (op == token.EQL)) == branch, iff)
			}
			if b, ok := ConstBool(l); ok {
				return CondFacts(r, (b == (op == token.EQL)) == branch, iff)
			}
		}
		// Cmp / Sign vs constant
		if k, ok := ConstInt(l); ok {
			l, r = r, l
			op = flipOp(op)
			_ = k
		}
		if k, ok := ConstInt(r); ok {
			if c, ok := IsCallTo(l, bigCmp); ok {
				o, _ := ordVsConst(op, k)
				if !branch {
					o = Any &^ o
				}
				return []Fact{{Kind: FCmp, X: c.Call.Args[0], Y: c.Call.Args[1], Ord: o, If: iff, At: c}}
			}
			if c, ok := IsCallTo(l, bigSign); ok {
				o, _ := ordVsConst(op, k)
				if !branch {
					o = Any &^ o
				}
				return []Fact{{Kind: FSign, X: c.Call.Args[0], Ord: o, If: iff, At: c}}
			}
		}
		if isIntegral(l.Type()) && isIntegral(r.Type()) {
			o, _ := ordOfOp(op)
			if !branch {
				o = Any &^ o
			}
			return []Fact{{Kind: FInt, X: l, Y: r, Ord: o, If: iff}}
		}
	case *ssa.Call:
		return []Fact{{Kind: FCall, X: x, Bool: branch, If: iff}}
	case *ssa.Phi:
		// short-circuit value materialised: phi(false, …, b) for &&, phi(true, …, b) for ||
		var nonConst []int
		allConst := !branch // for && (consts false) we learn something when branch is true
		for i, e := range x.Edges {
			if b, ok := ConstBool(e); ok {
				if b != allConst {
					// a constant edge equal to the branch value: cannot conclude anything
					return []Fact{{Kind: FBool, X: cond, Bool: branch, If: iff}}
				}
			} else {
				nonConst = append(nonConst, i)
			}
		}
		if len(nonConst) == 1 {
			i := nonConst[0]
			facts := CondFacts(x.Edges[i], branch, iff)
			// plus what holds at the end of that predecessor
			pred := x.Block().Preds[i]
			facts = append(facts, FactsAtEnd(pred)...)
			return facts
		}
	case *ssa.Const:
		return nil
	}
	return []Fact{{Kind: FBool, X: cond, Bool: branch, If: iff}}
}

func isIntegral(t types.Type) bool {
	b, ok := t.Underlying().(*types.Basic)
	return ok && b.Info()&types.IsInteger != 0
}

// reachableWithoutEdge: can `to` be reached from the function entry when the
// CFG edge from→from.Succs[si] is removed?
func reachableWithoutEdge(fn *ssa.Function, from *ssa.BasicBlock, si int, to *ssa.BasicBlock) bool {
	if len(fn.Blocks) == 0 {
		return false
	}
	seen := make([]bool, len(fn.Blocks))
	stack := []*ssa.BasicBlock{fn.Blocks[0]}
	seen[0] = true
	if fn.Blocks[0] == to {
		return true
	}
	for len(stack) > 0 {
		b := stack[len(stack)-1]
		stack = stack[:len(stack)-1]
		for i, s := range b.Succs {
			if b == from && i == si {
				// the removed edge; but if both successors are the same block the other edge still leads there
				continue
			}
			if !seen[s.Index] {
				if s == to {
					return true
				}
				seen[s.Index] = true
				stack = append(stack, s)
			}
		}
	}
	// recover block of fn (deferred) is not modelled
	return false
}

// EdgeDominates: every path from entry to block `to` traverses the edge
// from→Succs[si].
func EdgeDominates(from *ssa.BasicBlock, si int, to *ssa.BasicBlock) bool {
	fn := from.Parent()
	if !blockReachable(fn, to) {
		return false
	}
	if from.Succs[0] == from.Succs[1] {
		return false
	}
	return !reachableWithoutEdge(fn, from, si, to)
}

func blockReachable(fn *ssa.Function, to *ssa.BasicBlock) bool {
	return to == fn.Blocks[0] || reachableWithoutEdge(fn, nil, -1, to)
}

// FactsAt returns the atomic facts established by every branch edge that all
// paths from the function entry to the *start* of block b must traverse.
func FactsAt(b *ssa.BasicBlock) []Fact {
	var out []Fact
	for d := b.Idom(); d != nil; d = d.Idom() {
		out = append(out, edgeFacts(d, b)...)
	}
	return out
}

// FactsAtEnd: facts holding when control leaves block b (same as at its start;
// the block's own branch is not included).
func FactsAtEnd(b *ssa.BasicBlock) []Fact { return FactsAt(b) }

func edgeFacts(d, target *ssa.BasicBlock) []Fact {
	if len(d.Instrs) == 0 {
		return nil
	}
	iff, ok := d.Instrs[len(d.Instrs)-1].(*ssa.If)
	if !ok {
		return nil
	}
	if EdgeDominates(d, 0, target) {
		return CondFacts(iff.Cond, true, iff)
	}
	if EdgeDominates(d, 1, target) {
		return CondFacts(iff.Cond, false, iff)
	}
	return nil
}

// FactsAtInstr: facts at the block of an instruction.
func FactsAtInstr(in ssa.Instruction) []Fact { return FactsAt(in.Block()) }

// InstrDominates reports whether instruction a is executed before b on every
// path reaching b (same function).
func InstrDominates(a, b ssa.Instruction) bool {
	if a.Parent() != b.Parent() {
		return false
	}
	ba, bb := a.Block(), b.Block()
	if ba == bb {
		for _, in := range ba.Instrs {
			if in == a {
				return true
			}
			if in == b {
				return false
			}
		}
		return false
	}
	return ba.Dominates(bb)
}

// Reaches reports whether block a can reach block b (a != b through ≥1 edge, or a==b trivially true).
func Reaches(a, b *ssa.BasicBlock) bool {
	if a == b {
		return true
	}
	seen := map[*ssa.BasicBlock]bool{a: true}
	st := []*ssa.BasicBlock{a}
	for len(st) > 0 {
		x := st[len(st)-1]
		st = st[:len(st)-1]
		for _, s := range x.Succs {
			if s == b {
				return true
			}
			if !seen[s] {
				seen[s] = true
				st = append(st, s)
			}
		}
	}
	return false
}

// InstrReaches: can control flow from a to b (a before b in same block, or block reachability incl. loops)?
func InstrReaches(a, b ssa.Instruction) bool {
	if a.Parent() != b.Parent() {
		return false
	}
	if a.Block() == b.Block() {
		ia, ib := -1, -1
		for i, in := range a.Block().Instrs {
			if in == a {
				ia = i
			}
			if in == b {
				ib = i
			}
		}
		if ia < ib {
			return true
		}
		// via a cycle
		for _, s := range a.Block().Succs {
			if Reaches(s, a.Block()) {
				return true
			}
		}
		return false
	}
	return Reaches(a.Block(), b.Block())
}

// ---- summaries of boolean helpers ------------------------------------------

// ReturnFacts computes, for a function with a bool result at index ri, the
// facts common to every return site at which the result may be `want`
// (expressed over the callee's own values). Only direct facts; used to look
// through helpers such as IsInInterval / ValidateBasic / NonEmptyMultiBytes.
func ReturnFacts(fn *ssa.Function, ri int, want bool) (common []Fact, ok bool) {
	first := true
	for _, ret := range Returns(fn) {
		if ri >= len(ret.Results) {
			return nil, false
		}
		res := ret.Results[ri]
		var facts []Fact
		if b, isC := ConstBool(Strip(res)); isC {
			if b != want {
				continue
			}
			facts = FactsAt(ret.Block())
		} else {
			facts = append(FactsAt(ret.Block()), CondFacts(res, want, nil)...)
		}
		if first {
			common = facts
			first = false
		} else {
			common = intersectFacts(common, facts)
		}
	}
	if first {
		return nil, false
	}
	return common, true
}

func intersectFacts(a, b []Fact) []Fact {
	var out []Fact
	for _, fa := range a {
		for _, fb := range b {
			if fa.Kind != fb.Kind {
				continue
			}
			if VKey(fa.X) != VKey(fb.X) {
				continue
			}
			if (fa.Y == nil) != (fb.Y == nil) || (fa.Y != nil && VKey(fa.Y) != VKey(fb.Y)) {
				continue
			}
			switch fa.Kind {
			case FCmp, FSign, FInt:
				f := fa
				f.Ord = fa.Ord | fb.Ord
				if f.Ord != Any {
					out = append(out, f)
				}
			default:
				if fa.Bool == fb.Bool {
					out = append(out, fa)
				}
			}
		}
	}
	return out
}
