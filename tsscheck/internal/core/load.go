// Package core holds the shared analyses of tsscheck: loading the type-checked
// program of /repo, building SSA, and the dominance / guard / provenance
// primitives the per-property rules are written in.
package core

import (
	"fmt"
	"go/token"
	"go/types"
	"os"
	"sort"
	"strings"

	"golang.org/x/tools/go/callgraph"
	"golang.org/x/tools/go/callgraph/cha"
	"golang.org/x/tools/go/callgraph/vta"
	"golang.org/x/tools/go/packages"
	"golang.org/x/tools/go/ssa"
	"golang.org/x/tools/go/ssa/ssautil"
)

const ModPath = "github.com/bnb-chain/tss-lib/v2"

// Prog is the analysed program: every non-test package of /repo, type-checked
// and in SSA form.
type Prog struct {
	Dir   string
	Fset  *token.FileSet
	Pkgs  []*packages.Package // module packages only, sorted by path
	All   map[string]*packages.Package
	SSA   *ssa.Program
	SPkg  map[string]*ssa.Package // by import path
	cg    *callgraph.Graph
	chaCG *callgraph.Graph
	funcs map[*ssa.Function]bool
}

// RequiredPkgs must all be present, otherwise the check fails: a static tool
// sees only what was parsed.
var RequiredPkgs = []string{
	"common", "crypto", "crypto/ckd", "crypto/commitments", "crypto/dlnproof",
	"crypto/facproof", "crypto/modproof", "crypto/mta", "crypto/paillier",
	"crypto/schnorr", "crypto/vss", "ecdsa/keygen", "ecdsa/resharing",
	"ecdsa/signing", "eddsa/keygen", "eddsa/resharing", "eddsa/signing", "tss",
}

func Load(dir string, goarch string) (*Prog, error) {
	env := append(os.Environ(), "GOFLAGS=-mod=mod", "GOPROXY=off", "GOSUMDB=off", "GOWORK=off", "GOTOOLCHAIN=local")
	if goarch != "" {
		env = append(env, "GOARCH="+goarch)
	}
	cfg := &packages.Config{
		Mode:  packages.LoadAllSyntax,
		Dir:   dir,
		Env:   env,
		Tests: false,
	}
	pkgs, err := packages.Load(cfg, "./...")
	if err != nil {
		return nil, fmt.Errorf("packages.Load: %w", err)
	}
	if len(pkgs) == 0 {
		return nil, fmt.Errorf("no packages loaded from %s", dir)
	}
	p := &Prog{Dir: dir, All: map[string]*packages.Package{}, SPkg: map[string]*ssa.Package{}}
	var errs []string
	packages.Visit(pkgs, nil, func(pk *packages.Package) {
		p.All[pk.PkgPath] = pk
		if strings.HasPrefix(pk.PkgPath, ModPath) {
			for _, e := range pk.Errors {
				errs = append(errs, e.Error())
			}
		}
	})
	if len(errs) > 0 {
		sort.Strings(errs)
		return nil, fmt.Errorf("type/load errors in module packages: %s", strings.Join(errs, "; "))
	}
	for _, pk := range pkgs {
		if strings.HasPrefix(pk.PkgPath, ModPath) {
			p.Pkgs = append(p.Pkgs, pk)
		}
	}
	sort.Slice(p.Pkgs, func(i, j int) bool { return p.Pkgs[i].PkgPath < p.Pkgs[j].PkgPath })
	p.Fset = pkgs[0].Fset
	for _, r := range RequiredPkgs {
		if _, ok := p.All[ModPath+"/"+r]; !ok {
			return nil, fmt.Errorf("required package %s not loaded", r)
		}
	}
	// forbid constructs the analyses do not model in hand-written code
	for _, pk := range p.Pkgs {
		for imp := range pk.Imports {
			if imp == "unsafe" || imp == "C" {
				if !allGenerated(pk) {
					return nil, fmt.Errorf("package %s imports %s: not modelled", pk.PkgPath, imp)
				}
			}
		}
	}
	prog, spkgs := ssautil.AllPackages(pkgs, ssa.InstantiateGenerics)
	prog.Build()
	p.SSA = prog
	for i, sp := range spkgs {
		if sp != nil {
			p.SPkg[pkgs[i].PkgPath] = sp
		}
	}
	for _, sp := range prog.AllPackages() {
		if sp.Pkg != nil {
			p.SPkg[sp.Pkg.Path()] = sp
		}
	}
	CurrentProg = p
	return p, nil
}

func allGenerated(pk *packages.Package) bool {
	for _, f := range pk.GoFiles {
		if !strings.HasSuffix(f, ".pb.go") {
			return false
		}
	}
	return true
}

// Pkg returns the SSA package with the module-relative path rel ("crypto/mta").
func (p *Prog) Pkg(rel string) *ssa.Package {
	if sp, ok := p.SPkg[ModPath+"/"+rel]; ok {
		return sp
	}
	return p.SPkg[rel]
}

// Func returns a package-level function.
func (p *Prog) Func(rel, name string) *ssa.Function {
	sp := p.Pkg(rel)
	if sp == nil {
		return nil
	}
	return sp.Func(name)
}

// Method returns the method name of named type typ (pointer or value receiver).
func (p *Prog) Method(rel, typ, name string) *ssa.Function {
	sp := p.Pkg(rel)
	if sp == nil {
		return nil
	}
	m := sp.Members[typ]
	t, ok := m.(*ssa.Type)
	if !ok {
		return nil
	}
	T := t.Type()
	var wrapper *ssa.Function
	for _, recv := range []types.Type{T, types.NewPointer(T)} {
		ms := p.SSA.MethodSets.MethodSet(recv)
		for i := 0; i < ms.Len(); i++ {
			sel := ms.At(i)
			if sel.Obj().Name() == name {
				if f := p.SSA.MethodValue(sel); f != nil {
					if f.Synthetic == "" {
						return f
					}
					// promoted method: prefer the declared method it forwards to
					if obj, ok := sel.Obj().(*types.Func); ok {
						if d := p.SSA.FuncValue(obj); d != nil && d.Blocks != nil && wrapper == nil {
							wrapper = d
						}
					}
					if wrapper == nil {
						wrapper = f
					}
				}
			}
		}
	}
	return wrapper
}

// NamedType returns the named type rel.name.
func (p *Prog) NamedType(rel, name string) *types.Named {
	sp := p.Pkg(rel)
	if sp == nil {
		return nil
	}
	if t, ok := sp.Members[name].(*ssa.Type); ok {
		if n, ok := t.Type().(*types.Named); ok {
			return n
		}
	}
	return nil
}

// ModuleFuncs returns every function (including anonymous ones and methods)
// whose source is in the module, excluding generated protobuf code unless
// includeGenerated.
func (p *Prog) ModuleFuncs(includeGenerated bool) []*ssa.Function {
	if p.funcs == nil {
		p.funcs = ssautil.AllFunctions(p.SSA)
	}
	var out []*ssa.Function
	for f := range p.funcs {
		if f.Pkg == nil || f.Pkg.Pkg == nil || !strings.HasPrefix(f.Pkg.Pkg.Path(), ModPath) {
			continue
		}
		if f.Blocks == nil {
			continue
		}
		if f.Synthetic != "" && f.Parent() == nil {
			continue // wrappers, thunks, init
		}
		if !includeGenerated {
			if strings.HasSuffix(p.Fset.Position(f.Pos()).Filename, ".pb.go") {
				continue
			}
		}
		out = append(out, f)
	}
	sort.Slice(out, func(i, j int) bool {
		pi, pj := p.Fset.Position(out[i].Pos()), p.Fset.Position(out[j].Pos())
		if pi.Filename != pj.Filename {
			return pi.Filename < pj.Filename
		}
		if pi.Offset != pj.Offset {
			return pi.Offset < pj.Offset
		}
		return out[i].String() < out[j].String()
	})
	return out
}

// FuncsOfPkg returns the source functions of one module package (incl. closures).
func (p *Prog) FuncsOfPkg(rel string) []*ssa.Function {
	var out []*ssa.Function
	for _, f := range p.ModuleFuncs(false) {
		if f.Pkg.Pkg.Path() == ModPath+"/"+rel {
			out = append(out, f)
		}
	}
	return out
}

// CallGraph returns the VTA call graph (built on demand).
func (p *Prog) CallGraph() *callgraph.Graph {
	if p.cg == nil {
		if p.funcs == nil {
			p.funcs = ssautil.AllFunctions(p.SSA)
		}
		p.cg = vta.CallGraph(p.funcs, p.CHA())
	}
	return p.cg
}

func (p *Prog) CHA() *callgraph.Graph {
	if p.chaCG == nil {
		p.chaCG = cha.CallGraph(p.SSA)
	}
	return p.chaCG
}

// Pos renders a position relative to the repo root.
func (p *Prog) Pos(pos token.Pos) string {
	if !pos.IsValid() {
		return "-"
	}
	ps := p.Fset.Position(pos)
	fn := strings.TrimPrefix(ps.Filename, p.Dir+"/")
	return fmt.Sprintf("%s:%d", fn, ps.Line)
}

// RelPkg returns the module-relative path of a function's package.
func RelPkg(f *ssa.Function) string {
	for f.Parent() != nil {
		f = f.Parent()
	}
	if f.Pkg == nil || f.Pkg.Pkg == nil {
		if f.Object() != nil && f.Object().Pkg() != nil {
			return strings.TrimPrefix(f.Object().Pkg().Path(), ModPath+"/")
		}
		return ""
	}
	return strings.TrimPrefix(f.Pkg.Pkg.Path(), ModPath+"/")
}

// FuncName gives a stable readable name: "(*T).M", "F", "(*T).M$1".
func FuncName(f *ssa.Function) string {
	if f == nil {
		return "<nil>"
	}
	if f.Pkg == nil {
		return f.String()
	}
	return f.RelString(f.Pkg.Pkg)
}
