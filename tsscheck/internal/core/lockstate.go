package core

import (
	"golang.org/x/tools/go/ssa"
)

// LockState is the abstract state of one mutex at a program point.
type LockState uint8

const (
	LsUnknown  LockState = 0
	LsUnlocked LockState = 1
	LsLocked   LockState = 2
	LsEither   LockState = 3 // held on some paths only
	LsDouble   LockState = 4 // lock while locked / unlock while unlocked seen on some path
)

func (s LockState) String() string {
	switch s {
	case LsUnlocked:
		return "unlocked"
	case LsLocked:
		return "locked"
	case LsEither:
		return "locked-on-some-paths"
	case LsDouble:
		return "double-lock-or-unlock"
	}
	return "unknown"
}

// LockEvent classifies an instruction: +1 acquires, -1 releases, 0 neither.
type LockEvent func(in ssa.Instruction) int

// LockStates runs a forward may-analysis over fn's CFG: the state before every
// instruction, starting unlocked at entry. A deferred release is applied at
// RunDefers. Closures called directly (r(...)) are classified by the caller's
// event function.
func LockStates(fn *ssa.Function, ev LockEvent, entry LockState) map[ssa.Instruction]LockState {
	in := map[*ssa.BasicBlock]LockState{}
	out := map[ssa.Instruction]LockState{}
	if len(fn.Blocks) == 0 {
		return out
	}
	deferred := false
	for _, b := range fn.Blocks {
		for _, i := range b.Instrs {
			if d, ok := i.(*ssa.Defer); ok && ev(d) < 0 {
				deferred = true
			}
		}
	}
	join := func(a, b LockState) LockState {
		if a == LsUnknown {
			return b
		}
		if b == LsUnknown {
			return a
		}
		if a == LsDouble || b == LsDouble {
			return LsDouble
		}
		return a | b
	}
	in[fn.Blocks[0]] = entry
	work := []*ssa.BasicBlock{fn.Blocks[0]}
	for len(work) > 0 {
		b := work[0]
		work = work[1:]
		st := in[b]
		for _, i := range b.Instrs {
			out[i] = join(out[i], st)
			if _, isDefer := i.(*ssa.Defer); isDefer {
				continue
			}
			if _, isRD := i.(*ssa.RunDefers); isRD {
				if deferred {
					if st == LsUnlocked {
						st = LsDouble
					} else if st != LsDouble {
						st = LsUnlocked
					}
				}
				continue
			}
			switch e := ev(i); {
			case e > 0:
				if st&LsLocked != 0 && st != LsDouble {
					if st == LsLocked {
						st = LsDouble
					} else {
						st = LsDouble
					}
				} else if st != LsDouble {
					st = LsLocked
				}
			case e < 0:
				if st == LsUnlocked {
					st = LsDouble
				} else if st != LsDouble {
					if st == LsEither {
						st = LsDouble
					} else {
						st = LsUnlocked
					}
				}
			}
		}
		for _, s := range b.Succs {
			n := join(in[s], st)
			if n != in[s] {
				in[s] = n
				work = append(work, s)
			}
		}
	}
	return out
}
