package core

import (
	"go/token"

	"golang.org/x/tools/go/ssa"
)

// Loop is a counted loop `for idx := Lo; idx < Hi; idx++` (or range-by-index).
type Loop struct {
	Header *ssa.BasicBlock
	Idx    ssa.Value // the value the body uses as index
	Lo     int64
	Hi     ssa.Value // bound (exclusive unless HiIncl)
	HiIncl bool
	Body   *ssa.BasicBlock
	Done   *ssa.BasicBlock
	In     map[*ssa.BasicBlock]bool
	Range  bool // rangeindex shape
}

// Loops finds the counted loops of fn.
func Loops(fn *ssa.Function) []*Loop {
	var out []*Loop
	for _, h := range fn.Blocks {
		if len(h.Instrs) == 0 {
			continue
		}
		iff, ok := h.Instrs[len(h.Instrs)-1].(*ssa.If)
		if !ok {
			continue
		}
		cmp, ok := iff.Cond.(*ssa.BinOp)
		if !ok || (cmp.Op != token.LSS && cmp.Op != token.LEQ) {
			continue
		}
		// find phi in h
		var phi *ssa.Phi
		var idx ssa.Value
		var lo int64
		rng := false
		switch x := cmp.X.(type) {
		case *ssa.Phi:
			if x.Block() == h {
				phi, idx = x, x
			}
		case *ssa.BinOp:
			if p, ok := x.X.(*ssa.Phi); ok && p.Block() == h && x.Op == token.ADD {
				if k, ok := ConstInt(x.Y); ok && k == 1 {
					phi, idx = p, x
					rng = true
				}
			}
		}
		if phi == nil || len(phi.Edges) < 2 {
			continue
		}
		// exactly one constant init edge; every other edge is phi+1 (several latches after `continue`)
		nInit, nInc, nOther := 0, 0, 0
		for _, e := range phi.Edges {
			if k, ok := ConstInt(e); ok {
				lo = k
				nInit++
				continue
			}
			if b, ok := e.(*ssa.BinOp); ok && b.Op == token.ADD && b.X == phi {
				if k, ok := ConstInt(b.Y); ok && k == 1 {
					nInc++
					continue
				}
			}
			nOther++
		}
		if nInit != 1 || nInc < 1 || nOther != 0 {
			continue
		}
		if rng {
			lo++
		}
		l := &Loop{Header: h, Idx: idx, Lo: lo, Hi: cmp.Y, HiIncl: cmp.Op == token.LEQ, Body: h.Succs[0], Done: h.Succs[1], Range: rng, In: map[*ssa.BasicBlock]bool{}}
		for _, b := range fn.Blocks {
			if h.Dominates(b) && Reaches(b, h) && (b == h || reachesWithin(b, h)) {
				l.In[b] = true
			}
		}
		out = append(out, l)
	}
	return out
}

func reachesWithin(b, h *ssa.BasicBlock) bool {
	// b reaches h through ≥1 edge
	for _, s := range b.Succs {
		if Reaches(s, h) {
			return true
		}
	}
	return false
}

// Latches returns the in-loop predecessors of the header.
func (l *Loop) Latches() []*ssa.BasicBlock {
	var out []*ssa.BasicBlock
	for _, p := range l.Header.Preds {
		if l.In[p] {
			out = append(out, p)
		}
	}
	return out
}

// ForallFact is a fact that holds for every index of a completed counted loop.
type ForallFact struct {
	TFact
	Loop *Loop
}

// ForallFactsAt returns the facts ∀idx∈[Lo,Hi): F(idx) that hold at block `at`
// because `at` is only reachable through the normal exit of a counted loop
// whose every iteration passes the safe edge of a guard; the unsafe edge must
// leave the loop without being able to reach `at`.
func ForallFactsAt(at *ssa.BasicBlock, depth int) []ForallFact {
	fn := at.Parent()
	var out []ForallFact
	for _, l := range Loops(fn) {
		if l.In[at] {
			continue
		}
		if !EdgeDominates(l.Header, 1, at) {
			continue
		}
		latches := l.Latches()
		for b := range l.In {
			if len(b.Instrs) == 0 {
				continue
			}
			iff, ok := b.Instrs[len(b.Instrs)-1].(*ssa.If)
			if !ok || b == l.Header {
				continue
			}
			// executes on every completed iteration
			all := true
			for _, la := range latches {
				if !b.Dominates(la) {
					all = false
				}
			}
			if !all {
				continue
			}
			for si := 0; si < 2; si++ {
				unsafe := b.Succs[1-si]
				// the unsafe edge must not be able to continue the loop or reach `at`
				if l.In[unsafe] && Reaches(unsafe, l.Header) {
					continue
				}
				if Reaches(unsafe, at) {
					continue
				}
				// nested inner loops: the guard block must not itself be in an inner loop of l
				facts := ExpandFacts(CondFacts(iff.Cond, si == 0, iff), depth)
				for _, f := range facts {
					out = append(out, ForallFact{TFact: f, Loop: l})
				}
			}
		}
	}
	return out
}

// IdxTerm returns the term of the loop's index value.
func (l *Loop) IdxTerm() *Term { return TermOf(l.Idx) }
