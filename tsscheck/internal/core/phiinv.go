package core

import "golang.org/x/tools/go/ssa"

// PhiInvariant decides an inductive invariant of a loop-carried value: P holds
// for v if v is not a phi and holds(v, facts at the point where it flows) is
// true, or v is a phi all of whose incoming values satisfy P on their edge
// (cycles are assumed — the standard induction over loop iterations).
// `at` is the block whose start facts apply to a non-phi v.
func PhiInvariant(v ssa.Value, at *ssa.BasicBlock, holds func(val ssa.Value, facts []TFact) bool) bool {
	return phiInv(v, at, holds, map[*ssa.Phi]bool{}, 0)
}

func phiInv(v ssa.Value, at *ssa.BasicBlock, holds func(ssa.Value, []TFact) bool, assumed map[*ssa.Phi]bool, d int) bool {
	if d > 12 {
		return false
	}
	v = Strip(v)
	phi, ok := v.(*ssa.Phi)
	if !ok {
		var facts []TFact
		if at != nil {
			facts = TFactsAt(at, 1)
		}
		return holds(v, facts)
	}
	if assumed[phi] {
		return true
	}
	// facts established after the phi (dominating `at`) may already imply P for the phi itself
	if at != nil && holds(phi, TFactsAt(at, 1)) {
		return true
	}
	assumed[phi] = true
	for i, e := range phi.Edges {
		pred := phi.Block().Preds[i]
		// facts at the end of pred, plus the branch edge pred→phi.Block() if pred ends in an If
		if !phiEdge(e, pred, phi.Block(), holds, assumed, d) {
			return false
		}
	}
	return true
}

func phiEdge(e ssa.Value, pred, to *ssa.BasicBlock, holds func(ssa.Value, []TFact) bool, assumed map[*ssa.Phi]bool, d int) bool {
	e = Strip(e)
	if p2, ok := e.(*ssa.Phi); ok {
		return phiInv(p2, pred, holds, assumed, d+1)
	}
	facts := FactsAt(pred)
	if len(pred.Instrs) > 0 {
		if iff, ok := pred.Instrs[len(pred.Instrs)-1].(*ssa.If); ok && pred.Succs[0] != pred.Succs[1] {
			if pred.Succs[0] == to {
				facts = append(facts, CondFacts(iff.Cond, true, iff)...)
			} else if pred.Succs[1] == to {
				facts = append(facts, CondFacts(iff.Cond, false, iff)...)
			}
		}
	}
	return holds(e, ExpandFacts(facts, 1))
}
