package core

import "golang.org/x/tools/go/ssa"

// CFGEdge identifies the edge from block B to B.Succs[SI].
type CFGEdge struct {
	B  *ssa.BasicBlock
	SI int
}

// reachablePruned: blocks reachable from the entry without using any removed edge.
func reachablePruned(fn *ssa.Function, removed map[CFGEdge]bool) map[*ssa.BasicBlock]bool {
	seen := map[*ssa.BasicBlock]bool{}
	if len(fn.Blocks) == 0 {
		return seen
	}
	st := []*ssa.BasicBlock{fn.Blocks[0]}
	seen[fn.Blocks[0]] = true
	for len(st) > 0 {
		b := st[len(st)-1]
		st = st[:len(st)-1]
		for i, s := range b.Succs {
			if removed[CFGEdge{b, i}] {
				continue
			}
			if !seen[s] {
				seen[s] = true
				st = append(st, s)
			}
		}
	}
	return seen
}

// FactsAtPruned is FactsAt on the CFG with the given edges removed (used to
// evaluate a function under an assumption, e.g. "this party is in the new
// committee": every edge on which the opposite was established is removed).
// ok=false when the block is unreachable in the pruned graph.
func FactsAtPruned(b *ssa.BasicBlock, removed map[CFGEdge]bool) (facts []Fact, ok bool) {
	fn := b.Parent()
	if !reachablePruned(fn, removed)[b] {
		return nil, false
	}
	for _, d := range fn.Blocks {
		if len(d.Instrs) == 0 {
			continue
		}
		iff, isIf := d.Instrs[len(d.Instrs)-1].(*ssa.If)
		if !isIf || d.Succs[0] == d.Succs[1] {
			continue
		}
		for si := 0; si < 2; si++ {
			if removed[CFGEdge{d, si}] {
				continue
			}
			rm := map[CFGEdge]bool{CFGEdge{d, si}: true}
			for e := range removed {
				rm[e] = true
			}
			if d == b {
				continue
			}
			if !reachablePruned(fn, rm)[b] {
				facts = append(facts, CondFacts(iff.Cond, si == 0, iff)...)
			}
		}
	}
	return facts, true
}

// EdgesWhere lists the branch edges of fn on which pred holds for some atomic fact.
func EdgesWhere(fn *ssa.Function, pred func(Fact) bool) map[CFGEdge]bool {
	out := map[CFGEdge]bool{}
	for _, b := range fn.Blocks {
		if len(b.Instrs) == 0 {
			continue
		}
		iff, ok := b.Instrs[len(b.Instrs)-1].(*ssa.If)
		if !ok {
			continue
		}
		for si := 0; si < 2; si++ {
			for _, f := range CondFacts(iff.Cond, si == 0, iff) {
				if pred(f) {
					out[CFGEdge{b, si}] = true
				}
			}
		}
	}
	return out
}
