package core

import (
	"encoding/json"
	"fmt"
	"os"
	"path/filepath"
	"sort"
	"strings"
	"time"
)

type Status string

const (
	Discharged Status = "discharged"
	Violated   Status = "violated"
	Undecided  Status = "undecided"
)

// Obligation is one thing a rule had to establish on the current tree.
type Obligation struct {
	Rule      string `json:"rule"`
	Key       string `json:"key"` // rule|pkg|func|construct — semantic, no line numbers
	Pos       string `json:"pos"`
	Status    Status `json:"status"`
	Witness   string `json:"witness,omitempty"` // guard position / identity witness
	Reason    string `json:"reason,omitempty"`  // why violated / undecided
	Trivial   bool   `json:"trivial,omitempty"` // discharged without needing a guard/identity witness
	KnownNote string `json:"known,omitempty"`
}

// Report collects the obligations of one property run.
type Report struct {
	Property string
	Tier     string
	Seed     int64
	Start    time.Time
	Obs      []*Obligation
	Counts   map[string]int // per-rule instance counts
	Floors   map[string]int // per-rule floors
	Tables   map[string]any // extracted tables printed in the evidence
	Notes    []string       // observations (not violations)
	Assume   []string       // assumptions
	Explain  string         // coverage.explanation
	Undec    string         // what is not decided
	Stats    map[string]int // functions analysed, call sites, packages…
	seen     map[string]int
}

func NewReport(prop, tier string, seed int64) *Report {
	return &Report{Property: prop, Tier: tier, Seed: seed, Start: time.Now(),
		Counts: map[string]int{}, Floors: map[string]int{}, Tables: map[string]any{},
		Stats: map[string]int{}, seen: map[string]int{}}
}

func (r *Report) add(o *Obligation) *Obligation {
	// ordinal among identical keys
	r.seen[o.Key]++
	if n := r.seen[o.Key]; n > 1 {
		o.Key = fmt.Sprintf("%s#%d", o.Key, n)
	}
	r.Obs = append(r.Obs, o)
	r.Counts[o.Rule]++
	return o
}

func Key(rule, pkg, fn, construct string) string {
	return rule + "|" + pkg + "|" + fn + "|" + construct
}

func (r *Report) OK(rule, key, pos, witness string) {
	r.add(&Obligation{Rule: rule, Key: key, Pos: pos, Status: Discharged, Witness: witness})
}
func (r *Report) Triv(rule, key, pos, witness string) {
	r.add(&Obligation{Rule: rule, Key: key, Pos: pos, Status: Discharged, Witness: witness, Trivial: true})
}
func (r *Report) Bad(rule, key, pos, reason string) {
	r.add(&Obligation{Rule: rule, Key: key, Pos: pos, Status: Violated, Reason: reason})
}
func (r *Report) Unk(rule, key, pos, reason string) {
	r.add(&Obligation{Rule: rule, Key: key, Pos: pos, Status: Undecided, Reason: reason})
}

// Check records a discharged or violated obligation depending on ok.
func (r *Report) Check(ok bool, rule, key, pos, witness, reason string) bool {
	if ok {
		r.OK(rule, key, pos, witness)
	} else {
		r.Bad(rule, key, pos, reason)
	}
	return ok
}

// Floor declares the minimum number of instances a rule must have matched.
func (r *Report) Floor(rule string, n int) { r.Floors[rule] = n }

func (r *Report) Note(format string, a ...any) { r.Notes = append(r.Notes, fmt.Sprintf(format, a...)) }

// ---- known findings ---------------------------------------------------------

type Finding struct {
	Kind     string `json:"kind"` // "known" | "fixed"
	Property string `json:"property"`
	Key      string `json:"key,omitempty"` // obligation key (exact) for kind=known
	Commit   string `json:"commit,omitempty"`
	What     string `json:"what"`
}

type findingsFile struct {
	Findings []Finding `json:"findings"`
}

func LoadFindings(path string) ([]Finding, error) {
	b, err := os.ReadFile(path)
	if err != nil {
		if os.IsNotExist(err) {
			return nil, nil
		}
		return nil, err
	}
	var ff findingsFile
	if err := json.Unmarshal(b, &ff); err != nil {
		return nil, err
	}
	return ff.Findings, nil
}

// ---- evidence ---------------------------------------------------------------

type evidence struct {
	PropertyID  string         `json:"property_id"`
	Tier        string         `json:"tier"`
	Seed        int64          `json:"seed"`
	Level       string         `json:"level"`
	Coverage    map[string]any `json:"coverage"`
	Assumptions []string       `json:"assumptions"`
	WallS       float64        `json:"wall_s"`
	Violations  int            `json:"violations"`
}

// Finish applies floors and known findings, writes evidence (+ violations
// file), prints the contract lines, and returns the exit code.
func (r *Report) Finish(verifDir string) int {
	// floors
	var rules []string
	for rule := range r.Floors {
		rules = append(rules, rule)
	}
	sort.Strings(rules)
	for _, rule := range rules {
		// The floor is the instance count confirmed by reading the unchanged tree. It guards against a rule
		// that silently stops matching (a vacuous pass); it must not fire when maintainers merge duplicated
		// code into one helper (four call sites become one). Counts of eight and more therefore tolerate a
		// quarter fewer instances; small counts are exact. A construct that disappears is still reported by
		// the rule that looks for it.
		need := r.Floors[rule]
		if need >= 8 {
			need = (need*3 + 3) / 4
		}
		if r.Counts[rule] < need {
			r.Obs = append(r.Obs, &Obligation{Rule: rule, Key: Key(rule, "-", "-", "instance-floor"), Pos: "-", Status: Violated,
				Reason: fmt.Sprintf("rule matched %d instances, floor confirmed by reading is %d (at least %d required): an anchored construct disappeared or is no longer recognised", r.Counts[rule], r.Floors[rule], need)})
		}
	}
	findings, ferr := LoadFindings(filepath.Join(verifDir, "known_findings.json"))
	known := map[string]Finding{}
	for _, f := range findings {
		if f.Kind == "known" && f.Property == r.Property {
			known[f.Key] = f
		}
	}
	var viol []*Obligation
	nDis, nTriv, nKnown := 0, 0, 0
	distinct := map[string]bool{}
	for _, o := range r.Obs {
		switch o.Status {
		case Discharged:
			nDis++
			if o.Trivial {
				nTriv++
			} else {
				distinct[o.Key] = true
			}
		default:
			if f, ok := known[o.Key]; ok {
				o.KnownNote = f.What
				nKnown++
				fmt.Printf("KNOWN-FINDING: property=%s %s [%s at %s]\n", r.Property, f.What, o.Key, o.Pos)
				continue
			}
			viol = append(viol, o)
		}
	}
	if ferr != nil {
		viol = append(viol, &Obligation{Rule: "infra", Key: "infra|known_findings.json", Status: Undecided, Reason: ferr.Error()})
	}
	evDir := filepath.Join(verifDir, "evidence")
	os.MkdirAll(evDir, 0o755)
	violPath := filepath.Join(evDir, r.Property+".violations.json")
	os.Remove(violPath)

	if os.Getenv("VERIF_DUMP_OBLIGATIONS") != "" {
		for _, o := range r.Obs {
			fmt.Fprintf(os.Stderr, "OBL %v triv=%v %s @%s :: %s\n", o.Status, o.Trivial, o.Key, o.Pos, o.Reason)
		}
	}
	// samples: up to 14 non-trivial discharged obligations spread over rules, plus all violations
	var samples []any
	perRule := map[string]int{}
	for _, o := range r.Obs {
		if o.Status == Discharged && !o.Trivial && perRule[o.Rule] < 2 && len(samples) < 16 {
			perRule[o.Rule]++
			samples = append(samples, o)
		}
	}
	if len(samples) == 0 {
		for _, o := range r.Obs {
			if len(samples) < 8 {
				samples = append(samples, o)
			}
		}
	}
	for _, o := range viol {
		if len(samples) < 40 {
			samples = append(samples, o)
		}
	}
	expl := r.Explain
	if r.Undec != "" {
		expl += " NOT DECIDED by this check: " + r.Undec
	}
	cov := map[string]any{
		"explanation":           expl,
		"evaluations":           len(r.Obs),
		"distinct_nontrivial":   len(distinct),
		"rule":                  "one evaluation = one obligation (rule instance on a specific construct of /repo's current source); non-trivial = discharged by a dominating guard, value-identity or table-agreement witness (trivially true obligations, e.g. operands of constant provenance, are counted separately); distinct = distinct obligation keys rule|package|function|construct",
		"samples":               samples,
		"obligations":           len(r.Obs),
		"discharged":            nDis,
		"trivially_discharged":  nTriv,
		"known_findings":        nKnown,
		"violated_or_undecided": len(viol),
		"rule_instances":        r.Counts,
		"rule_floors":           r.Floors,
		"stats":                 r.Stats,
		"tables":                r.Tables,
		"observations":          r.Notes,
		"exhaustive":            true,
		"checker_cmd":           fmt.Sprintf("./check.sh %s %s", r.Property, r.Tier),
	}
	ev := evidence{PropertyID: r.Property, Tier: r.Tier, Seed: r.Seed, Level: "other", Coverage: cov,
		Assumptions: r.Assume, WallS: time.Since(r.Start).Seconds(), Violations: len(viol)}
	if ev.Assumptions == nil {
		ev.Assumptions = []string{}
	}
	b, _ := json.MarshalIndent(ev, "", " ")
	if err := os.WriteFile(filepath.Join(evDir, r.Property+".json"), append(b, '\n'), 0o644); err != nil {
		fmt.Fprintln(os.Stderr, "cannot write evidence:", err)
		return 2
	}
	fmt.Printf("%s %s: %d obligations, %d discharged (%d trivially), %d known findings, %d violated/undecided; rules: %s\n",
		r.Property, r.Tier, len(r.Obs), nDis, nTriv, nKnown, len(viol), countsString(r.Counts))
	if len(viol) > 0 {
		vb, _ := json.MarshalIndent(viol, "", " ")
		os.WriteFile(violPath, append(vb, '\n'), 0o644)
		for _, o := range viol {
			fmt.Printf("  %s %s at %s: %s\n", strings.ToUpper(string(o.Status)), o.Key, o.Pos, o.Reason)
		}
		fmt.Printf("VIOLATION property=%s replay=%s\n", r.Property, violPath)
		return 1
	}
	return 0
}

func countsString(m map[string]int) string {
	var ks []string
	for k := range m {
		ks = append(ks, k)
	}
	sort.Strings(ks)
	var sb strings.Builder
	for i, k := range ks {
		if i > 0 {
			sb.WriteString(" ")
		}
		fmt.Fprintf(&sb, "%s=%d", k, m[k])
	}
	return sb.String()
}
