package core

import (
	"go/types"
	"sort"
	"strings"

	"golang.org/x/tools/go/ssa"
)

// ---- looking through private helpers ------------------------------------------
//
// A piece of an exported function moved into an unexported function of the same package ("extract
// helper") changes no behaviour. Rules that identify values (the mask that is encrypted is the mask that
// is proven) or dominating checks (every success return follows a successful Verify) therefore read the
// helper as part of its caller: a helper parameter denotes the argument at the call site inside the
// function under analysis, a helper result denotes the value every success return of the helper hands
// back, and `err == nil` for the helper's error result establishes every fact common to the helper's
// success returns.

// PrivateHelper: an unexported named function or method of a module package, with a body.
func PrivateHelper(f *ssa.Function) bool {
	if f == nil || f.Blocks == nil || f.Parent() != nil || f.Pkg == nil || f.Pkg.Pkg == nil || f.Synthetic != "" {
		return false
	}
	if !strings.HasPrefix(f.Pkg.Pkg.Path(), ModPath) {
		return false
	}
	n := f.Name()
	return n != "" && n != "init" && n[0] >= 'a' && n[0] <= 'z'
}

func isErrorType(t types.Type) bool {
	return types.Identical(t, types.Universe.Lookup("error").Type())
}

// errResultIndex: index of the trailing result of type error (or pointer result named *Error), -1 if none.
func errResultIndex(f *ssa.Function) int {
	rs := f.Signature.Results()
	if rs.Len() == 0 {
		return -1
	}
	last := rs.At(rs.Len() - 1).Type()
	if isErrorType(last) {
		return rs.Len() - 1
	}
	return -1
}

// DefinitelyNonNil: v is syntactically a freshly made error / allocation.
func DefinitelyNonNil(v ssa.Value) bool {
	switch x := v.(type) {
	case *ssa.Call:
		switch CalleeName(x) {
		case "errors.New", "fmt.Errorf", ModPath + "/tss.NewError", "github.com/pkg/errors.New", "github.com/pkg/errors.Errorf":
			return true
		}
		if strings.HasSuffix(CalleeName(x), ".WrapError") {
			return true
		}
	case *ssa.Alloc:
		return true
	case *ssa.MakeInterface:
		return DefinitelyNonNil(x.X)
	case *ssa.UnOp:
		if g := GlobalOf(x); g != nil && strings.HasPrefix(g.Name(), "Err") {
			return true
		}
	}
	return false
}

// MayReturnNil: result ri of the return may be nil (it is not the nil constant's opposite: a fresh
// error, a wrapped non-nil error, or a value a dominating branch established to be non-nil).
func MayReturnNil(ret *ssa.Return, ri int) bool {
	if ri >= len(ret.Results) {
		return false
	}
	v := Strip(ret.Results[ri])
	if IsNilConst(v) {
		return true
	}
	if DefinitelyNonNil(v) {
		return false
	}
	nonNilByFact := func(w ssa.Value) bool {
		w = Strip(w)
		for _, f := range FactsAt(ret.Block()) {
			if f.Kind == FNil && !f.Bool && Strip(f.X) == w {
				return true
			}
		}
		return false
	}
	if nonNilByFact(v) {
		return false
	}
	// errors.Wrap(err, …) / Wrapf is nil exactly when err is
	if c, ok := v.(*ssa.Call); ok {
		switch CalleeName(c) {
		case "github.com/pkg/errors.Wrap", "github.com/pkg/errors.Wrapf", "github.com/pkg/errors.WithStack", "github.com/pkg/errors.WithMessage":
			a := Strip(c.Call.Args[0])
			if DefinitelyNonNil(a) || nonNilByFact(a) {
				return false
			}
		}
	}
	return true
}

// SuccessReturns: the returns of f on which its error result may be nil (all returns when f has none).
func SuccessReturns(f *ssa.Function) []*ssa.Return {
	ei := errResultIndex(f)
	var out []*ssa.Return
	for _, r := range Returns(f) {
		if ei < 0 || MayReturnNil(r, ei) {
			out = append(out, r)
		}
	}
	return out
}

// ReturnFactsNilErr: the facts common to every return of fn at which result ri may be nil.
func ReturnFactsNilErr(fn *ssa.Function, ri int) (common []Fact, ok bool) {
	first := true
	for _, ret := range Returns(fn) {
		if ri >= len(ret.Results) {
			return nil, false
		}
		if !MayReturnNil(ret, ri) {
			continue
		}
		facts := FactsAt(ret.Block())
		if first {
			common, first = facts, false
		} else {
			common = intersectFacts(common, facts)
		}
	}
	if first {
		return nil, false
	}
	return common, true
}

// nilResultCall: when x is (an extract of) the result #ri of a static call to a module function and
// that result has type error, the call and ri.
func nilResultCall(x ssa.Value) (*ssa.Call, int) {
	x = Strip(x)
	switch e := x.(type) {
	case *ssa.Extract:
		if c, ok := e.Tuple.(*ssa.Call); ok && isErrorType(e.Type()) {
			return c, e.Index
		}
	case *ssa.Call:
		if isErrorType(e.Type()) {
			return e, 0
		}
	}
	return nil, 0
}

func siteInShallow(fn *ssa.Function, cs ssa.CallInstruction, d int) bool {
	if d > 4 {
		return false
	}
	p := cs.Parent()
	for p != nil {
		if p == fn {
			return true
		}
		if p.Parent() == nil {
			break
		}
		p = p.Parent()
	}
	if p == nil || !PrivateHelper(p) || p.Pkg != fn.Pkg {
		return false
	}
	for _, s := range helperCallSites(p) {
		if s.Parent() != p && siteInShallow(fn, s, d+1) {
			return true
		}
	}
	return false
}

// ResolveIn follows v through the private helpers of the function fn under analysis: a parameter of a
// helper is the argument of the one call site of the helper inside fn (its closures, its other
// helpers); a result of a helper call is the value all success returns of the helper agree on.
// Anything else (several sites inside fn, disagreeing returns) is left as it is.
func ResolveIn(fn *ssa.Function, v ssa.Value) ssa.Value {
	for i := 0; i < 12; i++ {
		v = Strip(v)
		switch x := v.(type) {
		case *ssa.Parameter:
			h := x.Parent()
			if h == fn || !PrivateHelper(h) {
				return v
			}
			idx := -1
			for k, q := range h.Params {
				if q == x {
					idx = k
				}
			}
			var site ssa.CallInstruction
			n := 0
			for _, cs := range helperCallSites(h) {
				if siteInShallow(fn, cs, 0) {
					site = cs
					n++
				}
			}
			if n != 1 || idx < 0 || idx >= len(site.Common().Args) {
				return v
			}
			v = site.Common().Args[idx]
			continue
		case *ssa.Extract:
			c, ok := x.Tuple.(*ssa.Call)
			if !ok {
				return v
			}
			if r := helperResult(c, x.Index); r != nil {
				v = r
				continue
			}
			return v
		case *ssa.Call:
			if x.Call.Signature().Results().Len() == 1 {
				if r := helperResult(x, 0); r != nil {
					v = r
					continue
				}
			}
			return v
		}
		return v
	}
	return v
}

// helperResult: the single value result #ri of the private helper called by c has on all its success returns.
func helperResult(c *ssa.Call, ri int) ssa.Value {
	h := Callee(c)
	if !PrivateHelper(h) || c.Call.IsInvoke() {
		return nil
	}
	var val ssa.Value
	for _, ret := range SuccessReturns(h) {
		if ri >= len(ret.Results) {
			return nil
		}
		r := Strip(ret.Results[ri])
		if val == nil {
			val = r
		} else if val != r {
			return nil
		}
	}
	if _, isConst := val.(*ssa.Const); isConst {
		return nil
	}
	return val
}

// FrameTerm: the canonical term of v with every leaf that belongs to a private helper of fn replaced
// by what it denotes in fn (see ResolveIn).
func FrameTerm(fn *ssa.Function, v ssa.Value) *Term {
	return frameTerm(fn, TermOf(ResolveIn(fn, v)), 0)
}

func frameTerm(fn *ssa.Function, t *Term, d int) *Term {
	if t == nil || d > 6 {
		return t
	}
	if t.V != nil {
		switch t.V.(type) {
		case *ssa.Parameter, *ssa.Extract, *ssa.Call:
			if r := ResolveIn(fn, t.V); r != Strip(t.V) {
				return frameTerm(fn, TermOf(r), d+1)
			}
		}
	}
	if len(t.Args) == 0 {
		return t
	}
	n := &Term{Op: t.Op, Name: t.Name, V: t.V}
	changed := false
	for _, a := range t.Args {
		b := frameTerm(fn, a, d)
		if b != a {
			changed = true
		}
		n.Args = append(n.Args, b)
	}
	if !changed {
		return t
	}
	return normalize(n)
}

// ---- facts a private helper inherits from its call sites ------------------------
//
// `if new(big.Int).Mod(pf.T, q).Sign() == 0 { return false }; return pf.equationHolds(…)`: what every
// call site of a private helper has established holds inside the helper. The facts at the call sites
// (term facts only) are rewritten into the helper's frame — an argument's term becomes the parameter —
// and those common to all call sites are added to the facts of every block of the helper.

var callerFactsCache = map[*ssa.Function][]TFact{}
var callerFactsBusy = map[*ssa.Function]bool{}

func replaceByKey(t *Term, m map[string]*Term, d int) *Term {
	if t == nil || d > 12 {
		return t
	}
	if r, ok := m[t.Key()]; ok {
		return r
	}
	if len(t.Args) == 0 {
		return t
	}
	n := &Term{Op: t.Op, Name: t.Name, V: t.V}
	changed := false
	for _, a := range t.Args {
		b := replaceByKey(a, m, d+1)
		if b != a {
			changed = true
		}
		n.Args = append(n.Args, b)
	}
	if !changed {
		return t
	}
	n.V = nil
	return normalize(n)
}

// CallerFacts: the term facts common to all call sites of the private helper h, in h's frame.
func CallerFacts(h *ssa.Function) []TFact {
	if !PrivateHelper(h) {
		return nil
	}
	if fs, ok := callerFactsCache[h]; ok {
		return fs
	}
	if callerFactsBusy[h] {
		return nil
	}
	callerFactsBusy[h] = true
	defer delete(callerFactsBusy, h)
	var common map[string]TFact
	sites := helperCallSites(h)
	n := 0
	for _, cs := range sites {
		if cs.Parent() == h {
			continue // recursion
		}
		if _, isGo := cs.(*ssa.Go); isGo {
			callerFactsCache[h] = nil
			return nil // started asynchronously: the spawner's facts are not the body's
		}
		if _, isDefer := cs.(*ssa.Defer); isDefer {
			callerFactsCache[h] = nil
			return nil
		}
		n++
		m := map[string]*Term{}
		for i, p := range h.Params {
			if i < len(cs.Common().Args) {
				at := TermOf(cs.Common().Args[i])
				if at.Op != "const" && at.Op != "nil" {
					m[at.Key()] = TermOf(p)
				}
			}
		}
		here := map[string]TFact{}
		for _, f := range TFactsAt(cs.Block(), 2) {
			switch f.Kind {
			case FCmp, FSign, FInt, FNil, FBool:
			default:
				continue
			}
			g := f
			g.Call = nil
			if g.X != nil {
				g.X = replaceByKey(g.X, m, 0)
			}
			if g.Y != nil {
				g.Y = replaceByKey(g.Y, m, 0)
			}
			g.Via = "call site of " + h.Name()
			here[g.String()] = g
		}
		if common == nil {
			common = here
		} else {
			for k := range common {
				if _, ok := here[k]; !ok {
					delete(common, k)
				}
			}
		}
	}
	var out []TFact
	if n > 0 {
		var keys []string
		for k := range common {
			keys = append(keys, k)
		}
		sort.Strings(keys)
		for _, k := range keys {
			out = append(out, common[k])
		}
	}
	callerFactsCache[h] = out
	return out
}

// ResolveParamIn is ResolveIn restricted to parameters: a helper's parameter becomes the argument at its
// call site inside fn; calls are not entered.
func ResolveParamIn(fn *ssa.Function, v ssa.Value) ssa.Value {
	for i := 0; i < 6; i++ {
		v = Strip(v)
		p, ok := v.(*ssa.Parameter)
		if !ok || p.Parent() == fn || !PrivateHelper(p.Parent()) {
			return v
		}
		r := ResolveIn(fn, p)
		// one step only: ResolveIn continues through calls, so redo the single parameter step by hand
		h := p.Parent()
		idx := -1
		for k, q := range h.Params {
			if q == p {
				idx = k
			}
		}
		var site ssa.CallInstruction
		n := 0
		for _, cs := range helperCallSites(h) {
			if siteInShallow(fn, cs, 0) {
				site = cs
				n++
			}
		}
		_ = r
		if n != 1 || idx < 0 || idx >= len(site.Common().Args) {
			return v
		}
		v = site.Common().Args[idx]
	}
	return Strip(v)
}
