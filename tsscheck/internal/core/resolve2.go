package core

import "golang.org/x/tools/go/ssa"

// FrameParamTerm: the canonical term of v with the parameters of private helpers replaced by the
// arguments of their call sites inside fn; calls are left as they are (unlike FrameTerm).
func FrameParamTerm(fn *ssa.Function, v ssa.Value) *Term {
	return frameParamTerm(fn, TermOf(ResolveParamIn(fn, v)), 0)
}

func frameParamTerm(fn *ssa.Function, t *Term, d int) *Term {
	if t == nil || d > 6 {
		return t
	}
	if p, ok := t.V.(*ssa.Parameter); ok && t.Op == "param" {
		if r := ResolveParamIn(fn, p); r != ssa.Value(p) {
			return frameParamTerm(fn, TermOf(r), d+1)
		}
	}
	if len(t.Args) == 0 {
		return t
	}
	n := &Term{Op: t.Op, Name: t.Name, V: t.V}
	changed := false
	for _, a := range t.Args {
		b := frameParamTerm(fn, a, d)
		if b != a {
			changed = true
		}
		n.Args = append(n.Args, b)
	}
	if !changed {
		return t
	}
	return normalize(n)
}
