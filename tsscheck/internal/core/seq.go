package core

import (
	"go/types"
	"sort"

	"golang.org/x/tools/go/ssa"
)

// Seg is one segment of a statically flattened slice value: a single element,
// or a whole (sub)array/slice spliced in.
type Seg struct {
	Kind string    // "elem" | "splice"
	V    ssa.Value // the element value, or the spliced container (Alloc/field address/call)
	Lo   ssa.Value // for partial splices x[lo:hi] (nil = from start / to end)
	Hi   ssa.Value
}

// SeqOf flattens a slice-typed value built from slice literals, appends and
// full/partial array splices into its element sequence. ok=false when the
// construction is not straight-line (phis, loops).
func SeqOf(v ssa.Value) ([]Seg, bool) {
	v = Strip(v)
	switch x := v.(type) {
	case *ssa.Slice:
		base := Strip(x.X)
		if a, ok := base.(*ssa.Alloc); ok {
			if arr, ok := a.Type().(*types.Pointer).Elem().Underlying().(*types.Array); ok && x.Low == nil && x.High == nil {
				// array literal: elements stored at constant indices exactly once, before the slice
				elems := map[int64]ssa.Value{}
				lit := true
				if refs := a.Referrers(); refs != nil {
					for _, in := range *refs {
						ia, ok := in.(*ssa.IndexAddr)
						if !ok {
							continue
						}
						k, isK := ConstInt(ia.Index)
						if !isK {
							lit = false
							continue
						}
						if r := ia.Referrers(); r != nil {
							for _, u := range *r {
								if st, ok := u.(*ssa.Store); ok && st.Addr == ia {
									if _, dup := elems[k]; dup {
										lit = false
									}
									elems[k] = st.Val
								}
							}
						}
					}
				}
				if lit && int64(len(elems)) == arr.Len() {
					var ks []int64
					for k := range elems {
						ks = append(ks, k)
					}
					sort.Slice(ks, func(i, j int) bool { return ks[i] < ks[j] })
					var out []Seg
					for _, k := range ks {
						out = append(out, Seg{Kind: "elem", V: elems[k]})
					}
					return out, true
				}
			}
		}
		return []Seg{{Kind: "splice", V: base, Lo: x.Low, Hi: x.High}}, true
	case *ssa.Call:
		if b, ok := x.Call.Value.(*ssa.Builtin); ok && b.Name() == "append" && len(x.Call.Args) == 2 {
			a, ok1 := SeqOf(x.Call.Args[0])
			bb, ok2 := SeqOf(x.Call.Args[1])
			if ok1 && ok2 {
				return append(a, bb...), true
			}
			return nil, false
		}
		return []Seg{{Kind: "splice", V: x}}, true
	case *ssa.Const:
		if x.Value == nil {
			return nil, true // nil slice
		}
	case *ssa.Phi:
		return nil, false
	}
	return []Seg{{Kind: "splice", V: v}}, true
}

// LenOf computes the static length of a slice/array value when it is a constant.
func LenOf(v ssa.Value) (int64, bool) {
	v = Strip(v)
	switch x := v.(type) {
	case *ssa.MakeSlice:
		return ConstInt(x.Len)
	case *ssa.Alloc:
		if arr, ok := x.Type().(*types.Pointer).Elem().Underlying().(*types.Array); ok {
			return arr.Len(), true
		}
	case *ssa.Slice:
		var base int64
		var ok bool
		bt := x.X.Type()
		if p, isP := bt.Underlying().(*types.Pointer); isP {
			if arr, isA := p.Elem().Underlying().(*types.Array); isA {
				base, ok = arr.Len(), true
			}
		}
		if !ok {
			base, ok = LenOf(x.X)
		}
		lo := int64(0)
		if x.Low != nil {
			k, isK := ConstInt(x.Low)
			if !isK {
				return 0, false
			}
			lo = k
		}
		if x.High != nil {
			k, isK := ConstInt(x.High)
			if !isK {
				return 0, false
			}
			return k - lo, true
		}
		if !ok {
			return 0, false
		}
		return base - lo, true
	case *ssa.Call:
		if b, ok := x.Call.Value.(*ssa.Builtin); ok && b.Name() == "append" && len(x.Call.Args) == 2 {
			a, ok1 := LenOf(x.Call.Args[0])
			bb, ok2 := LenOf(x.Call.Args[1])
			if ok1 && ok2 {
				return a + bb, true
			}
		}
	case *ssa.UnOp:
		if p, isP := x.Type().Underlying().(*types.Array); isP {
			return p.Len(), true
		}
	case *ssa.FieldAddr:
		if p, isP := x.Type().Underlying().(*types.Pointer); isP {
			if arr, isA := p.Elem().Underlying().(*types.Array); isA {
				return arr.Len(), true
			}
		}
	case *ssa.Parameter:
		if p, isP := x.Type().Underlying().(*types.Pointer); isP {
			if arr, isA := p.Elem().Underlying().(*types.Array); isA {
				return arr.Len(), true
			}
		}
	}
	if arr, ok := v.Type().Underlying().(*types.Array); ok {
		return arr.Len(), true
	}
	return 0, false
}

// TruncatingCopies lists copy(dst, src) calls in fn whose destination is
// statically shorter than the source (the surplus is silently dropped).
func TruncatingCopies(fn *ssa.Function) []*ssa.Call {
	var out []*ssa.Call
	for _, g := range WithClosures(fn) {
		for _, cs := range Calls(g) {
			c, ok := cs.(*ssa.Call)
			if !ok {
				continue
			}
			if b, isB := c.Call.Value.(*ssa.Builtin); !isB || b.Name() != "copy" {
				continue
			}
			d, ok1 := LenOf(c.Call.Args[0])
			s, ok2 := LenOf(c.Call.Args[1])
			if ok1 && ok2 && d < s {
				out = append(out, c)
			}
		}
	}
	return out
}

// MadeSlice recognises make([]T, n[, cap]) in both SSA shapes (MakeSlice, or a
// slice over a fresh fixed-size array when the sizes are constants) and returns
// the length when constant.
func MadeSlice(v ssa.Value) (length int64, constLen bool, ok bool) {
	v = Strip(v)
	switch x := v.(type) {
	case *ssa.MakeSlice:
		n, isK := ConstInt(x.Len)
		return n, isK, true
	case *ssa.Slice:
		a, isA := Strip(x.X).(*ssa.Alloc)
		if !isA || a.Comment != "makeslice" {
			return 0, false, false
		}
		if x.High == nil {
			n, okN := LenOf(a)
			return n, okN, true
		}
		n, isK := ConstInt(x.High)
		return n, isK, true
	}
	return 0, false, false
}
