package core

import (
	"fmt"
	"go/token"
	"go/types"
	"os"
	"strings"

	"golang.org/x/tools/go/ssa"
)

// Taint is the set of origin classes a value may be computed from.
type Taint uint8

const (
	TWire  Taint = 1 << iota // content of a protocol message / parameter of an exported verifier or decoder
	TRand                    // sampled from the configured randomness source
	THash                    // output of a hash function
	TKey                     // key data / configuration handed to the party
	TConst                   // constants and curve parameters
	TOther
)

func (t Taint) String() string {
	var s []string
	for _, p := range []struct {
		b Taint
		n string
	}{{TWire, "WIRE"}, {TRand, "RAND"}, {THash, "HASH"}, {TKey, "KEY"}, {TConst, "CONST"}, {TOther, "OTHER"}} {
		if t&p.b != 0 {
			s = append(s, p.n)
		}
	}
	return strings.Join(s, "+")
}

// Tainter computes origin classes by a backward walk over SSA with module-wide,
// flow-insensitive summaries for struct fields (every value stored into a field
// anywhere in the module) and for function results.
type Tainter struct {
	p             *Prog
	Content       map[*types.Named]bool   // protobuf content types: their fields are WIRE
	KeyTypes      map[*types.Named]bool   // key-data / parameter types
	Entry         map[*ssa.Function]bool  // functions whose parameters (and receiver fields) are WIRE
	field         map[string]Taint        // "pkg.Type.field" → taint of everything stored there
	retMemo       map[*ssa.Function]Taint // result taint of module functions (excluding argument flow)
	stores        map[string][]ssa.Value  // field key → stored values
	inProg        map[ssa.Value]bool
	paramMemo     map[*ssa.Parameter]Taint
	callers       map[*ssa.Function][]ssa.CallInstruction
	mask          map[*ssa.Function]bool
	curReach      map[*ssa.Function]map[int]bool // parameters reached while a result summary is being computed
	reachMemo     map[*ssa.Function]map[int]bool // parameters a function's results depend on (outside hash inputs)
	clock         int               // increases with every value whose evaluation begins
	inProgAt      map[ssa.Value]int // clock at which the evaluation of an in-progress value began
	frames        []*sumFrame       // summaries (function results, parameters) being computed, innermost last
	retProg       map[*ssa.Function]int
	paramProg     map[*ssa.Parameter]int
	masked        int
	OwnTypes      map[*types.Named]bool // objects only the party itself builds (its own secret key): fields are KEY whatever peers' copies of the same type hold
	TrustedFields map[string]bool       // names of fields holding key data handed in by the application (validated by this library's keygen)
	Trace         bool                  // print every WIRE-carrying node of the walk (debugging aid)
}

func NewTainter(p *Prog) *Tainter {
	t := &Tainter{p: p, Content: map[*types.Named]bool{}, KeyTypes: map[*types.Named]bool{}, Entry: map[*ssa.Function]bool{},
		field: map[string]Taint{}, retMemo: map[*ssa.Function]Taint{}, stores: map[string][]ssa.Value{}, inProg: map[ssa.Value]bool{},
		paramMemo: map[*ssa.Parameter]Taint{}, callers: map[*ssa.Function][]ssa.CallInstruction{}, OwnTypes: map[*types.Named]bool{}, TrustedFields: map[string]bool{}}
	for _, f := range p.ModuleFuncs(false) {
		// fixture loaders shipped in non-test files are not part of the library's data flow
		if fname := p.Fset.Position(f.Pos()).Filename; strings.HasSuffix(fname, "test_utils.go") || strings.Contains(fname, "/test/") {
			continue
		}
		for _, b := range f.Blocks {
			for _, in := range b.Instrs {
				if st, ok := in.(*ssa.Store); ok {
					if fr := AsFieldAddr(st.Addr); fr != nil {
						t.stores[fr.String()] = append(t.stores[fr.String()], st.Val)
					}
					// element stores into a field-held slice: x.f[i] = v
					if ia, ok := st.Addr.(*ssa.IndexAddr); ok {
						if fr := AsFieldLoad(ia.X); fr != nil {
							t.stores[fr.String()] = append(t.stores[fr.String()], st.Val)
						} else if fa := AsFieldAddr(ia.X); fa != nil {
							t.stores[fa.String()] = append(t.stores[fa.String()], st.Val)
						}
					}
				}
				if cs, ok := in.(ssa.CallInstruction); ok {
					if g := Callee(cs); g != nil {
						t.callers[g] = append(t.callers[g], cs)
					}
				}
			}
		}
	}
	return t
}

// Fixpoint computes the field summaries (call after Content/KeyTypes/Entry are set).
func (t *Tainter) Fixpoint() {
	for iter := 0; iter < 6; iter++ {
		changed := false
		for k, vals := range t.stores {
			var u Taint
			for _, v := range vals {
				tv := t.Of(v)
				if ft := os.Getenv("VERIF_FIELD_TRACE"); ft != "" && strings.Contains(k, ft) && tv&TWire != 0 && t.field[k]&TWire == 0 {
					where := ""
					if in, ok := v.(ssa.Instruction); ok && in.Parent() != nil {
						where = in.Parent().String()
					}
					fmt.Fprintf(os.Stderr, "FIELD %s gets WIRE (iteration %d) from %s = %s in %s\n", k, iter, v.Name(), v.String(), where)
				}
				u |= tv
			}
			if u|t.field[k] != t.field[k] {
				t.field[k] |= u
				changed = true
			}
		}
		t.paramMemo = map[*ssa.Parameter]Taint{}
		t.retMemo = map[*ssa.Function]Taint{}
		if !changed {
			break
		}
	}
}

func namedOf(t types.Type) *types.Named {
	if p, ok := t.(*types.Pointer); ok {
		t = p.Elem()
	}
	n, _ := t.(*types.Named)
	return n
}

// Of returns the origin classes of v.
func (t *Tainter) Of(v ssa.Value) Taint {
	return t.of(v, 0)
}

func (t *Tainter) of(v ssa.Value, d int) Taint {
	if tr := os.Getenv("VERIF_OF_TRACE"); tr != "" && v != nil && v.Parent() != nil && strings.Contains(v.Parent().String(), tr) {
		fmt.Fprintf(os.Stderr, "OF %*s%s = %s (masked %d, inProg %v)\n", d, "", v.Name(), v.String(), t.masked, t.inProg[v])
	}
	r := t.of1(v, d)
	if t.Trace && r&TWire != 0 && v != nil {
		where := ""
		if in, ok := v.(ssa.Instruction); ok && in.Parent() != nil {
			where = " in " + in.Parent().String()
		} else if p, ok := v.(*ssa.Parameter); ok {
			where = " param of " + p.Parent().String()
		}
		fmt.Fprintf(os.Stderr, "TAINT %*s%s = %s%s\n", d, "", v.Name(), v.String(), where)
	}
	return r
}

func (t *Tainter) of1(v ssa.Value, d int) Taint {
	if v == nil {
		return 0
	}
	if d > 40 {
		t.cutFrames(0) // depth bound: every summary being computed is incomplete
		return 0
	}
	if t.inProg[v] {
		// a cycle: harmless for the summaries that began after v's evaluation did (v's own result
		// will include them), but summaries begun before see an incomplete operand
		t.cutFrames(t.inProgAt[v])
		return 0
	}
	t.inProg[v] = true
	t.clock++
	if t.inProgAt == nil {
		t.inProgAt = map[ssa.Value]int{}
	}
	t.inProgAt[v] = t.clock
	defer delete(t.inProg, v)
	v = Strip(v)
	// curves and their parameters are configuration, never attacker-chosen numbers
	if ts := v.Type().String(); ts == "crypto/elliptic.Curve" || ts == "*crypto/elliptic.CurveParams" {
		return TConst
	}
	// a *big.Int is a mutable object: it also carries what every in-place setter applied to the same
	// object (in this function) was given — `i := new(big.Int); i.Add(x, y); return i.Mod(i, m)`
	var bigU Taint
	if isBigPtr(v.Type()) {
		root := BigRoot(v)
		for _, m := range BigMuts(root) {
			if ssa.Value(m) == v {
				continue
			}
			for _, a := range m.Call.Args[1:] {
				bigU |= t.of(a, d+1)
			}
		}
		if root != v {
			bigU |= t.of(root, d+1)
		}
	}
	if bigU != 0 {
		return bigU | t.of2(v, d)
	}
	return t.of2(v, d)
}

func (t *Tainter) of2(v ssa.Value, d int) Taint {
	switch x := v.(type) {
	case *ssa.Const:
		return TConst
	case *ssa.Global:
		return TConst
	case *ssa.Function, *ssa.Builtin:
		return TConst
	case *ssa.Parameter:
		return t.param(x, d)
	case *ssa.FreeVar:
		if b := FreeVarBinding(x); b != nil {
			return t.of(b, d+1)
		}
		return TOther
	case *ssa.Alloc:
		var u Taint
		// a pointer to a struct built here summarises what its constructor stores in it (passing
		// &PublicKey{N: n} hands n to the callee); reading a field never consults this summary
		visitAllocUses(x, func(in ssa.Instruction, self ssa.Value) {
			if st, ok := in.(*ssa.Store); ok && st.Addr == self {
				u |= t.of(st.Val, d+1)
			}
			if ia, ok := in.(*ssa.IndexAddr); ok && ia.X == self && ia.Referrers() != nil {
				for _, r := range *ia.Referrers() {
					if st, ok := r.(*ssa.Store); ok && st.Addr == ia {
						u |= t.of(st.Val, d+1)
					}
				}
			}
			if fa, ok := in.(*ssa.FieldAddr); ok && fa.X == self && fa.Referrers() != nil {
				// stores to the field, and to elements / sub-fields of an array or struct field
				var sub func(addr ssa.Value, depth int)
				sub = func(addr ssa.Value, depth int) {
					if depth > 4 || addr.Referrers() == nil {
						return
					}
					for _, r := range *addr.Referrers() {
						switch y := r.(type) {
						case *ssa.Store:
							if y.Addr == addr {
								u |= t.of(y.Val, d+1)
							}
						case *ssa.IndexAddr:
							if y.X == addr {
								sub(y, depth+1)
							}
						case *ssa.FieldAddr:
							if y.X == addr {
								sub(y, depth+1)
							}
						}
					}
				}
				sub(fa, 0)
			}
		})
		if u == 0 {
			u = TConst
		}
		return u
	case *ssa.MakeSlice, *ssa.MakeMap, *ssa.MakeChan:
		var u Taint
		for _, al := range SliceAliases(v) {
			if refs := al.Referrers(); refs != nil {
				for _, in := range *refs {
					if ia, ok := in.(*ssa.IndexAddr); ok && ia.X == al && ia.Referrers() != nil {
						for _, r := range *ia.Referrers() {
							if st, ok := r.(*ssa.Store); ok && st.Addr == ia {
								u |= t.of(st.Val, d+1)
							}
						}
					}
					if mu, ok := in.(*ssa.MapUpdate); ok && mu.Map == al {
						u |= t.of(mu.Value, d+1)
					}
				}
			}
		}
		if u == 0 {
			u = TConst
		}
		return u
	case *ssa.UnOp:
		switch x.Op {
		case token.MUL:
			return t.load(x.X, d)
		case token.ARROW:
			if mk := ChanMake(x.X); mk != nil {
				var u Taint
				for _, s := range SendsOn(Outermost(mk.Parent()), mk) {
					u |= t.of(s.X, d+1)
				}
				return u
			}
			return TOther
		}
		return t.of(x.X, d+1)
	case *ssa.Field:
		if fr := AsFieldLoad(x); fr != nil {
			return t.fieldTaint(fr, d) | t.wholeWireUnlessTrusted(fr)
		}
	case *ssa.FieldAddr:
		if fr := AsFieldAddr(x); fr != nil {
			return t.fieldTaint(fr, d)
		}
	case *ssa.IndexAddr:
		return t.of(x.X, d+1)
	case *ssa.Index:
		return t.of(x.X, d+1)
	case *ssa.Lookup:
		return t.of(x.X, d+1)
	case *ssa.Slice:
		return t.of(x.X, d+1)
	case *ssa.Extract:
		return t.of(x.Tuple, d+1)
	case *ssa.Phi:
		var u Taint
		for _, e := range x.Edges {
			u |= t.of(e, d+1)
		}
		return u
	case *ssa.BinOp:
		return t.of(x.X, d+1) | t.of(x.Y, d+1)
	case *ssa.Convert:
		return t.of(x.X, d+1)
	case *ssa.TypeAssert:
		return t.of(x.X, d+1)
	case *ssa.MakeClosure:
		return TConst
	case *ssa.Select:
		var u Taint
		for _, st := range x.States {
			if mk := ChanMake(st.Chan); mk != nil {
				for _, s := range SendsOn(Outermost(mk.Parent()), mk) {
					u |= t.of(s.X, d+1)
				}
			}
		}
		return u
	case *ssa.Call:
		return t.call(x, d)
	case *ssa.Range, *ssa.Next:
		if in, ok := v.(ssa.Instruction); ok {
			var u Taint
			for _, op := range in.Operands(nil) {
				if *op != nil {
					u |= t.of(*op, d+1)
				}
			}
			return u
		}
	}
	return TOther
}

func (t *Tainter) load(addr ssa.Value, d int) Taint {
	switch a := addr.(type) {
	case *ssa.Global:
		return TConst
	case *ssa.FieldAddr:
		fr := AsFieldAddr(a)
		// a field of a WIRE struct value (proof structs handed to verifiers) is WIRE
		return t.fieldTaint(fr, d) | t.wholeWireUnlessTrusted(fr)
	case *ssa.IndexAddr:
		return t.of(a.X, d+1)
	}
	return t.of(addr, d+1)
}

// wholeWire: the object is peer-built as a whole — a parameter (receiver) of the exported verifier /
// decoder API, or a protobuf content value — so every field of it is WIRE regardless of who else in
// the module stores into fields of that type.
func (t *Tainter) wholeWireUnlessTrusted(fr *FieldRef) Taint {
	if t.trustedBase(fr) {
		return 0
	}
	return t.wholeWire(fr.Base)
}

func (t *Tainter) wholeWire(base ssa.Value) Taint {
	base = Strip(base)
	for i := 0; i < 6; i++ {
		switch x := base.(type) {
		case *ssa.Parameter:
			if t.Entry[x.Parent()] && !t.mask[x.Parent()] {
				return TWire
			}
			return 0
		case *ssa.UnOp:
			if x.Op != token.MUL {
				return 0
			}
			if al, ok := Strip(x.X).(*ssa.Alloc); ok {
				// spilled value receiver / local copy: *(&local) where local = param
				var only ssa.Value
				n := 0
				if refs := al.Referrers(); refs != nil {
					for _, u := range *refs {
						if st, isSt := u.(*ssa.Store); isSt && st.Addr == ssa.Value(al) {
							only = st.Val
							n++
						}
					}
				}
				if n == 1 {
					base = Strip(only)
					continue
				}
			}
			return 0
		case *ssa.Alloc:
			var only ssa.Value
			n := 0
			if refs := x.Referrers(); refs != nil {
				for _, u := range *refs {
					if st, isSt := u.(*ssa.Store); isSt && st.Addr == ssa.Value(x) {
						only = st.Val
						n++
					}
				}
			}
			if n == 1 {
				base = Strip(only)
				continue
			}
			return 0
		}
		break
	}
	if n := namedOf(base.Type()); n != nil && t.Content[n] {
		return TWire
	}
	return 0
}

// trustedBase: the object the field is read from is the party's own secret key, or lies inside key
// data the application handed in (`key`, `input`): its content was produced by this library's keygen.
func (t *Tainter) trustedBase(fr *FieldRef) bool {
	if n := namedOf(fr.Owner); n != nil && t.OwnTypes[n] {
		return true
	}
	base := fr.Base
	for i := 0; i < 10 && base != nil; i++ {
		base = Strip(base)
		if n := namedOf(base.Type()); n != nil && t.OwnTypes[n] {
			return true
		}
		var f *FieldRef
		switch x := base.(type) {
		case *ssa.UnOp:
			if x.Op != token.MUL {
				return false
			}
			base = x.X
			continue
		case *ssa.FieldAddr:
			f = AsFieldAddr(x)
		case *ssa.Field:
			f = AsFieldLoad(x)
		case *ssa.IndexAddr:
			base = x.X
			continue
		case *ssa.Index:
			base = x.X
			continue
		default:
			return false
		}
		if f == nil {
			return false
		}
		if n := namedOf(f.Owner); n != nil && t.OwnTypes[n] {
			return true
		}
		if t.TrustedFields[f.Name] {
			if ft := f.Struct.Field(f.Index).Type(); namedOf(ft) != nil && t.KeyTypes[namedOf(ft)] {
				return true
			}
		}
		base = f.Base
	}
	return false
}

// sumFrame: one summary under computation. It is exact unless the walk was cut at a value whose own
// evaluation began before the summary did (the summary then misses what that value will contribute).
type sumFrame struct {
	start int
	cut   bool
}

func (t *Tainter) pushFrame() *sumFrame {
	t.clock++
	f := &sumFrame{start: t.clock}
	t.frames = append(t.frames, f)
	return f
}

func (t *Tainter) popFrame() { t.frames = t.frames[:len(t.frames)-1] }

// cutFrames marks incomplete every summary that began at or after clock `at`.
func (t *Tainter) cutFrames(at int) {
	for i := len(t.frames) - 1; i >= 0 && t.frames[i].start >= at; i-- {
		t.frames[i].cut = true
	}
}

// cutFramesAfter marks incomplete every summary that began after the frame that started at `at`.
func (t *Tainter) cutFramesAfter(at int) {
	for i := len(t.frames) - 1; i >= 0 && t.frames[i].start > at; i-- {
		t.frames[i].cut = true
	}
}

// noteReach records that the result being summarised depends on parameter p.
func (t *Tainter) noteReach(p *ssa.Parameter) {
	fn := p.Parent()
	m := t.curReach[fn]
	if m == nil {
		return
	}
	for i, q := range fn.Params {
		if q == p {
			m[i] = true
		}
	}
}

// maskedRoot: the field is read from an object reached from a parameter of a function whose result
// summary is being computed: that object's content is accounted for by the actual argument.
func (t *Tainter) maskedRoot(fr *FieldRef) bool {
	if t.masked == 0 {
		return false
	}
	base := fr.Base
	for i := 0; i < 10 && base != nil; i++ {
		base = Strip(base)
		switch x := base.(type) {
		case *ssa.Parameter:
			if t.mask[x.Parent()] {
				t.noteReach(x)
				return true
			}
			return false
		case *ssa.UnOp:
			if x.Op != token.MUL {
				return false
			}
			base = x.X
		case *ssa.FieldAddr:
			base = x.X
		case *ssa.Field:
			base = x.X
		case *ssa.IndexAddr:
			base = x.X
		case *ssa.Index:
			base = x.X
		default:
			return false
		}
	}
	return false
}

func (t *Tainter) fieldTaint(fr *FieldRef, d int) Taint {
	if t.trustedBase(fr) {
		return TKey
	}
	if t.maskedRoot(fr) {
		return 0
	}
	n := namedOf(fr.Owner)
	if n != nil && t.Content[n] {
		return TWire
	}
	var u Taint
	if n != nil && t.KeyTypes[n] {
		u |= TKey
	}
	u |= t.field[fr.String()]
	return u
}

func (t *Tainter) param(p *ssa.Parameter, d int) Taint {
	fn := p.Parent()
	if t.mask[fn] {
		t.noteReach(p)
		return 0
	}
	if at, busy := t.paramProg[p]; busy {
		t.cutFramesAfter(at)
		return 0
	}
	if m, ok := t.paramMemo[p]; ok {
		return m
	}
	if t.paramProg == nil {
		t.paramProg = map[*ssa.Parameter]int{}
	}
	fr := t.pushFrame()
	t.paramProg[p] = fr.start
	defer delete(t.paramProg, p)
	defer t.popFrame()
	var u Taint
	if t.Entry[fn] {
		u |= TWire
	}
	if fn.Parent() != nil {
		idx := -1
		for i, q := range fn.Params {
			if q == p {
				idx = i
			}
		}
		for _, cs := range ClosureCallSites(fn) {
			if a := cs.Common().Args; idx >= 0 && idx < len(a) {
				u |= t.of(a[idx], d+1)
			}
		}
	} else {
		idx := -1
		for i, q := range fn.Params {
			if q == p {
				idx = i
			}
		}
		for _, cs := range t.callers[fn] {
			if a := cs.Common().Args; idx >= 0 && idx < len(a) {
				u |= t.of(a[idx], d+1)
			}
		}
		if n := namedOf(p.Type()); n != nil {
			if t.KeyTypes[n] {
				u |= TKey
			}
			if t.Content[n] {
				u |= TWire
			}
		}
		if len(t.callers[fn]) == 0 && u == 0 {
			u |= TKey // API boundary: configuration supplied by the application
		}
	}
	if t.masked == 0 && (!fr.cut || u&TWire != 0) {
		t.paramMemo[p] = u // exact, or already at the top of the lattice for what the rules ask (WIRE)
	} else {
		delete(t.paramMemo, p)
	}
	return u
}

func (t *Tainter) call(c *ssa.Call, d int) Taint {
	name := CalleeName(c)
	switch {
	case CallIs(c, HashFuncs...), strings.HasPrefix(name, "crypto/sha"), strings.Contains(name, "hash.Hash"):
		return THash
	case strings.Contains(name, "/common.GetRandom"), strings.Contains(name, "/common.MustGetRandomInt"), strings.HasPrefix(name, "crypto/rand."):
		return TRand
	}
	// methods on protobuf content types (getters, Unmarshal*): WIRE
	if g := Callee(c); g != nil && g.Signature.Recv() != nil {
		if n := namedOf(g.Signature.Recv().Type()); n != nil && t.Content[n] {
			return TWire
		}
	}
	if m := InvokeMethod(c); m != nil {
		switch m.Name() {
		case "Content", "GetFrom", "GetTo", "IsBroadcast", "WireBytes":
			return TWire
		case "Params", "EC", "ScalarBaseMult", "ScalarMult", "Add", "IsOnCurve", "Double":
			var u Taint
			for _, a := range c.Call.Args {
				u |= t.of(a, d+1)
			}
			return u | TConst
		}
	}
	var u Taint
	if c.Call.IsInvoke() {
		u |= t.of(c.Call.Value, d+1)
	}
	// a module function with a body: its result draws on its own sources (ret) and on those arguments
	// its result actually depends on — an argument that only feeds a hash inside the helper
	// (challenge helpers) does not make the result peer-chosen
	var reach map[int]bool
	if g := Callee(c); g != nil && g.Blocks != nil && inModule(g) {
		u |= t.ret(g, d)
		reach = t.reachMemo[g]
	}
	for i, a := range c.Call.Args {
		if reach != nil && !reach[i] {
			continue
		}
		u |= t.of(a, d+1)
	}
	if u == 0 {
		u = TConst
	}
	return u
}

// ret: origin classes a module function's results draw from internally (samplers, hashes, fields).
func (t *Tainter) ret(g *ssa.Function, d int) Taint {
	if at, busy := t.retProg[g]; busy {
		t.cutFramesAfter(at) // recursion: the summaries begun inside g's own are incomplete
		return 0
	}
	if m, ok := t.retMemo[g]; ok {
		return m
	}
	if t.retProg == nil {
		t.retProg = map[*ssa.Function]int{}
	}
	fr := t.pushFrame()
	t.retProg[g] = fr.start
	defer delete(t.retProg, g)
	defer t.popFrame()
	var u Taint
	complete := false
	if d < 12 {
		// the function's own parameters are accounted for by the actual arguments at each call site
		if t.mask == nil {
			t.mask = map[*ssa.Function]bool{}
		}
		if t.curReach == nil {
			t.curReach = map[*ssa.Function]map[int]bool{}
			t.reachMemo = map[*ssa.Function]map[int]bool{}
		}
		was := t.mask[g]
		wasReach := t.curReach[g]
		t.mask[g] = true
		t.curReach[g] = map[int]bool{}
		t.masked++
		for _, ret := range Returns(g) {
			for _, r := range ret.Results {
				u |= t.of(r, d+4)
			}
		}
		t.masked--
		t.mask[g] = was
		// the summary is exact only when the walk was not cut (a value already being evaluated further
		// up, or the depth bound) — otherwise it is not kept and every argument counts
		if !fr.cut && t.masked == 0 {
			complete = true
			t.reachMemo[g] = t.curReach[g]
			if os.Getenv("VERIF_REACH_TRACE") != "" && strings.Contains(g.String(), os.Getenv("VERIF_REACH_TRACE")) {
				fmt.Fprintf(os.Stderr, "REACH %s = %v (taint %s)\n", g.String(), t.curReach[g], u)
			}
		}
		t.curReach[g] = wasReach
	}
	u &^= TConst
	if complete {
		t.retMemo[g] = u
	} else {
		delete(t.reachMemo, g)
		delete(t.retMemo, g)
	}
	return u
}
