package core

import (
	"fmt"
	"go/token"
	"sort"
	"strings"

	"golang.org/x/tools/go/ssa"
)

// Term is a canonical expression tree over SSA values: field selections, pure
// calls and big.Int arithmetic are interpreted; everything else is an opaque
// leaf. It is abstract interpretation of straight-line code, not path
// exploration: no branch condition is solved.
type Term struct {
	Op   string // "param","const","global","nil",".f","[]","call:<name>","Mul","Add","Sub","Mod","Exp","Sqrt","Rsh","Lsh","Neg","opaque", …
	Args []*Term
	V    ssa.Value // for leaves: the SSA value
	Name string    // param name, field name, const text, global name
	key  string
}

func (t *Term) Key() string {
	if t == nil {
		return "<nil>"
	}
	if t.key != "" {
		return t.key
	}
	var sb strings.Builder
	switch t.Op {
	case "param":
		sb.WriteString("p:" + t.Name)
	case "const":
		sb.WriteString("c:" + t.Name)
	case "global":
		sb.WriteString("g:" + t.Name)
	case "nil":
		sb.WriteString("nil")
	case "opaque":
		sb.WriteString("@" + t.Name)
	case ".":
		sb.WriteString(t.Args[0].Key() + "." + t.Name)
	default:
		sb.WriteString(t.Op)
		if t.Name != "" {
			sb.WriteString("<" + t.Name + ">")
		}
		sb.WriteString("(")
		for i, a := range t.Args {
			if i > 0 {
				sb.WriteString(",")
			}
			sb.WriteString(a.Key())
		}
		sb.WriteString(")")
	}
	t.key = sb.String()
	return t.key
}

func (t *Term) String() string { return t.Key() }

// IsOpaque reports whether the term contains an uninterpreted leaf.
func (t *Term) HasOpaque() bool {
	if t.Op == "opaque" {
		return true
	}
	for _, a := range t.Args {
		if a.HasOpaque() {
			return true
		}
	}
	return false
}

// Subst replaces parameter leaves by the given terms.
func (t *Term) Subst(m map[*ssa.Parameter]*Term) *Term {
	if t == nil {
		return nil
	}
	if t.Op == "param" {
		if p, ok := t.V.(*ssa.Parameter); ok {
			if r, ok := m[p]; ok {
				return r
			}
		}
		return t
	}
	if len(t.Args) == 0 {
		return t
	}
	n := &Term{Op: t.Op, Name: t.Name, V: t.V}
	for _, a := range t.Args {
		n.Args = append(n.Args, a.Subst(m))
	}
	return normalize(n)
}

// Walk visits all subterms.
func (t *Term) Walk(f func(*Term)) {
	if t == nil {
		return
	}
	f(t)
	for _, a := range t.Args {
		a.Walk(f)
	}
}

// Field returns the field name if t is a field selection, with its base.
func (t *Term) Field() (string, *Term) {
	if t != nil && t.Op == "." {
		return t.Name, t.Args[0]
	}
	return "", nil
}

// FieldChain returns root and the selected names, e.g. p:round.temp.m → (p:round, [temp m]).
func (t *Term) FieldChain() (*Term, []string) {
	var names []string
	for t != nil && t.Op == "." {
		names = append([]string{t.Name}, names...)
		t = t.Args[0]
	}
	return t, names
}

const big_ = "(*math/big.Int)."
const modI = "(*" + ModPath + "/common.modInt)."

type memoKey struct {
	v  ssa.Value
	at ssa.Instruction
}

type termBuilder struct {
	memo map[memoKey]*Term
	at   ssa.Instruction // use site for big.Int object state (nil = none)
}

// TermOf builds the canonical term of v. *big.Int names that may be read after
// a later in-place mutation of their object become opaque ("stale") leaves.
func TermOf(v ssa.Value) *Term {
	tb := &termBuilder{memo: map[memoKey]*Term{}}
	return tb.of(v, 0)
}

// TermAt builds the term of v as read by instruction `at`: a *big.Int denotes
// the state of its object at that site (the last dominating in-place setter).
func TermAt(v ssa.Value, at ssa.Instruction) *Term {
	tb := &termBuilder{memo: map[memoKey]*Term{}, at: at}
	return tb.of(v, 0)
}

func opaque(v ssa.Value) *Term {
	name := v.Name()
	if in, ok := v.(ssa.Instruction); ok && in.Parent() != nil {
		name = in.Parent().Name() + "." + v.Name()
	} else if v.Parent() != nil {
		name = v.Parent().Name() + "." + v.Name()
	}
	return &Term{Op: "opaque", V: v, Name: name}
}

func (tb *termBuilder) of(v ssa.Value, d int) *Term {
	if v == nil {
		return &Term{Op: "nil"}
	}
	key := memoKey{v: v}
	sv := Strip(v)
	mutable := false
	if isBigPtr(sv.Type()) {
		if muts := BigMuts(BigRoot(sv)); len(muts) > 0 {
			mutable = true
			key.at = tb.at
		}
	}
	if t, ok := tb.memo[key]; ok {
		return t
	}
	if d > 40 {
		return opaque(v)
	}
	tb.memo[key] = opaque(v) // cycle guard (phis)
	var t *Term
	if mutable {
		t = tb.bigState(sv, d)
	}
	if t == nil {
		t = normalize(tb.build(v, d))
	}
	if t.V == nil && len(t.Args) > 0 {
		// remember which SSA value an interior node came from (not for leaves shared by Strip)
		t = &Term{Op: t.Op, Args: t.Args, Name: t.Name, V: sv}
	}
	tb.memo[key] = t
	return t
}

// bigState resolves a *big.Int whose object is mutated in place. nil = fall
// back to the functional reading of v (safe because no later mutation is read through v).
func (tb *termBuilder) bigState(v ssa.Value, d int) *Term {
	if tb.at == nil || tb.at.Parent() != v.Parent() {
		if c, ok := v.(*ssa.Call); ok && BigSetter(c) {
			if bigStale(c) {
				return &Term{Op: "opaque", V: v, Name: "stale:" + opaque(v).Name}
			}
			return nil
		}
		// the object itself (allocation, NewInt) read somewhere after a mutation: needs a site
		root := BigRoot(v)
		if root == v {
			muts := BigMuts(root)
			if refs := v.Referrers(); refs != nil {
				for _, u := range *refs {
					for _, m := range muts {
						if u != ssa.Instruction(m) && u.Parent() == m.Parent() && InstrReaches(m, u) {
							return &Term{Op: "opaque", V: v, Name: "stale:" + opaque(v).Name}
						}
					}
				}
			}
		}
		return nil
	}
	m, ok := bigStateAt(v, tb.at)
	if !ok {
		return &Term{Op: "opaque", V: v, Name: "ambiguous-state:" + opaque(v).Name}
	}
	if m == nil {
		// initial state of the object
		root := BigRoot(v)
		if root == v {
			return nil
		}
		return tb.of(root, d+1)
	}
	if ssa.Value(m) == v {
		return nil // v is exactly the state-defining call
	}
	return normalize(tb.call(m, d+1))
}

func (tb *termBuilder) build(v ssa.Value, d int) *Term {
	v = Strip(v)
	switch x := v.(type) {
	case *ssa.Parameter:
		return &Term{Op: "param", V: x, Name: x.Name()}
	case *ssa.Const:
		if x.Value == nil {
			return &Term{Op: "nil"}
		}
		return &Term{Op: "const", V: x, Name: x.Value.ExactString()}
	case *ssa.Global:
		return &Term{Op: "global", V: x, Name: x.String()}
	case *ssa.UnOp:
		if x.Op == token.MUL {
			if g, ok := x.X.(*ssa.Global); ok {
				return &Term{Op: "global", V: g, Name: g.String()}
			}
			if fr := AsFieldAddr(x.X); fr != nil {
				return tb.fieldSel(fr, d)
			}
			if ia, ok := x.X.(*ssa.IndexAddr); ok {
				return &Term{Op: "[]", Args: []*Term{tb.of(ia.X, d+1), tb.of(ia.Index, d+1)}}
			}
		}
		if x.Op == token.SUB {
			return &Term{Op: "neg", Args: []*Term{tb.of(x.X, d+1)}}
		}
	case *ssa.FieldAddr:
		// the address of a field denotes the same path as the field (arrays indexed through &x.f)
		if fr := AsFieldAddr(x); fr != nil {
			return tb.fieldSel(fr, d)
		}
	case *ssa.Field:
		if fr := AsFieldLoad(x); fr != nil {
			return &Term{Op: ".", Name: fr.Name, Args: []*Term{tb.of(fr.Base, d+1)}}
		}
	case *ssa.Index:
		return &Term{Op: "[]", Args: []*Term{tb.of(x.X, d+1), tb.of(x.Index, d+1)}}
	case *ssa.Convert:
		return tb.of(x.X, d+1)
	case *ssa.Extract:
		// a result of a private helper on which all its success returns agree (g, q := generatorAndOrder(ec)):
		// the helper's own term with its parameters replaced by this call's arguments
		if c, ok := x.Tuple.(*ssa.Call); ok && d < 30 {
			if r := helperResult(c, x.Index); r != nil {
				if h := Callee(c); h != nil {
					sub := map[*ssa.Parameter]*Term{}
					for i, p := range h.Params {
						if i < len(c.Call.Args) {
							sub[p] = tb.of(c.Call.Args[i], d+1)
						}
					}
					inner := (&termBuilder{memo: map[memoKey]*Term{}}).of(r, d+1)
					if !inner.HasOpaque() {
						return inner.Subst(sub)
					}
				}
			}
		}
		return &Term{Op: "extract", Name: fmt.Sprint(x.Index), Args: []*Term{tb.of(x.Tuple, d+1)}}
	case *ssa.BinOp:
		return &Term{Op: "bin" + x.Op.String(), Args: []*Term{tb.of(x.X, d+1), tb.of(x.Y, d+1)}}
	case *ssa.Slice:
		if x.Low == nil && x.High == nil && x.Max == nil {
			return tb.of(x.X, d+1)
		}
	case *ssa.Call:
		return tb.call(x, d)
	}
	return opaque(v)
}

func (tb *termBuilder) fieldSel(fr *FieldRef, d int) *Term {
	base := fr.Base
	// &x.a.b chains (value-embedded structs)
	if inner := AsFieldAddr(base); inner != nil {
		return &Term{Op: ".", Name: fr.Name, Args: []*Term{tb.fieldSel(inner, d+1)}}
	}
	return &Term{Op: ".", Name: fr.Name, Args: []*Term{tb.of(base, d+1)}}
}

func (tb *termBuilder) call(c *ssa.Call, d int) *Term {
	name := CalleeName(c)
	args := c.Call.Args
	// arguments are read at the call: big.Int objects denote their state there
	saved := tb.at
	tb.at = c
	defer func() { tb.at = saved }()
	arg := func(i int) *Term { return tb.of(args[i], d+1) }
	if strings.HasPrefix(name, big_) {
		m := strings.TrimPrefix(name, big_)
		switch m {
		case "Mul", "Add", "Sub", "Mod", "Div", "Quo", "Rem":
			return &Term{Op: m, Args: []*Term{arg(1), arg(2)}}
		case "Exp":
			if IsNilConst(Strip(args[3])) {
				return &Term{Op: "Pow", Args: []*Term{arg(1), arg(2)}}
			}
			return &Term{Op: "ModExp", Args: []*Term{arg(1), arg(2), arg(3)}}
		case "ModInverse":
			return &Term{Op: "ModInv", Args: []*Term{arg(1), arg(2)}}
		case "Sqrt", "Set", "Neg", "Abs":
			if m == "Set" {
				return arg(1)
			}
			return &Term{Op: m, Args: []*Term{arg(1)}}
		case "Lsh", "Rsh":
			return &Term{Op: m, Args: []*Term{arg(1), arg(2)}}
		case "GCD":
			return &Term{Op: "GCD", Args: []*Term{arg(3), arg(4)}}
		case "SetBytes":
			return &Term{Op: "SetBytes", Args: []*Term{arg(1)}}
		case "SetInt64", "SetUint64":
			return &Term{Op: "int", Args: []*Term{arg(1)}}
		case "Bytes", "BitLen", "Sign", "Bit", "Cmp", "Int64", "Uint64", "ProbablyPrime", "String":
			var as []*Term
			for i := range args {
				as = append(as, arg(i))
			}
			return &Term{Op: "call:" + m, Args: as}
		}
	}
	if name == "math/big.Jacobi" {
		return &Term{Op: "call:Jacobi", Args: []*Term{arg(0), arg(1)}}
	}
	if name == "math/big.NewInt" {
		return &Term{Op: "int", Args: []*Term{arg(0)}}
	}
	if strings.HasPrefix(name, modI) {
		m := strings.TrimPrefix(name, modI)
		mod := tb.modulusOf(args[0], d)
		switch m {
		case "Add", "Sub", "Mul", "Div":
			return &Term{Op: "Mod", Args: []*Term{{Op: m, Args: []*Term{arg(1), arg(2)}}, mod}}
		case "Exp":
			return &Term{Op: "ModExp", Args: []*Term{arg(1), arg(2), mod}}
		case "ModInverse":
			return &Term{Op: "ModInv", Args: []*Term{arg(1), mod}}
		}
	}
	if name == ModPath+"/common.RejectionSample" {
		return &Term{Op: "Mod", Args: []*Term{arg(1), arg(0)}}
	}
	if pureCall(name) {
		var as []*Term
		if c.Call.IsInvoke() {
			as = append(as, tb.of(c.Call.Value, d+1))
		}
		for i := range args {
			as = append(as, arg(i))
		}
		short := name
		if i := strings.LastIndex(short, "."); i >= 0 {
			short = short[i+1:]
		}
		short = strings.TrimPrefix(short, "builtin:")
		return &Term{Op: "call:" + short, Args: as}
	}
	// a single-result private helper all of whose success returns hand back one value (a computation
	// factored out of its caller): the helper's own term with its parameters replaced by the arguments
	if h := Callee(c); h != nil && !c.Call.IsInvoke() && c.Call.Signature().Results().Len() == 1 && d < 30 && !inlineTermBusy[h] {
		if r := helperResult(c, 0); r != nil {
			inlineTermBusy[h] = true
			inner := (&termBuilder{memo: map[memoKey]*Term{}}).of(r, d+1)
			delete(inlineTermBusy, h)
			if !inner.HasOpaque() {
				sub := map[*ssa.Parameter]*Term{}
				for i, p := range h.Params {
					if i < len(args) {
						sub[p] = arg(i)
					}
				}
				return inner.Subst(sub)
			}
		}
	}
	return opaque(c)
}

var inlineTermBusy = map[*ssa.Function]bool{}

// modulusOf: the *big.Int wrapped by common.ModInt(m).
func (tb *termBuilder) modulusOf(v ssa.Value, d int) *Term {
	v = Strip(v)
	if c, ok := IsCallTo(v, "~/common.ModInt"); ok {
		return tb.of(c.Call.Args[0], d+1)
	}
	if cv, ok := v.(*ssa.Convert); ok {
		return tb.of(cv.X, d+1)
	}
	return tb.of(v, d+1)
}

// normalize flattens and sorts commutative operators and folds small constants.
func normalize(t *Term) *Term {
	switch t.Op {
	case "Mul", "Add":
		var flat []*Term
		for _, a := range t.Args {
			if a.Op == t.Op {
				flat = append(flat, a.Args...)
			} else {
				flat = append(flat, a)
			}
		}
		sort.SliceStable(flat, func(i, j int) bool { return flat[i].Key() < flat[j].Key() })
		return &Term{Op: t.Op, Args: flat}
	case "Pow":
		// x^k for small constant k → Mul(x,…,x)
		if k, ok := termInt(t.Args[1]); ok && k >= 1 && k <= 16 {
			var as []*Term
			for i := int64(0); i < k; i++ {
				as = append(as, t.Args[0])
			}
			if k == 1 {
				return t.Args[0]
			}
			return normalize(&Term{Op: "Mul", Args: as})
		}
	case "Div", "Quo":
		// x / 2 ≡ x >> 1
		if k, ok := termInt(t.Args[1]); ok && k == 2 {
			return &Term{Op: "Rsh", Args: []*Term{t.Args[0], {Op: "const", Name: "1"}}}
		}
	case "int":
		if t.Args[0].Op == "const" {
			return &Term{Op: "const", Name: t.Args[0].Name}
		}
	}
	return t
}

// termInt: integer constant value of a term (const, big.NewInt(const), global zero/one/two by name).
func termInt(t *Term) (int64, bool) {
	switch t.Op {
	case "const":
		var k int64
		if _, err := fmt.Sscan(t.Name, &k); err == nil {
			return k, true
		}
	case "int":
		return termInt(t.Args[0])
	case "global":
		switch {
		case strings.HasSuffix(t.Name, ".zero"):
			return 0, true
		case strings.HasSuffix(t.Name, ".one"):
			return 1, true
		case strings.HasSuffix(t.Name, ".two"):
			return 2, true
		case strings.HasSuffix(t.Name, ".eight"):
			return 8, true
		}
	}
	return 0, false
}

// TermInt is the exported form of termInt.
func TermInt(t *Term) (int64, bool) { return termInt(t) }

// PowerOf: if t is base^k (k≥1) returns base,k. A non-product is base^1.
func PowerOf(t *Term) (*Term, int) {
	if t.Op != "Mul" {
		return t, 1
	}
	b := t.Args[0]
	for _, a := range t.Args {
		if a.Key() != b.Key() {
			return t, 1
		}
	}
	return b, len(t.Args)
}

// IsCurveOrder: t is <curve>.Params().N for some curve expression.
func IsCurveOrder(t *Term) bool {
	if t.Op == "." && t.Name == "N" {
		b := t.Args[0]
		if b.Op == "call:Params" {
			return true
		}
	}
	return false
}

// IsFieldOf: t is field `name` selected (possibly through embedded hops) from root r.
func IsFieldOf(t *Term, root *Term, name string) bool {
	if t.Op != "." || t.Name != name {
		return false
	}
	b := t.Args[0]
	for b.Op == "." && b.Key() != root.Key() {
		b = b.Args[0]
	}
	return b.Key() == root.Key()
}

// ---- facts in term form -----------------------------------------------------

type TFact struct {
	Kind FactKind
	X, Y *Term
	Ord  Ord
	Bool bool
	Call *ssa.Call // for FCall
	Via  string    // helper chain the fact was obtained through
	Pos  token.Pos
}

func (f TFact) String() string {
	switch f.Kind {
	case FCmp:
		return fmt.Sprintf("Cmp(%s, %s) ∈ %s", f.X, f.Y, f.Ord)
	case FSign:
		return fmt.Sprintf("Sign(%s) ∈ %s", f.X, f.Ord)
	case FInt:
		return fmt.Sprintf("%s ? %s ∈ %s", f.X, f.Y, f.Ord)
	case FNil:
		return fmt.Sprintf("isnil(%s)=%v", f.X, f.Bool)
	case FCall:
		return fmt.Sprintf("%s(…)=%v", CalleeName(f.Call), f.Bool)
	}
	return fmt.Sprintf("%s=%v", f.X, f.Bool)
}

func toTFact(f Fact) TFact {
	tf := TFact{Kind: f.Kind, Ord: f.Ord, Bool: f.Bool}
	if f.If != nil {
		tf.Pos = InstrPos(f.If)
	}
	if f.Kind == FCall {
		tf.Call = f.X.(*ssa.Call)
		tf.Pos = tf.Call.Pos()
		return tf
	}
	if f.X != nil {
		tf.X = TermAt(f.X, f.At)
	}
	if f.Y != nil {
		tf.Y = TermAt(f.Y, f.At)
	}
	return tf
}

// TFactsAt returns the facts at the start of block b in term form, with boolean
// helper calls to module functions expanded through their return summaries up
// to the given depth (parameters substituted by the call's arguments).
func TFactsAt(b *ssa.BasicBlock, depth int) []TFact {
	out := ExpandFacts(FactsAt(b), depth)
	// a private helper inherits what all its call sites established (see CallerFacts)
	if fn := b.Parent(); fn != nil && fn.Parent() == nil && PrivateHelper(fn) {
		if cf := CallerFacts(fn); len(cf) > 0 {
			out = append(append([]TFact{}, out...), cf...)
		}
	}
	return out
}

func ExpandFacts(fs []Fact, depth int) []TFact {
	var out []TFact
	for _, f := range fs {
		tf := toTFact(f)
		out = append(out, tf)
		if f.Kind == FCall && depth > 0 {
			out = append(out, expandCall(tf.Call, 0, f.Bool, depth, CalleeShort(tf.Call))...)
		}
		if f.Kind == FNil && f.Bool && depth > 0 {
			if c, ri := nilResultCall(f.X); c != nil {
				out = append(out, expandNilErr(c, ri, depth, CalleeShort(c))...)
			}
		}
	}
	return out
}

// expandNilErr: `err == nil` for the error result of a module function establishes what all of its
// success returns have in common.
func expandNilErr(c *ssa.Call, ri int, depth int, via string) []TFact {
	callee := Callee(c)
	if callee == nil || callee.Blocks == nil || c.Call.IsInvoke() {
		return nil
	}
	if callee.Pkg == nil || callee.Pkg.Pkg == nil || !strings.HasPrefix(callee.Pkg.Pkg.Path(), ModPath) {
		return nil
	}
	facts, ok := ReturnFactsNilErr(callee, ri)
	if !ok {
		return nil
	}
	return substFacts(c, callee, facts, depth, via)
}

// CalleeShort gives "pkg.Func" / "T.M" for messages.
func CalleeShort(c ssa.CallInstruction) string {
	n := CalleeName(c)
	n = strings.ReplaceAll(n, ModPath+"/", "")
	return n
}

func expandCall(c *ssa.Call, ri int, want bool, depth int, via string) []TFact {
	callee := Callee(c)
	if callee == nil || callee.Blocks == nil || !strings.HasPrefix(FullName(callee), "") {
		return nil
	}
	if callee.Pkg == nil || callee.Pkg.Pkg == nil || !strings.HasPrefix(callee.Pkg.Pkg.Path(), ModPath) {
		return nil
	}
	facts, ok := ReturnFacts(callee, ri, want)
	if !ok {
		return nil
	}
	return substFacts(c, callee, facts, depth, via)
}

func substFacts(c *ssa.Call, callee *ssa.Function, facts []Fact, depth int, via string) []TFact {
	sub := map[*ssa.Parameter]*Term{}
	for i, p := range callee.Params {
		if i < len(c.Call.Args) {
			sub[p] = TermOf(c.Call.Args[i])
		}
	}
	var out []TFact
	for _, f := range facts {
		tf := toTFact(f)
		tf.Via = via
		if tf.X != nil {
			tf.X = tf.X.Subst(sub)
		}
		if tf.Y != nil {
			tf.Y = tf.Y.Subst(sub)
		}
		tf.Pos = c.Pos()
		out = append(out, tf)
		var inner []TFact
		if f.Kind == FCall && depth > 1 {
			// nested helper: expand in the callee's frame, then substitute
			inner = expandCall(tf.Call, 0, f.Bool, depth-1, via+">"+CalleeShort(tf.Call))
		}
		if f.Kind == FNil && f.Bool && depth > 1 {
			if c2, ri2 := nilResultCall(f.X); c2 != nil {
				inner = expandNilErr(c2, ri2, depth-1, via+">"+CalleeShort(c2))
			}
		}
		{
			for _, g := range inner {
				if g.X != nil {
					g.X = g.X.Subst(sub)
				}
				if g.Y != nil {
					g.Y = g.Y.Subst(sub)
				}
				g.Pos = c.Pos()
				out = append(out, g)
			}
		}
	}
	return out
}

// ---- fact queries -------------------------------------------------------------

// ExcludesCmp: do the facts guarantee that Cmp(x,y) ∉ reject, where x and y are
// recognised by the matchers? Returns the witnessing fact.
func ExcludesCmp(facts []TFact, isX, isY func(*Term) bool, reject Ord) (TFact, bool) {
	possible := Any
	var wit TFact
	found := false
	for _, f := range facts {
		if f.Kind != FCmp || f.X == nil || f.Y == nil {
			continue
		}
		var o Ord
		switch {
		case isX(f.X) && isY(f.Y):
			o = f.Ord
		case isX(f.Y) && isY(f.X):
			o = f.Ord.Flip()
		default:
			continue
		}
		if possible&o != possible {
			possible &= o
			if !found || possible&reject == 0 {
				wit = f
			}
			found = true
		}
	}
	if found && possible&reject == 0 {
		return wit, true
	}
	return wit, false
}

// PossibleCmp returns the orderings of Cmp(x,y) still possible under the facts.
func PossibleCmp(facts []TFact, isX, isY func(*Term) bool) Ord {
	possible := Any
	for _, f := range facts {
		if f.Kind != FCmp || f.X == nil || f.Y == nil {
			continue
		}
		switch {
		case isX(f.X) && isY(f.Y):
			possible &= f.Ord
		case isX(f.Y) && isY(f.X):
			possible &= f.Ord.Flip()
		}
	}
	return possible
}

// PossibleIntCmp: orderings of machine-integer x relative to constant k still possible.
func PossibleIntCmp(facts []TFact, isX func(*Term) bool, k int64) Ord {
	possible := PossibleIntCmpT(facts, isX, func(t *Term) bool { v, ok := termInt(t); return ok && v == k })
	// facts against other constants bound x to an interval
	const inf = int64(1) << 62
	lo, hi := -inf, inf
	for _, f := range facts {
		if f.Kind != FInt || f.X == nil || f.Y == nil {
			continue
		}
		var c int64
		var o Ord
		if v, ok := termInt(f.Y); ok && isX(f.X) {
			c, o = v, f.Ord
		} else if v, ok := termInt(f.X); ok && isX(f.Y) {
			c, o = v, f.Ord.Flip()
		} else {
			continue
		}
		switch o {
		case GT:
			if c+1 > lo {
				lo = c + 1
			}
		case GT | EQ:
			if c > lo {
				lo = c
			}
		case LT:
			if c-1 < hi {
				hi = c - 1
			}
		case LT | EQ:
			if c < hi {
				hi = c
			}
		case EQ:
			if c > lo {
				lo = c
			}
			if c < hi {
				hi = c
			}
		}
	}
	if !(lo < k) {
		possible &^= LT
	}
	if !(lo <= k && k <= hi) {
		possible &^= EQ
	}
	if !(hi > k) {
		possible &^= GT
	}
	return possible
}

// PossibleIntCmpT: orderings of machine-integer x relative to y still possible.
func PossibleIntCmpT(facts []TFact, isX, isY func(*Term) bool) Ord {
	possible := Any
	for _, f := range facts {
		if f.Kind != FInt || f.X == nil || f.Y == nil {
			continue
		}
		switch {
		case isX(f.X) && isY(f.Y):
			possible &= f.Ord
		case isX(f.Y) && isY(f.X):
			possible &= f.Ord.Flip()
		}
	}
	return possible
}

// IsZeroTerm: constant 0 big.Int (global zero, big.NewInt(0)).
func IsZeroTerm(t *Term) bool { k, ok := termInt(t); return ok && k == 0 }
func IsOneTerm(t *Term) bool  { k, ok := termInt(t); return ok && k == 1 }

// PossibleSign returns the possible signs of x under the facts (Sign facts and Cmp-with-zero facts).
func PossibleSign(facts []TFact, isX func(*Term) bool) Ord {
	possible := Any
	for _, f := range facts {
		switch f.Kind {
		case FSign:
			if isX(f.X) {
				possible &= f.Ord
			}
		case FCmp:
			if isX(f.X) && IsZeroTerm(f.Y) {
				possible &= f.Ord
			} else if isX(f.Y) && IsZeroTerm(f.X) {
				possible &= f.Ord.Flip()
			}
		}
	}
	return possible
}

// HasCallFact: a call to one of names returned want on the way here; returns it.
func HasCallFact(facts []TFact, want bool, names ...string) (*ssa.Call, bool) {
	for _, f := range facts {
		if f.Kind == FCall && f.Bool == want && CallIs(f.Call, names...) {
			return f.Call, true
		}
	}
	return nil, false
}

// HasNilFact: value matching isX is known nil (wantNil) / non-nil.
func HasNilFact(facts []TFact, isX func(*Term) bool, wantNil bool) bool {
	for _, f := range facts {
		if f.Kind == FNil && f.Bool == wantNil && f.X != nil && isX(f.X) {
			return true
		}
	}
	return false
}

func KeyIs(t *Term) func(*Term) bool {
	k := t.Key()
	return func(u *Term) bool { return u.Key() == k }
}
