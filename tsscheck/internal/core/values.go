package core

import (
	"fmt"
	"go/constant"
	"go/token"
	"go/types"
	"strings"

	"golang.org/x/tools/go/ssa"
)

// Callee resolves the static callee of a call instruction (function, method or
// immediately-known closure); nil for dynamic calls.
func Callee(c ssa.CallInstruction) *ssa.Function {
	cc := c.Common()
	if f := cc.StaticCallee(); f != nil {
		return f
	}
	// closure stored in a single-store local: r := func(){}; r(...)
	if !cc.IsInvoke() {
		if mc, ok := Strip(cc.Value).(*ssa.MakeClosure); ok {
			if f, ok := mc.Fn.(*ssa.Function); ok {
				return f
			}
		}
	}
	return nil
}

// InvokeMethod returns the interface method of an invoke-mode call.
func InvokeMethod(c ssa.CallInstruction) *types.Func {
	cc := c.Common()
	if cc.IsInvoke() {
		return cc.Method
	}
	return nil
}

// CalleeName returns a printable identity "pkgpath.Func" or "(pkgpath.T).M" for
// static callees and "iface:pkgpath.I.M" for invokes.
func CalleeName(c ssa.CallInstruction) string {
	if f := Callee(c); f != nil {
		return FullName(f)
	}
	if m := InvokeMethod(c); m != nil {
		return "iface:" + m.FullName()
	}
	if b, ok := c.Common().Value.(*ssa.Builtin); ok {
		return "builtin:" + b.Name()
	}
	return ""
}

// FullName is types.Func.FullName for declared functions, e.g.
// "(*math/big.Int).Cmp", "github.com/.../common.SHA512_256i".
func FullName(f *ssa.Function) string {
	if f == nil {
		return ""
	}
	if o, ok := f.Object().(*types.Func); ok && o != nil {
		return o.FullName()
	}
	return f.String()
}

// IsCallTo reports whether instruction v is a call whose resolved callee has
// one of the given full names; module-relative names may be abbreviated with a
// leading "~/" for the module path.
func IsCallTo(v ssa.Value, names ...string) (*ssa.Call, bool) {
	c, ok := v.(*ssa.Call)
	if !ok {
		return nil, false
	}
	n := CalleeName(c)
	for _, want := range names {
		if n == expandName(want) {
			return c, true
		}
	}
	return c, false
}

func expandName(n string) string {
	return strings.ReplaceAll(n, "~/", ModPath+"/")
}

// CallIs is IsCallTo for CallInstruction (go/defer included).
func CallIs(c ssa.CallInstruction, names ...string) bool {
	n := CalleeName(c)
	for _, want := range names {
		if n == expandName(want) {
			return true
		}
	}
	return false
}

// Strip peels representation-only wrappers and forwards loads of single-store
// local allocations (spilled parameters / captured variables) to the stored value.
func Strip(v ssa.Value) ssa.Value {
	for i := 0; i < 50; i++ {
		switch x := v.(type) {
		case *ssa.ChangeType:
			v = x.X
		case *ssa.MakeInterface:
			v = x.X
		case *ssa.ChangeInterface:
			v = x.X
		case *ssa.UnOp:
			if x.Op != token.MUL {
				return v
			}
			if s := singleStore(x.X); s != nil {
				v = s
				continue
			}
			return v
		default:
			return v
		}
	}
	return v
}

// singleStore: if addr is an Alloc (or a FreeVar bound to an Alloc) that has
// exactly one Store anywhere (function and its closures), return the stored value.
func singleStore(addr ssa.Value) ssa.Value {
	a := allocOf(addr)
	if a == nil {
		return nil
	}
	var stored ssa.Value
	n := 0
	ok := true
	visitAllocUses(a, func(in ssa.Instruction, self ssa.Value) {
		switch u := in.(type) {
		case *ssa.Store:
			if u.Addr == self {
				n++
				stored = u.Val
			} else {
				ok = false // address escapes as a stored value
			}
		case *ssa.UnOp, *ssa.MakeClosure, *ssa.DebugRef:
		default:
			ok = false
		}
	})
	if !ok || n != 1 {
		return nil
	}
	return stored
}

func allocOf(addr ssa.Value) *ssa.Alloc {
	switch x := addr.(type) {
	case *ssa.Alloc:
		return x
	case *ssa.FreeVar:
		fn := x.Parent()
		par := fn.Parent()
		if par == nil {
			return nil
		}
		idx := -1
		for i, fv := range fn.FreeVars {
			if fv == x {
				idx = i
			}
		}
		if idx < 0 {
			return nil
		}
		// find the MakeClosure(s) of fn in parent; all must bind the same value
		var bound ssa.Value
		for _, b := range par.Blocks {
			for _, in := range b.Instrs {
				if mc, ok := in.(*ssa.MakeClosure); ok && mc.Fn == fn {
					if bound != nil && bound != mc.Bindings[idx] {
						return nil
					}
					bound = mc.Bindings[idx]
				}
			}
		}
		if bound == nil {
			return nil
		}
		return allocOf(bound)
	}
	return nil
}

// visitAllocUses visits every instruction using the alloc directly or through a
// closure free variable bound to it.
func visitAllocUses(a *ssa.Alloc, f func(in ssa.Instruction, self ssa.Value)) {
	var visit func(v ssa.Value, depth int)
	visit = func(v ssa.Value, depth int) {
		refs := v.Referrers()
		if refs == nil {
			return
		}
		for _, in := range *refs {
			f(in, v)
			if mc, ok := in.(*ssa.MakeClosure); ok && depth < 4 {
				fn := mc.Fn.(*ssa.Function)
				for i, b := range mc.Bindings {
					if b == v {
						visit(fn.FreeVars[i], depth+1)
					}
				}
			}
		}
	}
	visit(a, 0)
}

// FieldRef describes a load of / address of a struct field.
type FieldRef struct {
	Struct *types.Struct
	Owner  types.Type // the (possibly named) struct type
	Name   string
	Index  int
	Base   ssa.Value // the struct pointer / value the field is taken from
}

func (f *FieldRef) String() string {
	return typeShort(f.Owner) + "." + f.Name
}

func typeShort(t types.Type) string {
	if p, ok := t.(*types.Pointer); ok {
		t = p.Elem()
	}
	if n, ok := t.(*types.Named); ok {
		if n.Obj().Pkg() != nil {
			return strings.TrimPrefix(n.Obj().Pkg().Path(), ModPath+"/") + "." + n.Obj().Name()
		}
		return n.Obj().Name()
	}
	return t.String()
}

// AsFieldAddr decodes a FieldAddr.
func AsFieldAddr(v ssa.Value) *FieldRef {
	fa, ok := v.(*ssa.FieldAddr)
	if !ok {
		return nil
	}
	pt, ok := fa.X.Type().Underlying().(*types.Pointer)
	if !ok {
		return nil
	}
	st, ok := pt.Elem().Underlying().(*types.Struct)
	if !ok {
		return nil
	}
	return &FieldRef{Struct: st, Owner: pt.Elem(), Name: st.Field(fa.Field).Name(), Index: fa.Field, Base: fa.X}
}

// AsFieldLoad decodes `*(&x.f)` or `x.f` (value struct).
func AsFieldLoad(v ssa.Value) *FieldRef {
	v = Strip(v)
	switch x := v.(type) {
	case *ssa.UnOp:
		if x.Op == token.MUL {
			return AsFieldAddr(x.X)
		}
	case *ssa.Field:
		st, ok := x.X.Type().Underlying().(*types.Struct)
		if !ok {
			return nil
		}
		return &FieldRef{Struct: st, Owner: x.X.Type(), Name: st.Field(x.Field).Name(), Index: x.Field, Base: x.X}
	}
	return nil
}

// FieldPath returns the chain of field names from a root value, e.g. for
// round.temp.m in a method of *round9 → root=round, ["round8",...,"base","temp","m"].
// Embedded hops are included. ok=false if v is not a pure field-load chain.
func FieldPath(v ssa.Value) (root ssa.Value, path []string, ok bool) {
	v = Strip(v)
	for i := 0; i < 40; i++ {
		fr := AsFieldLoad(v)
		if fr == nil {
			// FieldAddr chains through embedded *value* structs: &x.a.b → FieldAddr(FieldAddr(x,a),b)
			break
		}
		path = append([]string{fr.Name}, path...)
		b := fr.Base
		// walk address-of chains: FieldAddr(FieldAddr(...)) without loads
		for {
			if inner := AsFieldAddr(b); inner != nil {
				path = append([]string{inner.Name}, path...)
				b = inner.Base
				continue
			}
			break
		}
		v = Strip(b)
	}
	if len(path) == 0 {
		return v, nil, false
	}
	return v, path, true
}

// LastFields returns the trailing n field names of a field-load chain joined by ".".
func LastFields(v ssa.Value, n int) string {
	_, p, ok := FieldPath(v)
	if !ok {
		return ""
	}
	if len(p) > n {
		p = p[len(p)-n:]
	}
	return strings.Join(p, ".")
}

// ConstInt returns the integer value of an SSA constant.
func ConstInt(v ssa.Value) (int64, bool) {
	c, ok := Strip(v).(*ssa.Const)
	if !ok || c.Value == nil {
		if cv, ok2 := Strip(v).(*ssa.Convert); ok2 {
			return ConstInt(cv.X)
		}
		return 0, false
	}
	if c.Value.Kind() != constant.Int {
		return 0, false
	}
	i, exact := constant.Int64Val(c.Value)
	return i, exact
}

func IsNilConst(v ssa.Value) bool {
	c, ok := v.(*ssa.Const)
	return ok && c.Value == nil
}

func ConstBool(v ssa.Value) (bool, bool) {
	c, ok := v.(*ssa.Const)
	if !ok || c.Value == nil || c.Value.Kind() != constant.Bool {
		return false, false
	}
	return constant.BoolVal(c.Value), true
}

// GlobalOf returns the global a value is loaded from (e.g. `zero`, `one`).
func GlobalOf(v ssa.Value) *ssa.Global {
	v = Strip(v)
	if u, ok := v.(*ssa.UnOp); ok && u.Op == token.MUL {
		if g, ok := u.X.(*ssa.Global); ok {
			return g
		}
	}
	return nil
}

// VKey is a structural key for a value such that two occurrences with the same
// key denote the same runtime value provided no store to the fields involved
// happens in between (checked by the rules that rely on it). Unique values get
// a key containing "@".
func VKey(v ssa.Value) string {
	return vkey(v, 0)
}

func vkey(v ssa.Value, d int) string {
	if d > 12 {
		return fmt.Sprintf("@deep%p", v)
	}
	v = Strip(v)
	switch x := v.(type) {
	case *ssa.Parameter:
		return "p:" + x.Name()
	case *ssa.FreeVar:
		return "fv:" + x.Name()
	case *ssa.Const:
		if x.Value == nil {
			return "nil"
		}
		return "c:" + x.Value.ExactString()
	case *ssa.Global:
		return "g:" + x.String()
	case *ssa.UnOp:
		if x.Op == token.MUL {
			if g, ok := x.X.(*ssa.Global); ok {
				return "g:" + g.String()
			}
			if fr := AsFieldAddr(x.X); fr != nil {
				return vkey(fr.Base, d+1) + "." + fr.Name
			}
			if ia, ok := x.X.(*ssa.IndexAddr); ok {
				return vkey(ia.X, d+1) + "[" + vkey(ia.Index, d+1) + "]"
			}
			return "*" + vkey(x.X, d+1)
		}
		return x.Op.String() + vkey(x.X, d+1)
	case *ssa.FieldAddr:
		fr := AsFieldAddr(x)
		return "&" + vkey(fr.Base, d+1) + "." + fr.Name
	case *ssa.Field:
		fr := AsFieldLoad(x)
		return vkey(fr.Base, d+1) + "." + fr.Name
	case *ssa.Convert:
		return "conv(" + vkey(x.X, d+1) + ")"
	case *ssa.Extract:
		return fmt.Sprintf("%s#%d", vkey(x.Tuple, d+1), x.Index)
	case *ssa.Call:
		name := CalleeName(x)
		if pureCall(name) {
			var args []string
			for _, a := range x.Call.Args {
				args = append(args, vkey(a, d+1))
			}
			if x.Call.IsInvoke() {
				args = append([]string{vkey(x.Call.Value, d+1)}, args...)
			}
			return name + "(" + strings.Join(args, ",") + ")"
		}
	case *ssa.Slice:
		if x.Low == nil && x.High == nil && x.Max == nil {
			return vkey(x.X, d+1) + "[:]"
		}
	}
	return fmt.Sprintf("@%s:%s", v.Name(), posKey(v))
}

func posKey(v ssa.Value) string {
	if in, ok := v.(ssa.Instruction); ok && in.Parent() != nil {
		return fmt.Sprintf("%s.b%d", in.Parent().Name(), in.Block().Index)
	}
	return fmt.Sprintf("%p", v)
}

// pureCall lists callees whose result is determined by their arguments and the
// (assumed immutable during the function) objects they read.
func pureCall(name string) bool {
	switch name {
	case "(*" + ModPath + "/crypto.ECPoint).X", "(*" + ModPath + "/crypto.ECPoint).Y",
		"(*" + ModPath + "/crypto.ECPoint).Curve",
		"(*" + ModPath + "/crypto/paillier.PublicKey).NSquare",
		"(*" + ModPath + "/crypto/paillier.PublicKey).Gamma",
		"(*" + ModPath + "/crypto/paillier.PublicKey).AsInts",
		"(*" + ModPath + "/tss.Parameters).EC", "(*" + ModPath + "/tss.Parameters).PartyID",
		"(*" + ModPath + "/tss.Parameters).Parties", "(*" + ModPath + "/tss.Parameters).Threshold",
		"(*" + ModPath + "/tss.Parameters).PartyCount",
		"(*" + ModPath + "/tss.ReSharingParameters).OldParties", "(*" + ModPath + "/tss.ReSharingParameters).NewParties",
		"(*" + ModPath + "/tss.PeerContext).IDs",
		"iface:(crypto/elliptic.Curve).Params", "(*crypto/elliptic.CurveParams).Params",
		"(*math/big.Int).Bytes", "(*math/big.Int).BitLen", "(*math/big.Int).Sign",
		"builtin:len":
		return true
	}
	if strings.HasSuffix(name, ").Params") && strings.Contains(name, "/") && strings.Contains(name, "round") {
		return true
	}
	return false
}

// InstrPos returns the best source position for an instruction.
func InstrPos(in ssa.Instruction) token.Pos {
	if in.Pos().IsValid() {
		return in.Pos()
	}
	// fall back to operands
	for _, op := range in.Operands(nil) {
		if *op != nil && (*op).Pos().IsValid() {
			return (*op).Pos()
		}
	}
	// then neighbours in the block
	b := in.Block()
	if b != nil {
		for _, o := range b.Instrs {
			if o.Pos().IsValid() {
				return o.Pos()
			}
		}
	}
	if in.Parent() != nil {
		return in.Parent().Pos()
	}
	return token.NoPos
}

// Calls returns every call instruction (call, go, defer) in fn, in block order.
func Calls(fn *ssa.Function) []ssa.CallInstruction {
	var out []ssa.CallInstruction
	for _, b := range fn.Blocks {
		for _, in := range b.Instrs {
			if c, ok := in.(ssa.CallInstruction); ok {
				out = append(out, c)
			}
		}
	}
	return out
}

// CallsTo returns the calls in fn (not closures) to callees with the given names.
func CallsTo(fn *ssa.Function, names ...string) []ssa.CallInstruction {
	var out []ssa.CallInstruction
	for _, c := range Calls(fn) {
		if CallIs(c, names...) {
			out = append(out, c)
		}
	}
	return out
}

// WithClosures returns fn and all anonymous functions nested in it.
func WithClosures(fn *ssa.Function) []*ssa.Function {
	out := []*ssa.Function{fn}
	for _, a := range fn.AnonFuncs {
		out = append(out, WithClosures(a)...)
	}
	return out
}

// Returns lists the Return instructions of fn.
func Returns(fn *ssa.Function) []*ssa.Return {
	var out []*ssa.Return
	for _, b := range fn.Blocks {
		if len(b.Instrs) == 0 {
			continue
		}
		if r, ok := b.Instrs[len(b.Instrs)-1].(*ssa.Return); ok {
			out = append(out, r)
		}
	}
	return out
}

// RecvOrArg returns the receiver (invoke or static method) of a call, or nil.
func Recv(c ssa.CallInstruction) ssa.Value {
	cc := c.Common()
	if cc.IsInvoke() {
		return cc.Value
	}
	if f := cc.StaticCallee(); f != nil && f.Signature.Recv() != nil && len(cc.Args) > 0 {
		return cc.Args[0]
	}
	return nil
}

// Args returns the non-receiver arguments of a call.
func Args(c ssa.CallInstruction) []ssa.Value {
	cc := c.Common()
	if cc.IsInvoke() {
		return cc.Args
	}
	if f := cc.StaticCallee(); f != nil && f.Signature.Recv() != nil && len(cc.Args) > 0 {
		return cc.Args[1:]
	}
	return cc.Args
}
