package rules

import (
	"fmt"
	"go/ast"
	"go/types"
	"strings"

	"golang.org/x/tools/go/ssa"

	"tsscheck/internal/core"
)

// bigSetterNames: math/big methods that overwrite their receiver.
var bigSetterNames = map[string]bool{
	"Add": true, "Sub": true, "Mul": true, "Div": true, "Quo": true, "Rem": true, "Mod": true, "Exp": true,
	"ModInverse": true, "ModSqrt": true, "Sqrt": true, "Neg": true, "Abs": true, "Lsh": true, "Rsh": true,
	"And": true, "Or": true, "Xor": true, "Not": true, "GCD": true,
}

// aliasedInPlaceUpdates (RA.1): an in-place math/big update `a.Op(…, b, …)` where `a` and `b` are
// two DIFFERENT variables in the source that hold the SAME *big.Int object (b := a was only a pointer
// copy). The update then overwrites the value the author still treats as an independent operand:
// `z := k; …; z.Mul(z, k)` squares instead of multiplying by k, and k changes with it. Writing the
// same variable twice (`z.Mul(z, z)`) is an intended squaring and is not reported. Decided on the
// type-checked syntax (which variable is named) joined with go/ssa (which object it holds).
func aliasedInPlaceUpdates(c *ctx, rule string, rels ...string) {
	n := 0
	for _, rel := range rels {
		var pkg = c.p.All[mod+"/"+rel]
		if pkg == nil {
			continue
		}
		// index the SSA calls of the package by the position of their '('
		byPos := map[int]*ssa.Call{}
		for _, fn := range c.p.FuncsOfPkg(rel) {
			for _, g := range core.WithClosures(fn) {
				for _, b := range g.Blocks {
					for _, in := range b.Instrs {
						if call, ok := in.(*ssa.Call); ok && call.Pos().IsValid() {
							byPos[int(call.Pos())] = call
						}
					}
				}
			}
		}
		for _, file := range pkg.Syntax {
			fname := c.p.Fset.Position(file.Pos()).Filename
			if strings.HasSuffix(fname, "_test.go") {
				continue
			}
			ast.Inspect(file, func(nd ast.Node) bool {
				ce, ok := nd.(*ast.CallExpr)
				if !ok {
					return true
				}
				sel, ok := ce.Fun.(*ast.SelectorExpr)
				if !ok || !bigSetterNames[sel.Sel.Name] {
					return true
				}
				s := pkg.TypesInfo.Selections[sel]
				if s == nil || s.Recv().String() != "*math/big.Int" {
					return true
				}
				recvID, ok := sel.X.(*ast.Ident)
				if !ok {
					return true
				}
				n++
				recvObj := pkg.TypesInfo.Uses[recvID]
				call := byPos[int(ce.Lparen)]
				if recvObj == nil || call == nil || len(call.Call.Args) != len(ce.Args)+1 {
					return true
				}
				for i, a := range ce.Args {
					id, isID := a.(*ast.Ident)
					if !isID {
						continue
					}
					obj := pkg.TypesInfo.Uses[id]
					if obj == nil || obj == recvObj {
						continue
					}
					if _, isVar := obj.(*types.Var); !isVar {
						continue
					}
					if core.BigRoot(call.Call.Args[0]) == core.BigRoot(call.Call.Args[i+1]) {
						fn := core.Outermost(call.Parent())
						key := fkey(rule, fn, "aliased-update:"+recvID.Name+"."+sel.Sel.Name+"(…"+id.Name+"…)")
						c.r.Bad(rule, key, c.pos(call), fmt.Sprintf("%s.%s(…) overwrites %s, but its operand %s is another name for the same *big.Int (a pointer copy, not a copy of the number): the operand changes under the update — e.g. a running power multiplied \"by k\" squares itself", recvID.Name, sel.Sel.Name, recvID.Name, id.Name))
					}
				}
				return true
			})
		}
	}
	c.r.Check(n > 0, rule, core.Key(rule, strings.Join(rels, ","), "-", "scanned"), "-", fmt.Sprintf("%d in-place math/big updates with a named receiver examined", n), "no in-place update found in the packages examined")
}
