package rules

import (
	"fmt"
	"go/token"
	"strings"

	"golang.org/x/tools/go/ssa"

	"tsscheck/internal/core"
)

func init() { Registry["C01"] = runC01 }

func runC01(p *core.Prog, r *core.Report) {
	c := &ctx{p, r}
	r.Explain = "ECDSA signing output (ecdsa/signing): (R01.1) the digest guard m >= N → error dominates every send of the first round, compares the very integer the constructor was given (the message field is written only by the constructor, with its own argument, unmodified) against the curve order of the party's curve; (R01.2) the single send on the result channel is dominated by the true edge of crypto/ecdsa.Verify whose (key, hash, r, s) are value-identical to what is emitted: key = (Params().EC(), key.ECDSAPub.X(), .Y()), hash = data.M, r = the integer whose bytes are stored in .R, s = the same big.Int object whose bytes are stored in .S with no mutation in between; (R01.3) s is replaced by N−s exactly on the ordering s > N>>1 and exactly that branch toggles bit 0 of the recovery id, whose other bits come from ry.Bit(0) and rx > N; (R01.4) .R and .S are left-padded to BitSize/8 by a helper whose every return has at least that length, .Signature = R‖S, .M is m.Bytes() or FillBytes over a buffer of the requested length."
	r.Undec = "that all signers output the same signature and that the sum of the s_i is a valid signature at all (Lagrange weights, MtA, phase-5 algebra), larger signer sets, schedules. The gate guarantees that whatever is emitted was accepted by the standard verifier under the group key."
	r.Assume = []string{"crypto/ecdsa.Verify is the independent standard verifier", "key.ECDSAPub is the group key produced by this library's keygen"}
	pr := ExtractProtocol(p, "ecdsa/signing")
	if len(pr.Rounds) == 0 {
		r.Unk("R01.0", core.Key("R01.0", "ecdsa/signing", "model", "rounds"), "ecdsa/signing", "round chain not extracted")
		return
	}
	c01Digest(c, pr)
	final := pr.Rounds[len(pr.Rounds)-1].Fns["Start"]
	if final == nil {
		return
	}
	c01Gate(c, final)
	c01LowS(c, final)
	c01Layout(c, final)
	r.Floor("R01.1", 3)
	r.Floor("R01.2", 5)
	r.Floor("R01.3", 3)
	r.Floor("R01.4", 5)
	aliasedInPlaceUpdates(c, "RA.1", "ecdsa/signing", "common")
	globalCurveCallers(c, "RG.1")
}

// storesToField: every Store in the module to field `name` of a struct type whose short name ends with owner.
func storesToField(p *core.Prog, rels []string, owner, name string) []*ssa.Store {
	var out []*ssa.Store
	for _, rel := range rels {
		for _, fn := range p.FuncsOfPkg(rel) {
			for _, b := range fn.Blocks {
				for _, in := range b.Instrs {
					if st, ok := in.(*ssa.Store); ok {
						if fr := core.AsFieldAddr(st.Addr); fr != nil && fr.Name == name && strings.HasSuffix(fr.String(), owner+"."+name) {
							out = append(out, st)
						}
					}
				}
			}
		}
	}
	return out
}

func c01Digest(c *ctx, pr *Protocol) {
	const rule = "R01.1"
	st := pr.Rounds[0].Fns["Start"]
	if st == nil {
		return
	}
	// (a) every send on `out` in the first round is dominated by m < N
	isM := func(t *T) bool { n, _ := t.Field(); return n == "m" && strings.Contains(t.Key(), "temp") }
	bad := ""
	n := 0
	for _, s := range pr.Rounds[0].Sends {
		n++
		facts := core.TFactsAt(s.Send.Block(), 1)
		if s.At != nil && s.At.Block() != s.Send.Block() {
			// the send sits in a private helper of Start: what dominates the helper's call dominates it
			facts = append(append([]core.TFact{}, facts...), core.TFactsAt(s.At.Block(), 1)...)
		}
		if core.PossibleCmp(facts, isM, core.IsCurveOrder)&(core.EQ|core.GT) != 0 {
			bad += fmt.Sprintf("the send at %s is reachable with m >= N; ", c.pos(s.Send))
		}
	}
	// also every call that can emit (none besides sends in this Start) — and the guard rejects with an error
	c.r.Check(bad == "" && n > 0, rule, fkey(rule, st, "digest-guard-before-send"), c.fpos(st), fmt.Sprintf("all %d sends of the first round are dominated by m < curve order", n), bad+"a digest not below the curve order must be refused before any message is sent")
	// the curve order compared against is the party's curve
	okCurve := false
	for _, b := range st.Blocks {
		if len(b.Instrs) == 0 {
			continue
		}
		if iff, ok := b.Instrs[len(b.Instrs)-1].(*ssa.If); ok {
			for _, f := range core.CondFacts(iff.Cond, true, iff) {
				if f.Kind == core.FCmp {
					for _, pair := range [][2]ssa.Value{{f.X, f.Y}, {f.Y, f.X}} {
						if d := descr(pair[1]); strings.HasSuffix(d, "EC().Params().N") && strings.HasPrefix(d, "Params()") || d == "EC().Params().N" {
							if isM(core.TermOf(pair[0])) {
								okCurve = true
							}
						}
					}
				}
			}
		}
	}
	c.r.Check(okCurve, rule, fkey(rule, st, "guard-uses-party-curve"), c.fpos(st), "the comparand is round.Params().EC().Params().N", "the digest is not compared against the order of the party's own curve")
	// (b) the message field is written only by the constructor with its own argument
	stores := storesToField(c.p, []string{"ecdsa/signing"}, "localTempData", "m")
	okStore := len(stores) == 1
	why := fmt.Sprintf("expected exactly one store to the message field, found %d", len(stores))
	if okStore {
		s := stores[0]
		fn := s.Parent()
		v := core.Strip(s.Val)
		if p, isP := v.(*ssa.Parameter); !isP || p.Parent() != fn || fn.Parent() != nil || !strings.HasPrefix(fn.Name(), "NewLocalParty") {
			okStore = false
			why = "the message field is set to " + descr(s.Val) + " in " + fn.Name() + ", not to the constructor's own digest argument: the range guard no longer judges the caller's digest"
		}
	}
	c.r.Check(okStore, rule, core.Key(rule, "ecdsa/signing", "localTempData.m", "set-once-from-constructor-argument"), "ecdsa/signing/local_party.go", "temp.m = msg, stored once, unmodified", why)
}

func c01Gate(c *ctx, fn *ssa.Function) {
	const rule = "R01.2"
	// the send on `end`
	var end *ssa.Send
	for _, b := range fn.Blocks {
		for _, in := range b.Instrs {
			if s, ok := in.(*ssa.Send); ok {
				if fr := core.AsFieldLoad(s.Chan); fr != nil && fr.Name == "end" {
					end = s
				}
			}
		}
	}
	if end == nil {
		c.r.Bad(rule, fkey(rule, fn, "gate"), c.fpos(fn), "no send on the result channel in the final round")
		return
	}
	verify, ok := core.HasCallFact(core.TFactsAt(end.Block(), 0), true, "crypto/ecdsa.Verify")
	if !ok {
		c.r.Bad(rule, fkey(rule, fn, "gate"), c.pos(end), "the signature is emitted on a path that does not pass a successful crypto/ecdsa.Verify")
		return
	}
	c.r.OK(rule, fkey(rule, fn, "gate"), c.pos(verify), "the send on the result channel is dominated by the true edge of ecdsa.Verify")
	// what is emitted: the data struct
	data := core.Strip(end.X)
	dataKey := core.TermOf(data).Key()
	fieldStore := func(name string) *ssa.Store {
		var found *ssa.Store
		for _, b := range fn.Blocks {
			for _, in := range b.Instrs {
				if st, ok := in.(*ssa.Store); ok {
					if fr := core.AsFieldAddr(st.Addr); fr != nil && fr.Name == name && core.TermOf(fr.Base).Key() == dataKey {
						found = st
					}
				}
			}
		}
		return found
	}
	// key
	pkOK := false
	pkWhy := "public key argument not recognised"
	if a, isA := core.Strip(verify.Call.Args[0]).(*ssa.Alloc); isA {
		sf := storedFields(a)
		dx, dy, dc := "", "", ""
		if sf["X"] != nil {
			dx = descr(sf["X"])
		}
		if sf["Y"] != nil {
			dy = descr(sf["Y"])
		}
		if sf["Curve"] != nil {
			dc = descr(sf["Curve"])
		}
		pkOK = dx == "key.ECDSAPub.X()" && dy == "key.ECDSAPub.Y()" && (dc == "Params().EC()" || dc == "EC()")
		pkWhy = fmt.Sprintf("verified under key (curve=%s, X=%s, Y=%s), expected the group key key.ECDSAPub on Params().EC()", dc, dx, dy)
	}
	c.r.Check(pkOK, rule, fkey(rule, fn, "verify-under-group-key"), c.pos(verify), "public key = (Params().EC(), key.ECDSAPub.X(), key.ECDSAPub.Y())", pkWhy)
	// hash = data.M
	hOK := false
	if fr := core.AsFieldLoad(verify.Call.Args[1]); fr != nil && fr.Name == "M" && core.TermOf(fr.Base).Key() == dataKey {
		hOK = true
		// every store to data.M precedes the verification
		for _, b := range fn.Blocks {
			for _, in := range b.Instrs {
				if st, ok := in.(*ssa.Store); ok {
					if f2 := core.AsFieldAddr(st.Addr); f2 != nil && f2.Name == "M" && core.TermOf(f2.Base).Key() == dataKey {
						if !core.InstrReaches(st, verify) || core.InstrReaches(verify, st) {
							hOK = false
						}
					}
				}
			}
		}
	}
	c.r.Check(hOK, rule, fkey(rule, fn, "verify-echoed-message"), c.pos(verify), "hash argument is the emitted data.M", "the bytes verified ("+descr(verify.Call.Args[1])+") are not the emitted data.M: the echoed message may differ from what was verified")
	// r: the integer whose bytes are in .R
	rOK := false
	if st := fieldStore("R"); st != nil {
		w := core.NewDepWalker(fn, false)
		w.Walk(st.Val)
		if bytesOf(st.Val, verify.Call.Args[2]) && core.InstrDominates(st, verify) {
			rOK = true
		}
		_ = w
	}
	c.r.Check(rOK, rule, fkey(rule, fn, "verify-emitted-r"), c.pos(verify), "r verified = integer whose (padded) bytes are stored in .R", "the r verified is not the integer stored in .R")
	// s: same object, no mutation between the .S store and the verification
	sOK := false
	sWhy := "the s verified is not the integer stored in .S"
	if st := fieldStore("S"); st != nil {
		if bytesOf(st.Val, verify.Call.Args[3]) {
			sOK = true
			root := core.BigRoot(verify.Call.Args[3])
			for _, m := range core.BigMuts(root) {
				if core.InstrReaches(st, m) && core.InstrReaches(m, verify) {
					sOK = false
					sWhy = "s is modified in place at " + c.pos(m) + " between storing .S and verifying"
				}
				if core.InstrReaches(verify, m) {
					sOK = false
					sWhy = "s is modified in place at " + c.pos(m) + " after verification"
				}
			}
			// the bytes are taken after the last mutation: every mutation reaches the Bytes() call
			for _, m := range core.BigMuts(root) {
				if !core.InstrReaches(m, st) {
					sOK = false
					sWhy = "the bytes of s are stored before its final value is computed"
				}
			}
		}
	}
	c.r.Check(sOK, rule, fkey(rule, fn, "verify-emitted-s"), c.pos(verify), "s verified = the big.Int whose bytes are stored in .S, unmodified in between and afterwards", sWhy)
}

// bytesOf: v is (a padded form of) x.Bytes() where x is the same big.Int object/value as want.
func bytesOf(v, want ssa.Value) bool {
	v = core.Strip(v)
	for i := 0; i < 4; i++ {
		c, ok := v.(*ssa.Call)
		if !ok {
			return false
		}
		if core.CallIs(c, "(*math/big.Int).Bytes") {
			a := c.Call.Args[0]
			return core.BigRoot(a) == core.BigRoot(want) || core.TermOf(a).Key() == core.TermOf(want).Key()
		}
		// a padding helper of the package: first argument carries the bytes
		if g := core.Callee(c); g != nil && isModuleFn(g) && len(c.Call.Args) >= 1 {
			v = core.Strip(c.Call.Args[0])
			continue
		}
		return false
	}
	return false
}

func c01LowS(c *ctx, fn *ssa.Function) {
	const rule = "R01.3"
	// locate the diamond: If on Cmp(s, half) with half = N>>1
	var diamond *ssa.If
	var sVal ssa.Value
	side := -1
	exact := false
	for _, b := range fn.Blocks {
		if len(b.Instrs) == 0 {
			continue
		}
		iff, ok := b.Instrs[len(b.Instrs)-1].(*ssa.If)
		if !ok {
			continue
		}
		for si := 0; si < 2; si++ {
			for _, f := range core.CondFacts(iff.Cond, si == 0, iff) {
				if f.Kind != core.FCmp {
					continue
				}
				// either orientation: s.Cmp(half) > 0 or half.Cmp(s) < 0
				sv, hv, ord := f.X, f.Y, f.Ord
				if xt := core.TermAt(f.X, f.At); xt.Op == "Rsh" {
					sv, hv, ord = f.Y, f.X, f.Ord.Flip()
				}
				ht := core.TermAt(hv, f.At)
				if ht.Op == "Rsh" && core.IsCurveOrder(ht.Args[0]) && constIs(ht.Args[1], 1) && ord&core.GT != 0 && ord&core.LT == 0 {
					diamond, sVal, side = iff, sv, si
					exact = ord == core.GT
				}
			}
		}
	}
	key := fkey(rule, fn, "low-s-normalisation")
	if diamond == nil {
		c.r.Bad(rule, key, c.fpos(fn), "no branch on s > N>>1 found: high-S signatures are emitted (or the half order is not N>>1)")
		return
	}
	c.r.Check(exact, rule, fkey(rule, fn, "branch-exactly-on-s>half"), c.pos(diamond), "the normalising branch is taken exactly for s > N>>1", "the normalising branch is also taken for s == N>>1 (or its polarity is wrong): a canonical s is flipped to a high one")
	T := diamond.Block().Succs[side]
	// in T: s = N - s on the same object; recid ^= 1
	subOK, xorOK := false, false
	var xorV ssa.Value
	root := core.BigRoot(sVal)
	for _, in := range T.Instrs {
		if call, ok := in.(*ssa.Call); ok && core.CallIs(call, "(*math/big.Int).Sub") {
			if core.BigRoot(call.Call.Args[0]) == root && core.IsCurveOrder(core.TermOf(call.Call.Args[1])) && core.BigRoot(call.Call.Args[2]) == root {
				subOK = true
			}
		}
		if bo, ok := in.(*ssa.BinOp); ok && bo.Op == token.XOR {
			if k, isK := core.ConstInt(bo.Y); isK && k == 1 {
				xorOK = true
				xorV = bo
			}
		}
	}
	// alternative idiom: s = new(big.Int).Sub(N, s) assigned through a phi — accepted when the .S store reads the phi
	c.r.Check(subOK, rule, key, c.pos(diamond), "on s > N>>1: s = N − s (same object)", "the branch on s > N>>1 does not replace s by N − s")
	// the recovery id stored is the phi merging (recid ^ 1) from T and recid from the other edge
	recOK := xorOK
	why := "the normalising branch does not toggle bit 0 of the recovery id"
	if xorOK {
		// no other XOR on the recovery id in the function
		for _, b := range fn.Blocks {
			for _, in := range b.Instrs {
				if bo, ok := in.(*ssa.BinOp); ok && bo.Op == token.XOR && bo != xorV {
					if isIntLike(bo.Type()) {
						recOK = false
						why = "the recovery id is toggled outside the normalising branch"
					}
				}
			}
		}
		// the stored recovery byte derives from the toggled value and from ry.Bit(0) and rx.Cmp(N)
		var recStore *ssa.Store
		for _, b := range fn.Blocks {
			for _, in := range b.Instrs {
				if st, ok := in.(*ssa.Store); ok {
					if fr := core.AsFieldAddr(st.Addr); fr != nil && fr.Name == "SignatureRecovery" {
						recStore = st
					}
				}
			}
		}
		if recStore == nil {
			recOK, why = false, "no store to SignatureRecovery"
		} else {
			w := core.NewDepWalker(fn, false)
			w.Walk(recStore.Val)
			if !w.Seen(xorV) {
				recOK, why = false, "the stored recovery id does not include the toggled value"
			}
			sawBit, sawCmp := false, false
			for v := range w.SeenSet() {
				if call, ok := v.(*ssa.Call); ok {
					if core.CallIs(call, "(*math/big.Int).Bit") && strings.HasSuffix(descr(call.Call.Args[0]), "temp.ry") {
						sawBit = true
					}
					// rx.Cmp(N) or N.Cmp(rx)
					if core.CallIs(call, "(*math/big.Int).Cmp") {
						a0, a1 := call.Call.Args[0], call.Call.Args[1]
						if (strings.HasSuffix(descr(a0), "temp.rx") && core.IsCurveOrder(core.FrameTerm(fn, a1))) || (strings.HasSuffix(descr(a1), "temp.rx") && core.IsCurveOrder(core.FrameTerm(fn, a0))) {
							sawCmp = true
						}
					}
				}
			}
			if !sawBit || !sawCmp {
				recOK, why = false, fmt.Sprintf("the recovery id does not derive from ry.Bit(0) (%v) and rx.Cmp(N) (%v)", sawBit, sawCmp)
			}
		}
	}
	c.r.Check(recOK, rule, fkey(rule, fn, "recovery-bit-moves-with-s"), c.pos(diamond), "exactly the normalising branch toggles bit 0; other bits from ry.Bit(0) and rx > N", why)
}

func c01Layout(c *ctx, fn *ssa.Function) {
	const rule = "R01.4"
	get := func(name string) *ssa.Store {
		var f *ssa.Store
		for _, b := range fn.Blocks {
			for _, in := range b.Instrs {
				if st, ok := in.(*ssa.Store); ok {
					if fr := core.AsFieldAddr(st.Addr); fr != nil && fr.Name == name && strings.HasSuffix(fr.String(), "SignatureData."+name) {
						f = st
					}
				}
			}
		}
		return f
	}
	// R and S padded by the same helper to BitSize/8
	var helper *ssa.Function
	for _, name := range []string{"R", "S"} {
		st := get(name)
		ok := false
		why := "not stored"
		if st != nil {
			call, isC := core.Strip(st.Val).(*ssa.Call)
			if isC && core.Callee(call) != nil && isModuleFn(core.Callee(call)) && len(call.Call.Args) == 2 {
				wt := core.TermOf(call.Call.Args[1])
				if wt.Op == "bin/" && constIs(wt.Args[1], 8) {
					if n, _ := wt.Args[0].Field(); n == "BitSize" {
						ok = true
						helper = core.Callee(call)
					}
				}
				if !ok {
					why = "padded to " + wt.Key() + ", expected Params().BitSize/8"
				}
			} else {
				why = "." + name + " is " + descr(st.Val) + ": not passed through the fixed-width padding helper"
			}
		}
		c.r.Check(ok, rule, fkey(rule, fn, "fixed-width:"+name), c.fpos(fn), "."+name+" = pad(x.Bytes(), BitSize/8)", why)
	}
	if helper != nil {
		ok, why := padPostcondition(helper)
		c.r.Check(ok, rule, fkey(rule, helper, "result-length>=width"), c.fpos(helper), "every return of the padding helper has at least the requested length", why)
	}
	// Signature = append(data.R, data.S...)
	sigOK := false
	if st := get("Signature"); st != nil {
		if b, x, ok := appendOf(st.Val); ok {
			fb, fx := core.AsFieldLoad(b), core.AsFieldLoad(x)
			if fb != nil && fx != nil && fb.Name == "R" && fx.Name == "S" {
				sigOK = true
			}
		}
	}
	c.r.Check(sigOK, rule, fkey(rule, fn, "Signature=R||S"), c.fpos(fn), "Signature = append(R, S...)", "Signature is not R followed by S")
	// M echo
	mOK := true
	why := ""
	n := 0
	for _, b := range fn.Blocks {
		for _, in := range b.Instrs {
			st, ok := in.(*ssa.Store)
			if !ok {
				continue
			}
			fr := core.AsFieldAddr(st.Addr)
			if fr == nil || fr.Name != "M" || !strings.HasSuffix(fr.String(), "SignatureData.M") {
				continue
			}
			n++
			full := core.PossibleIntCmp(core.TFactsAt(b, 0), func(t *T) bool { nn, _ := t.Field(); return nn == "fullBytesLen" }, 0)
			d := descr(st.Val)
			switch {
			case full == core.EQ:
				if d != "Bytes(temp.m)" {
					mOK, why = false, "with no requested length M is "+d+", expected m.Bytes()"
				}
			case full&core.EQ == 0:
				mk, isMk := core.Strip(st.Val).(*ssa.MakeSlice)
				filled := false
				if isMk {
					if nn, _ := core.TermOf(mk.Len).Field(); nn == "fullBytesLen" {
						for _, cs := range core.CallsTo(fn, "(*math/big.Int).FillBytes") {
							if core.Strip(cs.Common().Args[1]) == ssa.Value(mk) && strings.HasSuffix(descr(cs.Common().Args[0]), "temp.m") && core.InstrReaches(cs, st) {
								filled = true
							}
						}
					}
				}
				if !filled {
					mOK, why = false, "with a requested length M is "+d+", expected m.FillBytes(make([]byte, fullBytesLen))"
				}
			default:
				mOK, why = false, "M is stored on a path that does not distinguish the requested length"
			}
		}
	}
	c.r.Check(mOK && n >= 2, rule, fkey(rule, fn, "M-echo"), c.fpos(fn), "M = m.Bytes() when no length is requested, m.FillBytes(buffer of fullBytesLen) otherwise", why+fmt.Sprintf(" (%d stores)", n))
}

// padPostcondition: every return of helper(src, length) yields a slice of length >= `length`.
// padLoopOK: y is the accumulator of a counted loop with `length − len(src)` iterations, each of
// which prepends exactly one byte to it.
func padLoopOK(fn *ssa.Function, y *ssa.Phi, isLength, isLenSrc func(*T) bool) bool {
	for _, l := range core.Loops(fn) {
		if l.Header != y.Block() || l.Lo != 0 || l.HiIncl {
			continue
		}
		ht := core.TermOf(l.Hi)
		if ht.Op == "bin-" && isLength(ht.Args[0]) && isLenSrc(ht.Args[1]) {
			for _, e2 := range y.Edges {
				if b2, x2, ok := appendOf(e2); ok {
					if n, okN := core.LenOf(b2); okN && n == 1 && core.Strip(x2) == ssa.Value(y) {
						return true
					}
				}
			}
		}
	}
	return false
}

func padPostcondition(fn *ssa.Function) (bool, string) {
	if len(fn.Params) != 2 {
		return false, "unexpected helper signature"
	}
	src, length := fn.Params[0], fn.Params[1]
	isLenSrc := func(t *T) bool { return t.Op == "call:len" && t.Args[0].Key() == core.TermOf(src).Key() }
	isLength := core.KeyIs(core.TermOf(length))
	for _, ret := range core.Returns(fn) {
		v := core.Strip(ret.Results[0])
		facts := core.TFactsAt(ret.Block(), 0)
		switch x := v.(type) {
		case *ssa.Parameter:
			if x != src {
				return false, "returns an unrelated value"
			}
			if core.PossibleIntCmpT(facts, isLenSrc, isLength)&core.LT != 0 {
				return false, "returns the input unchanged on a path where len(src) < length is still possible (off-by-one guard): a value one byte short is not padded"
			}
		case *ssa.MakeSlice:
			if core.TermOf(x.Len).Key() != core.TermOf(length).Key() {
				return false, "returns a buffer whose length is not the requested length"
			}
		case *ssa.Phi:
			// the loop-carried value itself (early-return form: `if len >= length {return src}; for … {prepend}; return src`)
			if padLoopOK(fn, x, isLength, isLenSrc) {
				continue
			}
			// src on the edge where len(src) >= length, or the result of the prepend loop
			for i, e := range x.Edges {
				ev := core.Strip(e)
				pred := x.Block().Preds[i]
				switch y := ev.(type) {
				case *ssa.Parameter:
					fs := core.ExpandFacts(core.FactsAt(pred), 0)
					if len(pred.Instrs) > 0 {
						if iff, ok := pred.Instrs[len(pred.Instrs)-1].(*ssa.If); ok {
							fs = append(fs, core.ExpandFacts(core.CondFacts(iff.Cond, pred.Succs[0] == x.Block(), iff), 0)...)
						}
					}
					if y != src || core.PossibleIntCmpT(fs, isLenSrc, isLength)&core.LT != 0 {
						return false, "the input is returned unchanged although len(src) < length is possible"
					}
				case *ssa.Phi:
					// loop-carried: phi[src, append([1]byte{0}, phi...)] in a counted loop with length−len(src) iterations
					okLoop := padLoopOK(fn, y, isLength, isLenSrc)
					if !okLoop {
						return false, "the padding loop is not `length − len(src)` single-byte prepends"
					}
				case *ssa.MakeSlice:
					if core.TermOf(y.Len).Key() != core.TermOf(length).Key() {
						return false, "a padded buffer does not have the requested length"
					}
				default:
					return false, "unrecognised padding construction: " + descr(ev)
				}
			}
		default:
			return false, "unrecognised padding construction: " + descr(v)
		}
	}
	return true, ""
}
