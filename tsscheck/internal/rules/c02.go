package rules

import (
	"fmt"
	"go/token"
	"go/types"
	"sort"
	"strings"

	"golang.org/x/tools/go/ssa"

	"tsscheck/internal/core"
)

func init() { Registry["C02"] = runC02 }

func runC02(p *core.Prog, r *core.Report) {
	c := &ctx{p, r}
	r.Explain = "EdDSA signing output (eddsa/signing): (R02.1) the single send on the result channel is dominated by the true edge of edwards.Verify(&pk, data.M, r, s) where pk = (Params().EC(), key.EDDSAPub.X(), .Y()), the hash argument is the emitted data.M (all stores to it precede the verification), r is the temp.r whose 32-byte encoding is the first half of .Signature and s is decoded from the very *[32]byte whose bytes are the second half; (R02.2) both operands of the append producing .Signature are slices over values of static type *[32]byte — 64 bytes by construction, a fact of the type checker; (R02.3) the message bytes written into the challenge hash in round 3 and the bytes stored in .M in the final round are produced by the same normal form over (m, fullBytesLen)."
	r.Undec = "RFC 8032 correctness of the little-endian encoders and of the challenge, equality across signers; the self-check uses the dcrd verifier the library depends on."
	r.Assume = []string{"dcrd edwards.Verify is a standard Ed25519 verifier"}
	pr := ExtractProtocol(p, "eddsa/signing")
	if len(pr.Rounds) == 0 {
		r.Unk("R02.0", core.Key("R02.0", "eddsa/signing", "model", "rounds"), "eddsa/signing", "round chain not extracted")
		return
	}
	fn := pr.Rounds[len(pr.Rounds)-1].Fns["Start"]
	if fn == nil {
		return
	}
	const rule = "R02.1"
	var end *ssa.Send
	for _, b := range fn.Blocks {
		for _, in := range b.Instrs {
			if s, ok := in.(*ssa.Send); ok {
				if fr := core.AsFieldLoad(s.Chan); fr != nil && fr.Name == "end" {
					end = s
				}
			}
		}
	}
	if end == nil {
		r.Bad(rule, fkey(rule, fn, "gate"), c.fpos(fn), "no send on the result channel in the final round")
		return
	}
	verify, ok := core.HasCallFact(core.TFactsAt(end.Block(), 0), true, "github.com/decred/dcrd/dcrec/edwards/v2.Verify")
	if !ok {
		r.Bad(rule, fkey(rule, fn, "gate"), c.pos(end), "the signature is emitted on a path that does not pass a successful edwards.Verify")
		return
	}
	r.OK(rule, fkey(rule, fn, "gate"), c.pos(verify), "the send on the result channel is dominated by the true edge of edwards.Verify")
	dataKey := core.TermOf(end.X).Key()
	// key
	pkOK, pkWhy := false, "public key argument not recognised"
	if a, isA := core.Strip(verify.Call.Args[0]).(*ssa.Alloc); isA {
		sf := storedFields(a)
		d := func(n string) string {
			if sf[n] == nil {
				return "<unset>"
			}
			return descr(sf[n])
		}
		pkOK = d("X") == "key.EDDSAPub.X()" && d("Y") == "key.EDDSAPub.Y()" && (d("Curve") == "Params().EC()" || d("Curve") == "EC()")
		pkWhy = fmt.Sprintf("verified under (curve=%s, X=%s, Y=%s), expected key.EDDSAPub on Params().EC()", d("Curve"), d("X"), d("Y"))
	}
	r.Check(pkOK, rule, fkey(rule, fn, "verify-under-group-key"), c.pos(verify), "pk = (Params().EC(), key.EDDSAPub.X(), key.EDDSAPub.Y())", pkWhy)
	// hash = data.M, all stores precede
	hOK := false
	if fr := core.AsFieldLoad(verify.Call.Args[1]); fr != nil && fr.Name == "M" && core.TermOf(fr.Base).Key() == dataKey {
		hOK = true
		for _, b := range fn.Blocks {
			for _, in := range b.Instrs {
				if st, ok := in.(*ssa.Store); ok {
					if f2 := core.AsFieldAddr(st.Addr); f2 != nil && f2.Name == "M" && core.TermOf(f2.Base).Key() == dataKey {
						if !core.InstrReaches(st, verify) || core.InstrReaches(verify, st) {
							hOK = false
						}
					}
				}
			}
		}
	}
	r.Check(hOK, rule, fkey(rule, fn, "verify-echoed-message"), c.pos(verify), "message argument is the emitted data.M", "the bytes verified ("+descr(verify.Call.Args[1])+") are not the emitted data.M: the signature is not over exactly the echoed message bytes")
	// Signature = append(enc(temp.r)[:], sumS[:]...)
	var sigStore *ssa.Store
	for _, b := range fn.Blocks {
		for _, in := range b.Instrs {
			if st, ok := in.(*ssa.Store); ok {
				if fr := core.AsFieldAddr(st.Addr); fr != nil && fr.Name == "Signature" && core.TermOf(fr.Base).Key() == dataKey {
					sigStore = st
				}
			}
		}
	}
	rOK, sOK, lenOK := false, false, false
	why := "no store to .Signature"
	if sigStore != nil {
		if b, x, ok := appendOf(sigStore.Val); ok {
			bs, okb := core.Strip(b).(*ssa.Slice)
			xs, okx := core.Strip(x).(*ssa.Slice)
			if okb && okx {
				// R02.2: static types
				lenOK = isPtrTo32(bs.X.Type()) && isPtrTo32(xs.X.Type()) && bs.Low == nil && bs.High == nil && xs.Low == nil && xs.High == nil
				// first half: encoding of the r that is verified
				if call, isC := core.Strip(bs.X).(*ssa.Call); isC && core.Callee(call) != nil && isModuleFn(core.Callee(call)) && len(call.Call.Args) == 1 {
					if core.TermOf(call.Call.Args[0]).Key() == core.TermOf(verify.Call.Args[2]).Key() && strings.HasSuffix(descr(call.Call.Args[0]), "temp.r") {
						rOK = true
					}
				}
				// second half: the array s is decoded from
				if sc, isC := core.Strip(verify.Call.Args[3]).(*ssa.Call); isC && core.Callee(sc) != nil && isModuleFn(core.Callee(sc)) && len(sc.Call.Args) == 1 {
					if core.Strip(sc.Call.Args[0]) == core.Strip(xs.X) {
						sOK = true
					}
				}
				why = fmt.Sprintf("first half = %s, second half = %s; verified r = %s, s = %s", descr(bs.X), descr(xs.X), descr(verify.Call.Args[2]), descr(verify.Call.Args[3]))
			}
		}
	}
	r.Check(rOK, rule, fkey(rule, fn, "verify-emitted-r"), c.pos(verify), "r verified is the temp.r whose encoding is the first half of .Signature", why)
	r.Check(sOK, rule, fkey(rule, fn, "verify-emitted-s"), c.pos(verify), "s verified is decoded from the very 32-byte array emitted as the second half", why)
	r.Check(lenOK, "R02.2", fkey("R02.2", fn, "signature-is-32+32-bytes"), c.fpos(fn), "both halves are full slices of *[32]byte values (static types)", "an operand of the append producing .Signature is not a full slice of a *[32]byte: the signature is not 64 bytes by construction ("+why+")")
	// R02.3 message encoding agreement
	finalForm := messageForms(fn, func(in ssa.Instruction) ssa.Value {
		if st, ok := in.(*ssa.Store); ok {
			if fr := core.AsFieldAddr(st.Addr); fr != nil && fr.Name == "M" && strings.HasSuffix(fr.String(), "SignatureData.M") {
				return st.Val
			}
		}
		return nil
	})
	var r3 *ssa.Function
	for _, rd := range pr.Rounds {
		if st := rd.Fns["Start"]; st != nil && len(core.CallsTo(st, "crypto/sha512.New")) > 0 {
			r3 = st
		}
	}
	if r3 == nil {
		r.Unk("R02.3", core.Key("R02.3", "eddsa/signing", "-", "challenge-hash"), "eddsa/signing", "the round computing the challenge hash was not found")
	} else {
		hashForm := messageForms(r3, func(in ssa.Instruction) ssa.Value {
			if call, ok := in.(*ssa.Call); ok && call.Call.IsInvoke() && call.Call.Method.Name() == "Write" {
				d := descr(call.Call.Args[0])
				if strings.Contains(d, "temp.m") || strings.Contains(d, "fullBytesLen") || strings.HasPrefix(d, "make") {
					return call.Call.Args[0]
				}
				if hc, isC := core.Strip(call.Call.Args[0]).(*ssa.Call); isC {
					if h := core.Callee(hc); h != nil && h.Blocks != nil && h.Pkg == pkgOf(r3) && !token.IsExported(h.Name()) {
						return call.Call.Args[0]
					}
				}
			}
			return nil
		})
		ok := len(finalForm) == 2 && strings.Join(finalForm, ";") == strings.Join(hashForm, ";")
		r.Check(ok, "R02.3", core.Key("R02.3", "eddsa/signing", "round3+finalization", "one-message-encoding"), c.fpos(r3), "hashed message and echoed M share the normal form "+strings.Join(finalForm, " ; "), fmt.Sprintf("the challenge hash covers %v but the echoed M is %v", hashForm, finalForm))
	}
	r.Floor("R02.1", 5)
	r.Floor("R02.2", 1)
	r.Floor("R02.3", 1)
	aliasedInPlaceUpdates(c, "RA.1", "eddsa/signing", "common")
	globalCurveCallers(c, "RG.1")
}

func isPtrTo32(t types.Type) bool {
	p, ok := t.Underlying().(*types.Pointer)
	if !ok {
		return false
	}
	a, ok := p.Elem().Underlying().(*types.Array)
	if !ok || a.Len() != 32 {
		return false
	}
	b, ok := a.Elem().Underlying().(*types.Basic)
	return ok && b.Kind() == types.Byte
}

// messageForms: canonical "(condition on fullBytesLen) → encoding" entries of the message bytes
// selected by pick in fn.
func messageForms(fn *ssa.Function, pick func(ssa.Instruction) ssa.Value) []string {
	return messageFormsD(fn, pick, 0)
}

func pkgOf(fn *ssa.Function) *ssa.Package {
	for fn.Parent() != nil {
		fn = fn.Parent()
	}
	return fn.Pkg
}

func messageFormsD(fn *ssa.Function, pick func(ssa.Instruction) ssa.Value, depth int) []string {
	var out []string
	for _, b := range fn.Blocks {
		for _, in := range b.Instrs {
			v := pick(in)
			if v == nil {
				continue
			}
			full := core.PossibleIntCmp(core.TFactsAt(b, 0), func(t *T) bool { nn, _ := t.Field(); return nn == "fullBytesLen" }, 0)
			cond := "?"
			switch {
			case full == core.EQ:
				cond = "fullBytesLen==0"
			case full&core.EQ == 0:
				cond = "fullBytesLen!=0"
			}
			// the encoding factored into a private helper of the package: its returns, under the call's condition
			if call, isC := core.Strip(v).(*ssa.Call); isC && depth < 2 {
				if h := core.Callee(call); h != nil && h.Blocks != nil && h.Pkg == pkgOf(fn) && h.Parent() == nil && !token.IsExported(h.Name()) && strings.HasSuffix(h.Signature.Results().String(), "[]byte)") {
					sub := messageFormsD(h, func(in ssa.Instruction) ssa.Value {
						if ret, isR := in.(*ssa.Return); isR && len(ret.Results) == 1 {
							return ret.Results[0]
						}
						return nil
					}, depth+1)
					for _, e := range sub {
						if cond != "?" {
							e = cond + " ∧ " + e
						}
						out = append(out, e)
					}
					continue
				}
			}
			enc := descr(v)
			if mk, ok := core.Strip(v).(*ssa.MakeSlice); ok {
				enc = "make(" + descr(mk.Len) + ")"
				for _, cs := range core.CallsTo(fn, "(*math/big.Int).FillBytes") {
					if core.Strip(cs.Common().Args[1]) == ssa.Value(mk) && core.InstrReaches(cs, in) {
						enc = "FillBytes(" + descr(cs.Common().Args[0]) + ", make(" + descr(mk.Len) + "))"
					}
				}
			}
			out = append(out, cond+" → "+enc)
		}
	}
	sort.Strings(out)
	return out
}
