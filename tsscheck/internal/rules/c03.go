package rules

import (
	"fmt"
	"go/token"
	"sort"
	"strings"

	"golang.org/x/tools/go/ssa"

	"tsscheck/internal/core"
)

func init() { Registry["C03"] = runC03 }

func runC03(p *core.Prog, r *core.Report) {
	c := &ctx{p, r}
	r.Explain = "Keygen consistency — decided as structural necessary conditions over the two keygen packages: (R03.1 acceptance gates) in the round that consumes the shares, the per-peer closure reports success only on paths that took the accepting edge of the de-commitment, of the point decoding, of Share.Verify and (ECDSA) of the modulus and no-small-factor proofs — each unless its decoding failed AND the corresponding NoProof* compatibility switch is on — decided by removing the accepting edges from the CFG and requiring the success send to become unreachable; the public key material is stored only on paths where the culprit list is empty; (R03.2 slot mapping, ECDSA) for every field of the round-1 broadcast, the value the sender puts on the wire, the value it files in its own slot of the corresponding save-data array, and the accessor the receiver files in the sender's slot of the same array agree (sources compared as canonical descriptions; accessor → wire field read off its body); the stored Paillier private key is the one whose public half was sent; share ids are the party keys at the party's own list position; (R03.3) every party's share enters x_i: the accumulation reads the share accessor for all peers but self and starts from the own share; (R15.1, shared) party ids are tested non-zero and pairwise distinct modulo the group order; (R17.4, shared) decoded Edwards points are cleared of their small-order component and the cleared point is the one stored."
	r.Undec = "that the public share points lie on one polynomial of degree t with the group key as constant term, that x_i·G = X_i, equality of views across parties (polynomial algebra and cross-party reasoning over runtime values)."
	for _, rel := range []string{"ecdsa/keygen", "eddsa/keygen"} {
		pr := ExtractProtocol(p, rel)
		c03Gates(c, pr)
		c03Accumulate(c, pr)
	}
	c03Slots(c, ExtractProtocol(p, "ecdsa/keygen"))
	c15CheckIndexes(c)
	c17Cofactor(c)
	// the public share points X_j = Σ V_c·k_j^c: the running power must not be updated through an alias of k_j
	aliasedInPlaceUpdates(c, "RA.1", "ecdsa/keygen", "eddsa/keygen", "crypto/vss", "crypto", "common")
}

// ---- R03.1 -----------------------------------------------------------------------------------

// edgesEstablishing: CFG edges of fn on which pred holds for some established fact.
func edgesEstablishing(fn *ssa.Function, pred func(core.Fact) bool) map[core.CFGEdge]bool {
	return core.EdgesWhere(fn, pred)
}

func reachableWithout(fn *ssa.Function, removed map[core.CFGEdge]bool, target *ssa.BasicBlock) bool {
	seen := map[*ssa.BasicBlock]bool{}
	var dfs func(b *ssa.BasicBlock) bool
	dfs = func(b *ssa.BasicBlock) bool {
		if b == target {
			return true
		}
		if seen[b] {
			return false
		}
		seen[b] = true
		for i, s := range b.Succs {
			if removed[core.CFGEdge{B: b, SI: i}] {
				continue
			}
			if dfs(s) {
				return true
			}
		}
		return false
	}
	return dfs(fn.Blocks[0])
}

func callFact(f core.Fact, want bool, suffix string) bool {
	if f.Kind != core.FCall || f.Bool != want {
		return false
	}
	call, ok := f.X.(*ssa.Call)
	return ok && strings.HasSuffix(core.CalleeName(call), suffix)
}

func c03Gates(c *ctx, pr *Protocol) {
	const rule = "R03.1"
	// the round whose Start reads the share-bearing array
	var rd *Round
	for _, r := range pr.Rounds {
		st := r.Fns["Start"]
		if st == nil {
			continue
		}
		for _, g := range unitFuncs(st) {
			for _, cs := range core.Calls(g) {
				if strings.HasSuffix(core.CalleeName(cs), "vss.Share).Verify") {
					rd = r
				}
			}
		}
	}
	if rd == nil {
		c.r.Unk(rule, core.Key(rule, pr.Rel, "-", "anchor"), pr.Rel, "no round calls Share.Verify")
		return
	}
	st := rd.Fns["Start"]
	nSucc := 0
	for _, g := range unitFuncs(st) {
		if g == st {
			continue
		}
		for _, b := range g.Blocks {
			for _, in := range b.Instrs {
				snd, ok := in.(*ssa.Send)
				if !ok {
					continue
				}
				// a success record: {nil error, …}
				ld, isLd := core.Strip(snd.X).(*ssa.UnOp)
				if !isLd || ld.Op != token.MUL {
					continue
				}
				fields := storedFields(ld.X)
				isSuccess := false
				for _, sv := range fields {
					if isErrType(sv.Type()) && core.IsNilConst(core.Strip(sv)) {
						isSuccess = true
					}
				}
				if !isSuccess {
					continue
				}
				nSucc++
				type cond struct {
					name string
					good func(core.Fact) bool
					need bool
				}
				isECDSA := strings.HasPrefix(pr.Rel, "ecdsa")
				conds := []cond{
					{"de-commitment opened", func(f core.Fact) bool {
						if f.Kind != core.FBool || !f.Bool {
							return false
						}
						ex, isE := core.Strip(f.X).(*ssa.Extract)
						if !isE || ex.Index != 0 {
							return false
						}
						call, isC := ex.Tuple.(*ssa.Call)
						return isC && strings.HasSuffix(core.CalleeName(call), ".DeCommit")
					}, true},
					{"points decoded", func(f core.Fact) bool {
						if f.Kind != core.FNil || !f.Bool {
							return false
						}
						ex, isE := core.Strip(f.X).(*ssa.Extract)
						if !isE {
							return false
						}
						call, isC := ex.Tuple.(*ssa.Call)
						return isC && strings.HasSuffix(core.CalleeName(call), "UnFlattenECPoints")
					}, true},
					{"Share.Verify accepted", func(f core.Fact) bool { return callFact(f, true, "vss.Share).Verify") }, true},
					{"modulus proof accepted (or undecodable with NoProofMod)", func(f core.Fact) bool {
						return callFact(f, true, "modproof.ProofMod).Verify") || callFact(f, true, ").NoProofMod")
					}, isECDSA},
					{"no-small-factor proof accepted (or undecodable with NoProofFac)", func(f core.Fact) bool {
						return callFact(f, true, "facproof.ProofFac).Verify") || callFact(f, true, ").NoProofFac")
					}, isECDSA},
					{"Schnorr proof of the constant term accepted", func(f core.Fact) bool { return callFact(f, true, "schnorr.ZKProof).Verify") }, !isECDSA},
				}
				for _, cd := range conds {
					if !cd.need {
						continue
					}
					key := fkey(rule, st, "gate:"+cd.name)
					removed := edgesEstablishing(g, cd.good)
					reach := reachableWithout(g, removed, b)
					c.r.Check(len(removed) > 0 && !reach, rule, key, c.pos(snd), "success is reported only through the accepting edge", fmt.Sprintf("the per-peer check can report success without \"%s\" (accepting edges found: %d)", cd.name, len(removed)))
				}
				// the NoProof escape is taken only together with a decoding failure
				if isECDSA {
					for _, sw := range []string{"NoProofMod", "NoProofFac"} {
						key := fkey(rule, st, "compat-switch-only-on-decode-failure:"+sw)
						okShape := true
						for e := range edgesEstablishing(g, func(f core.Fact) bool { return callFact(f, true, ")."+sw) }) {
							hasErr := false
							for _, f := range core.FactsAt(e.B) {
								if f.Kind == core.FNil && !f.Bool && f.X != nil && isErrType(f.X.Type()) {
									hasErr = true
								}
							}
							if !hasErr {
								okShape = false
							}
						}
						c.r.Check(okShape, rule, key, c.pos(snd), "the switch is consulted only after the proof failed to decode", sw+"() lets a decodable proof through unverified")
					}
				}
			}
		}
	}
	c.r.Check(nSucc >= 1, rule, fkey(rule, st, "success-send"), c.fpos(st), fmt.Sprintf("%d success sends examined", nSucc), "no per-peer success send found in the share-consuming round")
	// the public key material is stored only when nobody was blamed
	for _, b := range st.Blocks {
		for _, in := range b.Instrs {
			x, ok := in.(*ssa.Store)
			if !ok {
				continue
			}
			fr := core.AsFieldAddr(x.Addr)
			if fr == nil || !(fr.Name == "BigXj" || fr.Name == "ECDSAPub" || fr.Name == "EDDSAPub") || !viaField(fr.Base, "save") {
				continue
			}
			key := fkey(rule, st, "store-after-no-culprits:save."+fr.Name)
			okGate := false
			for _, f := range core.TFactsAt(b, 0) {
				if f.Kind == core.FInt && f.X != nil && f.Y != nil {
					x2, y2, o := f.X, f.Y, f.Ord
					if y2.Op == "call:len" {
						x2, y2, o = y2, x2, o.Flip()
					}
					if x2.Op == "call:len" && x2.Args[0].V != nil && isAccumulator(x2.Args[0].V, 0) && constIs(y2, 0) && o&core.GT == 0 {
						okGate = true
					}
				}
			}
			c.r.Check(okGate, rule, key, c.pos(x), "stored only on the empty-culprit-list edge", "the public key material is stored on a path where peers may have been blamed")
		}
	}
	c.r.Floor(rule, 8)
}

// ---- R03.3 -----------------------------------------------------------------------------------

func c03Accumulate(c *ctx, pr *Protocol) {
	const rule = "R03.3"
	for _, rd := range pr.Rounds {
		st := rd.Fns["Start"]
		if st == nil {
			continue
		}
		for _, b := range st.Blocks {
			for _, in := range b.Instrs {
				x, ok := in.(*ssa.Store)
				if !ok {
					continue
				}
				fr := core.AsFieldAddr(x.Addr)
				if fr == nil || fr.Name != "Xi" || !viaField(fr.Base, "save") {
					continue
				}
				key := fkey(rule, st, "x_i-sums-every-share")
				w := core.NewDepWalker(st, false)
				w.Walk(x.Val)
				peerShare, ownShare := false, false
				for v := range w.SeenSet() {
					if call, isC := v.(*ssa.Call); isC && strings.HasSuffix(core.CalleeName(call), ").UnmarshalShare") {
						// inside a loop over all parties that skips only self
						for _, l := range loopsOf(call.Parent()) {
							if (l.In[call.Block()] || l.Body != nil && l.Body.Dominates(call.Block())) && coverage(l, call.Block()) == "all-but-self" {
								peerShare = true
							}
						}
					}
					if ld, isLd := v.(*ssa.UnOp); isLd && ld.Op == token.MUL {
						if ia, isIA := ld.X.(*ssa.IndexAddr); isIA && core.LastFields(ia.X, 1) == "shares" && isSelfIndex(ia.Index) {
							ownShare = true
						}
					}
				}
				c.r.Check(peerShare && ownShare, rule, key, c.pos(x), "x_i = own share + the share of every peer", fmt.Sprintf("the stored secret share does not add up every party's contribution (own share: %v, every peer's share: %v)", ownShare, peerShare))
			}
		}
	}
	c.r.Floor(rule, 2)
}

// ---- R03.2 -----------------------------------------------------------------------------------

func c03Slots(c *ctx, pr *Protocol) {
	const rule = "R03.2"
	if len(pr.Rounds) < 2 {
		c.r.Unk(rule, core.Key(rule, pr.Rel, "-", "anchor"), pr.Rel, "rounds not extracted")
		return
	}
	r1, r2 := pr.Rounds[0].Fns["Start"], pr.Rounds[1].Fns["Start"]
	// the round-1 broadcast
	var ct *Content
	var site *SendSite
	for _, s := range pr.Rounds[0].Sends {
		if s.Ctor != nil {
			site = s
			ct = pr.ByContent[s.Ctor.Content]
		}
	}
	if ct == nil || site == nil || site.Call == nil {
		c.r.Unk(rule, core.Key(rule, pr.Rel, "round1", "broadcast"), pr.Rel, "round-1 broadcast constructor call not found")
		return
	}
	ctor := ct.Ctor
	// wire field → source at the call site
	srcOfField := map[string]string{}
	for f, v := range ctor.Fields {
		w := core.NewDepWalker(ctor.Fn, false)
		w.Walk(v)
		var ps []int
		for k := range w.Out {
			if strings.HasPrefix(k, "param:") {
				var i int
				fmt.Sscanf(k, "param:%d", &i)
				ps = append(ps, i)
			}
		}
		if len(ps) == 1 && ps[0] < len(site.Call.Call.Args) {
			srcOfField[f] = descr(site.Call.Call.Args[ps[0]])
		}
	}
	// accessor → wire fields it reads
	fieldsOfAccessor := map[string][]string{}
	for _, u := range ct.Unmarsh {
		w := core.NewDepWalker(u, false)
		for _, ret := range core.Returns(u) {
			w.Walk(ret.Results[0])
		}
		var fs []string
		for k := range w.Out {
			if _, isField := ctor.Fields[k]; isField {
				fs = append(fs, k)
			}
		}
		sort.Strings(fs)
		fieldsOfAccessor[u.Name()] = fs
	}
	// own-slot stores (round 1 and round 2): array → source
	own := map[string]string{}
	for _, fn := range []*ssa.Function{r1, r2} {
		for _, b := range fn.Blocks {
			for _, in := range b.Instrs {
				st, ok := in.(*ssa.Store)
				if !ok {
					continue
				}
				ia, ok := st.Addr.(*ssa.IndexAddr)
				if !ok || !isSelfIndex(ia.Index) {
					continue
				}
				if fr := core.AsFieldLoad(core.Strip(ia.X)); fr != nil && (viaField(fr.Base, "save") || viaField(fr.Base, "temp")) {
					own[fr.Name] = descr(st.Val)
				}
			}
		}
	}
	// receiver stores in round 2: array[peer] = accessor(message[peer])
	var table []string
	n := 0
	for _, b := range r2.Blocks {
		for _, in := range b.Instrs {
			st, ok := in.(*ssa.Store)
			if !ok {
				continue
			}
			ia, ok := st.Addr.(*ssa.IndexAddr)
			if !ok {
				continue
			}
			fr := core.AsFieldLoad(core.Strip(ia.X))
			if fr == nil || !(viaField(fr.Base, "save") || viaField(fr.Base, "temp")) {
				continue
			}
			call, isC := core.Strip(st.Val).(*ssa.Call)
			if !isC {
				continue
			}
			g := core.Callee(call)
			if g == nil || g.Signature.Recv() == nil || namedOfType(g.Signature.Recv().Type()) != ct.Named {
				continue
			}
			n++
			key := fkey(rule, r2, "slot:"+fr.Name+"←"+g.Name())
			bad := ""
			// the slot index is the sender's index
			if mo, io := msgOrigin(call.Call.Args[0], 0), indexOrigin(ia.Index, 0); mo == "?" || mo != io {
				if tm := typeAssertedMsgOrigin(call.Call.Args[0]); tm != io {
					bad += fmt.Sprintf("the value taken from the message of %s is filed in the slot of %s; ", tm, io)
				}
			}
			fs := fieldsOfAccessor[g.Name()]
			var srcs []string
			for _, f := range fs {
				srcs = append(srcs, srcOfField[f])
			}
			table = append(table, fmt.Sprintf("%s[j] ← %s (wire %v ← %v); own slot ← %s", fr.Name, g.Name(), fs, srcs, own[fr.Name]))
			if len(fs) != 1 {
				bad += fmt.Sprintf("the accessor reads the wire fields %v (expected exactly one); ", fs)
			} else if o, has := own[fr.Name]; has && srcOfField[fs[0]] != "" && normSrc(o) != normSrc(srcOfField[fs[0]]) {
				bad += fmt.Sprintf("peers file wire field %s (sent from %s) in %s, but the sender files %s in its own slot of that array: the parties' views differ; ", fs[0], srcOfField[fs[0]], fr.Name, o)
			}
			c.r.Check(bad == "", rule, key, c.pos(st), "sender's wire value, sender's own slot and receivers' slot agree", bad)
		}
	}
	c.r.Tables["round1_broadcast_slots"] = table
	// the stored private key is the one whose public half was sent and filed
	skSrc, pkOwn := "", own["PaillierPKs"]
	for _, b := range r1.Blocks {
		for _, in := range b.Instrs {
			if st, ok := in.(*ssa.Store); ok {
				if fr := core.AsFieldAddr(st.Addr); fr != nil && fr.Name == "PaillierSK" && viaField(fr.Base, "save") {
					skSrc = descr(st.Val)
				}
			}
		}
	}
	c.r.Check(skSrc != "" && strings.Contains(pkOwn, strings.TrimPrefix(skSrc, "&")), rule, fkey(rule, r1, "own-paillier-key-pair"), c.fpos(r1), "save.PaillierSK and the own PaillierPKs slot are the two halves of one key", fmt.Sprintf("save.PaillierSK = %s but the own public-key slot = %s", skSrc, pkOwn))
	// share ids
	for _, b := range r1.Blocks {
		for _, in := range b.Instrs {
			if st, ok := in.(*ssa.Store); ok {
				if fr := core.AsFieldAddr(st.Addr); fr != nil && fr.Name == "ShareID" && viaField(fr.Base, "save") {
					d := descr(st.Val)
					c.r.Check(strings.Contains(d, "Keys()") && strings.Contains(d, "[self]"), rule, fkey(rule, r1, "share-id"), c.pos(st), "ShareID = Parties().IDs().Keys()[own index]", "ShareID is "+d)
				}
			}
		}
	}
	c.r.Floor(rule, 6)
	_ = n
}

// normSrc: canonical source text with address-of and local aliases removed.
func normSrc(s string) string {
	s = strings.TrimPrefix(s, "&")
	s = strings.ReplaceAll(s, "local:", "")
	return s
}

// typeAssertedMsgOrigin: index origin of msg in `msg.Content().(*T)` receivers.
func typeAssertedMsgOrigin(v ssa.Value) string {
	v = core.Strip(v)
	if ta, ok := v.(*ssa.TypeAssert); ok {
		v = core.Strip(ta.X)
	}
	if call, ok := v.(*ssa.Call); ok && call.Call.IsInvoke() && call.Call.Method.Name() == "Content" {
		return msgOrigin(call.Call.Value, 0)
	}
	return msgOrigin(v, 0)
}
