package rules

import (
	"fmt"
	"go/types"
	"sort"
	"strings"

	"golang.org/x/tools/go/ssa"

	"tsscheck/internal/core"
)

func init() { Registry["C04"] = runC04 }

func runC04(p *core.Prog, r *core.Report) {
	c := &ctx{p, r}
	r.Explain = "Resharing: same key, erase last — decided as who-may-write and must-pass-through rules over the two resharing packages, valid for every crash point and every delivery prefix because they are properties of the code rather than of a run: (R04.1) the only instruction in the module that can modify the old share (`input.Xi`: a store to the field, or an in-place *big.Int operation / a call of a function whose summary mutates that argument, found by the module-wide big.Int ownership and mutation analysis) is one call in the final round's Start, on the branch where IsNewCommittee() is false and IsOldCommittee() is true; (R04.2) the new key material (save.Xi, ShareID, Ks, BigXj) is written and the save data is sent on `end` only in the final round's Start; (R04.3) the acknowledgement message (the content type sent to both committees) is sent, and temp.newXi stored, only on paths where for every old member the de-commitment opened with the expected arity, the points decoded, Share.Verify accepted, and the combined constant term equals the group key the party was told (Equals on save.<group key>); (R04.4) the final round type is constructed only by the acknowledgement round's NextRound, the round engine advances only when CanProceed holds (shared R07.3) and the acknowledgement round sets a peer's flag only on a stored, accepted message (shared R08.2); (R04.5) in the final round no error return is reachable on the new-committee branch before the send on `end`."
	r.Undec = "that the new sharing is of the same key (Lagrange/Feldman algebra over runtime values), that any t'+1 new members can sign, threshold changes, chains of resharings; liveness of delivery."
	r.Assume = []string{"old and new committee party ids are distinct (a party is not in both committees)", "*big.Int values are modified only through math/big methods (no unsafe, no reflection)"}
	e := core.NewEffects(p)
	for _, rel := range []string{"ecdsa/resharing", "eddsa/resharing"} {
		pr := ExtractProtocol(p, rel)
		if len(pr.Rounds) == 0 {
			r.Unk("R04.0", core.Key("R04.0", rel, "-", "anchor"), rel, "no rounds extracted")
			continue
		}
		final := pr.Rounds[len(pr.Rounds)-1]
		c04Erase(c, e, pr, final)
		c04Publish(c, pr, final)
		c04Ack(c, pr, final)
		c04Gate(c, pr, final)
		c04NoAbortAfterAck(c, pr, final)
		c08Accept(c, pr)
		// the gate is the ok flags: every Start resets them before it can return successfully, every
		// Update visits every peer (shared R08.5)
		c08Waiting(c, pr)
		c04ShareBinding(c, pr, final)
	}
	c07Engine(c)
	c04Plumbing(c)
	aliasedInPlaceUpdates(c, "RA.1", "ecdsa/resharing", "eddsa/resharing", "crypto/vss", "crypto", "common")
}

// roleFact: the committee-role accessor (IsNewCommittee / IsOldCommittee) is known to have returned `want`.
func roleFact(facts []core.TFact, method string, want bool) bool {
	for _, f := range facts {
		if f.Kind == core.FCall && f.Bool == want && strings.HasSuffix(core.CalleeName(f.Call), ")."+method) {
			return true
		}
	}
	return false
}

func isShareField(fr *core.FieldRef) bool { return fr != nil && fr.Name == "Xi" }

// viaField: the address/value is reached through a field of the given name (input / save).
func viaField(v ssa.Value, name string) bool {
	for i := 0; i < 12 && v != nil; i++ {
		v = core.Strip(v)
		switch x := v.(type) {
		case *ssa.UnOp:
			v = x.X
		case *ssa.FieldAddr:
			fr := core.AsFieldAddr(x)
			if fr != nil && fr.Name == name {
				return true
			}
			v = x.X
		case *ssa.Field:
			fr := core.AsFieldLoad(x)
			if fr != nil && fr.Name == name {
				return true
			}
			v = x.X
		case *ssa.IndexAddr:
			v = x.X
		default:
			return false
		}
	}
	return false
}

// ---- R04.1 -----------------------------------------------------------------------------------

func c04Erase(c *ctx, e *core.Effects, pr *Protocol, final *Round) {
	const rule = "R04.1"
	type site struct {
		in   ssa.Instruction
		what string
	}
	var sites []site
	// in-place operations and mutating calls whose target may be the old share
	rels := []string{pr.Rel, "crypto/vss", "crypto", "common", "tss", "crypto/commitments"}
	if strings.HasPrefix(pr.Rel, "ecdsa") {
		rels = append(rels, "ecdsa/keygen", "ecdsa/signing", "crypto/paillier", "crypto/facproof", "crypto/modproof", "crypto/dlnproof")
	} else {
		rels = append(rels, "eddsa/keygen", "eddsa/signing")
	}
	for _, m := range e.NonFreshMutations(pr.Rel) {
		isShare := false
		for _, o := range m.Origins {
			if (o.Kind == "field" || o.Kind == "elem") && strings.HasSuffix(o.Field, ".Xi") && strings.Contains(o.Field, "keygen.") {
				isShare = true
			}
		}
		if isShare && viaField(m.Target, "input") {
			sites = append(sites, site{m.Call.(ssa.Instruction), "in-place write through " + descr(m.Target)})
		}
	}
	// stores to the field itself, or to the whole input record
	for _, fn := range c.p.FuncsOfPkg(pr.Rel) {
		for _, b := range fn.Blocks {
			for _, in := range b.Instrs {
				st, ok := in.(*ssa.Store)
				if !ok {
					continue
				}
				if fr := core.AsFieldAddr(st.Addr); isShareField(fr) && viaField(fr.Base, "input") {
					sites = append(sites, site{st, "store to input.Xi"})
				}
				if ld, isLd := core.Strip(st.Addr).(*ssa.UnOp); isLd {
					if fr := core.AsFieldAddr(ld.X); fr != nil && fr.Name == "input" {
						sites = append(sites, site{st, "overwrites the whole input record"})
					}
				}
			}
		}
	}
	finalStart := final.Fns["Start"]
	n := 0
	for _, s := range sites {
		n++
		fn := core.Outermost(s.in.Parent())
		key := fkey(rule, fn, "erase-site")
		if fn != finalStart {
			c.r.Bad(rule, key, c.pos(s.in), s.what+": the old share can be modified outside the final round's Start — before every new member has acknowledged (a crash or a missing message now loses the key)")
			continue
		}
		facts := core.TFactsAt(s.in.Block(), 0)
		notNew := roleFact(facts, "IsNewCommittee", false)
		isOld := roleFact(facts, "IsOldCommittee", true)
		c.r.Check(notNew && isOld, rule, key, c.pos(s.in), s.what+" on the branch !IsNewCommittee() && IsOldCommittee()", fmt.Sprintf("%s in the final round but not confined to old-only members (IsNewCommittee()==false established: %v, IsOldCommittee()==true established: %v)", s.what, notNew, isOld))
	}
	c.r.Check(n >= 1, rule, core.Key(rule, pr.Rel, final.Name+".Start", "erase-exists"), c.fpos(finalStart), "the old share is erased in the final round", "no instruction erases the old share: old members keep a usable share of the key after handing it over")
	_ = rels
}

// ---- R04.2 -----------------------------------------------------------------------------------

var newKeyFields = map[string]bool{"Xi": true, "ShareID": true, "Ks": true, "BigXj": true}

func c04Publish(c *ctx, pr *Protocol, final *Round) {
	const rule = "R04.2"
	finalStart := final.Fns["Start"]
	for _, fn := range c.p.FuncsOfPkg(pr.Rel) {
		if strings.HasPrefix(fn.Name(), "NewLocalParty") || fn.Name() == "init" {
			continue
		}
		for _, b := range fn.Blocks {
			for _, in := range b.Instrs {
				switch x := in.(type) {
				case *ssa.Store:
					fr := core.AsFieldAddr(x.Addr)
					if fr == nil || !newKeyFields[fr.Name] || !viaField(fr.Base, "save") {
						continue
					}
					top := core.Outermost(fn)
					key := fkey(rule, top, "publish:save."+fr.Name)
					if top != finalStart {
						c.r.Bad(rule, key, c.pos(x), "new key material is written into the save data before the final round: a party that stops here holds a share nobody acknowledged")
						continue
					}
					isNew := roleFact(core.TFactsAt(b, 0), "IsNewCommittee", true)
					c.r.Check(isNew, rule, key, c.pos(x), "written in the final round on the IsNewCommittee() branch", "written in the final round outside the IsNewCommittee() branch")
				case *ssa.Send:
					if fr := core.AsFieldLoad(core.Strip(x.Chan)); fr != nil && fr.Name == "end" {
						top := core.Outermost(fn)
						key := fkey(rule, top, "emit:end")
						c.r.Check(top == finalStart, rule, key, c.pos(x), "save data emitted by the final round only", "save data is emitted on `end` outside the final round's Start")
					}
				}
			}
		}
	}
	c.r.Floor(rule, 10)
}

// ---- R04.3 -----------------------------------------------------------------------------------

func ackContent(pr *Protocol) *Content {
	for _, ct := range pr.Contents {
		if ct.Ctor != nil && ct.Ctor.Flags["IsToOldAndNewCommittees"] == "true" && len(ct.Ctor.Fields) == 0 {
			return ct
		}
	}
	for _, ct := range pr.Contents {
		if ct.Ctor != nil && ct.Ctor.Flags["IsToOldAndNewCommittees"] == "true" {
			return ct
		}
	}
	return nil
}

func c04Ack(c *ctx, pr *Protocol, final *Round) {
	const rule = "R04.3"
	ack := ackContent(pr)
	if ack == nil {
		c.r.Unk(rule, core.Key(rule, pr.Rel, "-", "ack-type"), pr.Rel, "no content type sent to both committees found")
		return
	}
	var ackRound *Round
	var sends []*SendSite
	for _, rd := range pr.Rounds {
		for _, s := range rd.Sends {
			if s.Ctor != nil && s.Ctor.Content == ack.Name {
				ackRound = rd
				sends = append(sends, s)
			}
		}
	}
	if ackRound == nil {
		c.r.Unk(rule, core.Key(rule, pr.Rel, ack.Name, "ack-send"), pr.Rel, "no send of "+ack.Name+" found")
		return
	}
	st := ackRound.Fns["Start"]
	var points []ssa.Instruction
	for _, s := range sends {
		points = append(points, s.Send)
	}
	for _, b := range st.Blocks {
		for _, in := range b.Instrs {
			if x, ok := in.(*ssa.Store); ok {
				if fr := core.AsFieldAddr(x.Addr); fr != nil && fr.Name == "newXi" {
					points = append(points, x)
				}
			}
		}
	}
	for _, pt := range points {
		label := "ack-send"
		if _, isSt := pt.(*ssa.Store); isSt {
			label = "store:temp.newXi"
		}
		key := fkey(rule, st, label)
		facts := core.TFactsAt(pt.Block(), 1)
		var all []core.TFact
		all = append(all, facts...)
		for _, ff := range core.ForallFactsAt(pt.Block(), 1) {
			all = append(all, ff.TFact)
		}
		var missing []string
		// group key comparison: Vc[0].Equals(save.<group key>) true
		okKey := false
		for _, f := range facts {
			if f.Kind == core.FCall && f.Bool && strings.HasSuffix(core.CalleeName(f.Call), "ECPoint).Equals") {
				a := f.Call.Call.Args
				d0, d1 := descr(a[0]), descr(a[1])
				if (strings.Contains(d1, "save.ECDSAPub") || strings.Contains(d1, "save.EDDSAPub")) && strings.Contains(d0, "[0]") {
					okKey = true
				}
			}
		}
		if !okKey {
			missing = append(missing, "V_0 == group key (Equals on save.<group key>)")
		}
		okVerify, okDecommit, okDecode := false, false, false
		for _, f := range all {
			if f.Kind == core.FCall && f.Bool && strings.HasSuffix(core.CalleeName(f.Call), "vss.Share).Verify") {
				okVerify = true
			}
			if f.Kind == core.FBool && f.Bool && f.X != nil && f.X.V != nil {
				if ex, isE := core.Strip(f.X.V).(*ssa.Extract); isE && ex.Index == 0 {
					if call, isC := ex.Tuple.(*ssa.Call); isC && strings.HasSuffix(core.CalleeName(call), ".DeCommit") {
						okDecommit = true
					}
				}
			}
			if f.Kind == core.FNil && f.Bool && f.X != nil && f.X.V != nil {
				if ex, isE := core.Strip(f.X.V).(*ssa.Extract); isE && ex.Index == 1 {
					if call, isC := ex.Tuple.(*ssa.Call); isC && strings.HasSuffix(core.CalleeName(call), "UnFlattenECPoints") {
						okDecode = true
					}
				}
			}
		}
		if !okVerify {
			missing = append(missing, "Share.Verify accepted for every old member")
		}
		if !okDecommit {
			missing = append(missing, "de-commitment opened for every old member")
		}
		if !okDecode {
			missing = append(missing, "commitment points decoded for every old member")
		}
		c.r.Check(len(missing) == 0, rule, key, c.pos(pt), "reached only after share, commitment and group-key checks on every old member", "reachable without: "+strings.Join(missing, "; ")+" — the old committee would be told to erase although this member did not verify its share")
	}
	c.r.Floor(rule, 4)
}

// ---- R04.4 -----------------------------------------------------------------------------------

func c04Gate(c *ctx, pr *Protocol, final *Round) {
	const rule = "R04.4"
	ack := ackContent(pr)
	var ackRound *Round
	for _, rd := range pr.Rounds {
		for _, s := range rd.Sends {
			if ack != nil && s.Ctor != nil && s.Ctor.Content == ack.Name {
				ackRound = rd
			}
		}
	}
	if ackRound == nil {
		return
	}
	key := core.Key(rule, pr.Rel, final.Name, "constructed-only-by:"+ackRound.Name+".NextRound")
	var where []string
	for _, fn := range c.p.FuncsOfPkg(pr.Rel) {
		for _, b := range fn.Blocks {
			for _, in := range b.Instrs {
				if al, ok := in.(*ssa.Alloc); ok {
					if nt := namedOfType(al.Type()); nt != nil && nt == final.Named {
						where = append(where, core.FuncName(core.Outermost(fn)))
					}
				}
			}
		}
	}
	sort.Strings(where)
	okOnly := len(where) >= 1
	for _, w := range where {
		if !strings.HasSuffix(w, ackRound.Name+").NextRound") {
			okOnly = false
		}
	}
	c.r.Check(okOnly && ackRound.Next == final.Name, rule, key, c.fpos(final.Fns["Start"]), "the erasing round is entered only from the acknowledgement round", fmt.Sprintf("the final round is constructed in %v (expected only %s.NextRound): the erasing round can start without the acknowledgements", where, ackRound.Name))
	// the acknowledgement round waits for the acknowledgement array of the new committee
	scans := strings.Join(ackRound.Scans, ",")
	arr := pr.StoreTab[ack.Name]
	c.r.Check(arr != "" && strings.Contains(scans, arr), rule, core.Key(rule, pr.Rel, ackRound.Name+".Update", "waits-for:"+arr), c.fpos(ackRound.Fns["Update"]), "Update scans the acknowledgement array", "the acknowledgement round's Update does not look at the acknowledgement array "+arr)
}

// ---- R04.5 -----------------------------------------------------------------------------------

func c04NoAbortAfterAck(c *ctx, pr *Protocol, final *Round) {
	const rule = "R04.5"
	st := final.Fns["Start"]
	n := 0
	for _, g := range core.WithClosures(st) {
		for _, ret := range core.Returns(g) {
			if _, abort := abortAction(ret); !abort {
				continue
			}
			isNew := roleFact(core.TFactsAt(ret.Block(), 0), "IsNewCommittee", true)
			if !isNew {
				continue // the "already started" guard
			}
			n++
			key := fkey(rule, st, "abort-after-ack:"+blameLabelOfReturn(ret))
			c.r.Bad(rule, key, c.pos(ret), "a new member can abort in the final round, after every old member has been told to erase: one deviating new member makes an honest new member lose its share while the old shares are gone")
		}
	}
	c.r.Check(true, rule, core.Key(rule, pr.Rel, final.Name+".Start", "scanned"), c.fpos(st), fmt.Sprintf("%d error returns on the new-committee branch of the final round", n), "")
}

func blameLabelOfReturn(ret *ssa.Return) string {
	for _, r := range ret.Results {
		if call, ok := core.Strip(r).(*ssa.Call); ok {
			return blameLabel(call)
		}
	}
	return "return"
}

// ---- R04.6 parameter plumbing -------------------------------------------------------------------
//
// The (t', n') the caller asked for reach the protocol through one constructor and one getter each:
// a constructor stores each parameter in the field of the same name, forwards its parameters to the
// embedded constructor under the same names, and every accessor returns the field it is named after.
// An exchange of two ints of the same type compiles, keeps every run self-consistent, and silently
// produces a sharing with another threshold.

var getterExceptions = map[string]string{
	"OldPartyCount": "partyCount", // the declared size of the original committee is the embedded Parameters' partyCount
}

func c04Plumbing(c *ctx) {
	const rule = "R04.6"
	for _, name := range []string{"NewParameters", "NewReSharingParameters"} {
		fn := c.p.Func("tss", name)
		if fn == nil {
			c.r.Unk(rule, core.Key(rule, "tss", name, "anchor"), "tss", "constructor not found")
			continue
		}
		byName := map[string]*ssa.Parameter{}
		for _, p := range fn.Params {
			byName[strings.ToLower(p.Name())] = p
		}
		assigned := map[string]bool{}
		for _, b := range fn.Blocks {
			for _, in := range b.Instrs {
				switch x := in.(type) {
				case *ssa.Store:
					fr := core.AsFieldAddr(x.Addr)
					if fr == nil {
						continue
					}
					key := fkey(rule, fn, "field:"+fr.Name)
					p, isP := core.Strip(x.Val).(*ssa.Parameter)
					want := byName[strings.ToLower(fr.Name)]
					if want != nil {
						assigned[fr.Name] = true
						c.r.Check(isP && p == want, rule, key, c.pos(x), "initialised from the parameter of the same name", fmt.Sprintf("field %s is initialised from %s although the constructor has a parameter %q: the caller's value never reaches the protocol", fr.Name, descr(x.Val), want.Name()))
					} else if isP {
						// a parameter stored under another name is fine unless its own name is a field of the struct
						if _, clash := fieldByLowerName(fr.Struct, strings.ToLower(p.Name())); clash {
							c.r.Bad(rule, key, c.pos(x), fmt.Sprintf("parameter %q is stored in field %s although the struct has a field of the parameter's own name", p.Name(), fr.Name))
						} else {
							c.r.OK(rule, key, c.pos(x), "initialised from parameter "+p.Name())
						}
					}
				case *ssa.Call:
					g := core.Callee(x)
					if g == nil || !isModuleFn(g) || !strings.HasPrefix(g.Name(), "New") {
						continue
					}
					for i, a := range x.Call.Args {
						p, isP := core.Strip(a).(*ssa.Parameter)
						if !isP || i >= len(g.Params) {
							continue
						}
						key := fkey(rule, fn, "forward:"+g.Name()+"."+g.Params[i].Name())
						c.r.Check(strings.EqualFold(p.Name(), g.Params[i].Name()) || byName[strings.ToLower(g.Params[i].Name())] == nil, rule, key, c.pos(x), "forwarded under the same name", fmt.Sprintf("%s's parameter %q receives %q although the caller has a parameter named %q", g.Name(), g.Params[i].Name(), p.Name(), g.Params[i].Name()))
					}
				}
			}
		}
	}
	// accessors
	for _, tn := range []string{"Parameters", "ReSharingParameters"} {
		nt := c.p.NamedType("tss", tn)
		if nt == nil {
			continue
		}
		for _, fn := range c.p.FuncsOfPkg("tss") {
			if fn.Signature.Recv() == nil || namedOfType(fn.Signature.Recv().Type()) != nt || fn.Signature.Params().Len() != 0 || fn.Signature.Results().Len() != 1 {
				continue
			}
			rets := core.Returns(fn)
			if len(rets) != 1 {
				continue
			}
			fr := core.AsFieldLoad(core.Strip(rets[0].Results[0]))
			if fr == nil {
				continue
			}
			key := fkey(rule, fn, "accessor")
			want := strings.ToLower(fn.Name())
			if ex, ok := getterExceptions[fn.Name()]; ok {
				want = strings.ToLower(ex)
			}
			c.r.Check(strings.ToLower(fr.Name) == want, rule, key, c.fpos(fn), "returns the field it is named after", fmt.Sprintf("%s() returns field %s", fn.Name(), fr.Name))
		}
	}
	c.r.Floor(rule, 20)
}

func fieldByLowerName(st interface {
	NumFields() int
	Field(int) *types.Var
}, lower string) (*types.Var, bool) {
	for i := 0; i < st.NumFields(); i++ {
		if strings.ToLower(st.Field(i).Name()) == lower {
			return st.Field(i), true
		}
	}
	return nil, false
}
