package rules

import (
	"golang.org/x/tools/go/ssa"

	"tsscheck/internal/core"
)

// c04ShareBinding (R04.7): the share the rounds erase is the caller's. The party constructor hands
// the rounds the key data it was given; re-binding the share field of that record anywhere in the
// package (`subset.Xi = new(big.Int).Set(key.Xi)`, a "defensive copy") makes the final round wipe a
// private temporary while the caller's key data keeps a usable share. The only store to a field
// named Xi of key-data type in a resharing package is the publication of the new share in the final
// round (save.Xi, R04.2).
func c04ShareBinding(c *ctx, pr *Protocol, final *Round) {
	const rule = "R04.7"
	finalStart := final.Fns["Start"]
	n := 0
	for _, fn := range c.p.FuncsOfPkg(pr.Rel) {
		for _, b := range fn.Blocks {
			for _, in := range b.Instrs {
				st, ok := in.(*ssa.Store)
				if !ok {
					continue
				}
				fr := core.AsFieldAddr(st.Addr)
				if !isShareField(fr) {
					continue
				}
				n++
				top := core.Outermost(fn)
				key := fkey(rule, top, "rebinds-share-field")
				if top == finalStart && viaField(fr.Base, "save") {
					c.r.OK(rule, key, c.pos(st), "publication of the new share in the final round")
					continue
				}
				c.r.Bad(rule, key, c.pos(st), "the share field Xi of a key-data record is re-bound to "+descr(st.Val)+": the record the rounds work on no longer shares the caller's *big.Int, so the erasure in the final round does not reach the caller's key data")
			}
		}
	}
	// the input record is built from the constructor's key parameter without copying the share
	for _, fn := range c.p.FuncsOfPkg(pr.Rel) {
		if fn.Name() != "NewLocalParty" {
			continue
		}
		key := fkey(rule, fn, "input-aliases-callers-key")
		okAlias := false
		for _, b := range fn.Blocks {
			for _, in := range b.Instrs {
				st, isSt := in.(*ssa.Store)
				if !isSt {
					continue
				}
				if fr := core.AsFieldAddr(st.Addr); fr != nil && fr.Name == "input" {
					w := core.NewDepWalker(fn, false)
					w.Walk(st.Val)
					for k := range w.Out {
						if k == "param:1" {
							okAlias = true
						}
					}
				}
			}
		}
		c.r.Check(okAlias, rule, key, c.fpos(fn), "the input record derives from the caller's key parameter", "the party's input record is not derived from the key data the caller passed")
	}
	c.r.Floor(rule, 2)
	_ = n
}
