package rules

import (
	"fmt"
	"go/token"
	"go/types"
	"os"
	"sort"
	"strings"

	"golang.org/x/tools/go/ssa"

	"tsscheck/internal/core"
)

func init() { Registry["C05"] = runC05 }

func runC05(p *core.Prog, r *core.Report) {
	c := &c05ctx{ctx: &ctx{p, r}}
	r.Explain = "A deviating peer is caught and is the one blamed — decided as four structural necessary conditions over the round code of the six protocols and the verifier wrappers they call: (R05.1 must-verify) every proof, de-commitment and share a message carries (accessors whose result type has a Verify method, de-commitment lists, share fields; enumerated from the content types) flows, in some round that reads it, into the receiver or an argument of its verifier; (R05.2 must-branch) the boolean / error result of every verifier call is data-depended on by a branch one of whose edges cannot reach any exit without an abort action (return of a non-nil error, send of an error/false on a result channel, recording a culprit), following the result through channels, result arrays and completion callbacks; culprit accumulators are consumed by a returned error; (R05.3 blame index) at every abort site that names culprits, the culprit's index origin equals the index origin of the message-array elements its controlling conditions depend on (one peer ⇒ exactly that peer; none ⇒ nobody or self), and culprit values computed in asynchronously run closures do not read variables the spawning loop reassigns; (R12.4) provers and verifiers are called with ssid‖index of the same party."
	r.Undec = "that the checks performed are sufficient (soundness of the proofs: C11/C12; protocol-level argument), cross-party equality of outputs, the resharing liveness sentence (C04 R04.5), blame through data kept in key data from earlier protocol runs."
	r.Assume = []string{"a verifier returning false/err is the only way a deviation is detected; the proofs themselves are sound"}
	c.collect()
	c05MustBranch(c)
	c05MustVerify(c)
	c05Blame2(c)
	c05RingPedersenUniqueness(c.ctx)
	c12Contexts(c.ctx)
	// the resharing sentence of the property: old shares are erased only in the final round (R04.1)
	// and a new member cannot abort after the acknowledgements (R04.5) — shared with C04
	e := core.NewEffects(p)
	for _, rel := range []string{"ecdsa/resharing", "eddsa/resharing"} {
		pr := ExtractProtocol(p, rel)
		if len(pr.Rounds) == 0 {
			continue
		}
		final := pr.Rounds[len(pr.Rounds)-1]
		c04Erase(c.ctx, e, pr, final)
		c04NoAbortAfterAck(c.ctx, pr, final)
	}
}

type vcall struct {
	call    *ssa.Call
	fn, top *ssa.Function
	rel     string
	kind    string      // verify | decommit | mta | dln
	results []ssa.Value // the values that signal failure
	note    string
}

type c05ctx struct {
	*ctx
	tops  []*ssa.Function // round Start/Update functions and verifier wrappers, outermost
	relOf map[*ssa.Function]string
	calls []*vcall
}

var mtaWrappers = []string{"~/crypto/mta.BobMid", "~/crypto/mta.BobMidWC", "~/crypto/mta.AliceEnd", "~/crypto/mta.AliceEndWC"}

func (c *c05ctx) collect() {
	c.relOf = map[*ssa.Function]string{}
	add := func(f *ssa.Function, rel string) {
		if f != nil && c.relOf[f] == "" {
			c.tops = append(c.tops, f)
			c.relOf[f] = rel
		}
	}
	for _, rel := range protoRels {
		pr := ExtractProtocol(c.p, rel)
		for _, rd := range pr.Rounds {
			add(rd.Fns["Start"], rel)
			add(rd.Fns["Update"], rel)
		}
	}
	for _, n := range []string{"BobMid", "BobMidWC", "AliceEnd", "AliceEndWC"} {
		add(c.p.Func("crypto/mta", n), "crypto/mta")
	}
	for _, n := range []string{"VerifyDLNProof1", "VerifyDLNProof2"} {
		add(c.p.Method("ecdsa/keygen", "DlnProofVerifier", n), "ecdsa/keygen")
	}
	for _, top := range c.tops {
		for _, g := range unitFuncs(top) {
			for _, cs := range core.Calls(g) {
				call, ok := cs.(*ssa.Call)
				if !ok {
					continue
				}
				callee := core.Callee(call)
				if callee == nil || !isModuleFn(callee) {
					continue
				}
				vc := &vcall{call: call, fn: g, top: top, rel: c.relOf[top]}
				sig := callee.Signature
				switch {
				case callee.Name() == "Verify" && sig.Recv() != nil:
					vc.kind = "verify"
				case callee.Name() == "DeCommit" && sig.Recv() != nil:
					vc.kind = "decommit"
				case core.CallIs(call, mtaWrappers...):
					vc.kind = "mta"
				case callee.Name() == "VerifyDLNProof1" || callee.Name() == "VerifyDLNProof2":
					vc.kind = "dln"
				default:
					continue
				}
				// failure-signalling results: bool and error results
				if vc.kind == "dln" {
					// delivered to the completion callback's bool parameter
					if mc, isMC := core.Strip(call.Call.Args[len(call.Call.Args)-1]).(*ssa.MakeClosure); isMC {
						cb := mc.Fn.(*ssa.Function)
						if len(cb.Params) == 1 {
							vc.results = append(vc.results, cb.Params[0])
						}
					}
					if len(vc.results) == 0 {
						vc.note = "completion callback is not a closure literal with one parameter"
					}
				} else {
					res := sig.Results()
					for i := 0; i < res.Len(); i++ {
						t := res.At(i).Type()
						isBool := types.Identical(t.Underlying(), types.Typ[types.Bool])
						isErr := t.String() == "error" || strings.HasSuffix(t.String(), "tss.Error")
						if vc.kind == "decommit" && i != 0 {
							continue
						}
						if !isBool && !isErr {
							continue
						}
						if res.Len() == 1 {
							vc.results = append(vc.results, call)
						} else if ex := extractOf(call, i); ex != nil {
							vc.results = append(vc.results, ex)
						} else {
							vc.note += fmt.Sprintf("result %d is discarded; ", i)
						}
					}
				}
				c.calls = append(c.calls, vc)
			}
		}
	}
	sort.SliceStable(c.calls, func(i, j int) bool { return c.calls[i].call.Pos() < c.calls[j].call.Pos() })
	c.r.Stats["round_and_wrapper_functions"] = len(c.tops)
	c.r.Stats["verifier_calls"] = len(c.calls)
}

// ---- abort actions and must-abort edges ---------------------------------------------------

func isErrType(t types.Type) bool {
	s := t.String()
	return s == "error" || strings.HasSuffix(s, "/tss.Error")
}

func isPartyIDPtr(t types.Type) bool { return strings.HasSuffix(t.String(), "/tss.PartyID") }

func nonNilHere(v ssa.Value, b *ssa.BasicBlock) bool {
	v = core.Strip(v)
	if definitelyNonNil(v) {
		return true
	}
	if core.IsNilConst(v) {
		return false
	}
	for _, f := range core.FactsAt(b) {
		if f.Kind == core.FNil && !f.Bool && core.Strip(f.X) == v {
			return true
		}
	}
	return false
}

// abortAction: the instruction reports a failure — returns a non-nil error, sends an error / false /
// a result record carrying an error, calls a completion callback with false, or records a culprit.
func abortAction(in ssa.Instruction) (string, bool) {
	b := in.Block()
	switch x := in.(type) {
	case *ssa.Return:
		for _, r := range x.Results {
			if isErrType(r.Type()) && nonNilHere(r, b) {
				return "returns an error", true
			}
		}
	case *ssa.Send:
		v := core.Strip(x.X)
		if k, isK := core.ConstBool(v); isK && !k {
			return "sends false", true
		}
		if isErrType(v.Type()) && nonNilHere(v, b) {
			return "sends an error", true
		}
		// result record {err, …}
		if ld, isLd := v.(*ssa.UnOp); isLd && ld.Op == token.MUL {
			for _, sv := range storedFields(ld.X) {
				if isErrType(sv.Type()) && nonNilHere(sv, b) {
					return "sends a result record carrying an error", true
				}
				if mi, isMI := sv.(*ssa.MakeInterface); isMI && nonNilHere(mi.X, b) {
					return "sends a result record carrying an error", true
				}
			}
		}
	case *ssa.Store:
		if isCulpritSlotStore(x) {
			return "records a culprit", true
		}
	case *ssa.Call:
		if bi, isB := x.Call.Value.(*ssa.Builtin); isB && bi.Name() == "append" {
			if sl, isSl := x.Type().Underlying().(*types.Slice); isSl && isPartyIDPtr(sl.Elem()) {
				// append(culprits, Pj) — not the concatenation of two culprit lists
				if segs, ok := core.SeqOf(x.Call.Args[1]); ok && !hasSplice(segs) && len(segs) > 0 {
					return "records a culprit", true
				}
			}
		}
		// a local helper closure every path of which reports a failure (fail := func(msg string){ ch <- result{err} })
		if g := core.Callee(x); g != nil && g.Parent() != nil && len(g.Blocks) > 0 && !abortHelperBusy[g] {
			if core.Outermost(g) == core.Outermost(x.Parent()) && g != x.Parent() {
				abortHelperBusy[g] = true
				a := &abortCFG{}
				must := a.mustAbort(g.Blocks[0])
				delete(abortHelperBusy, g)
				if must {
					return "calls a local helper that reports the failure", true
				}
			}
		}
		// completion callback invoked with false
		if _, isP := core.Strip(x.Call.Value).(*ssa.Parameter); isP || isFreeVarParam(x.Call.Value) {
			if len(x.Call.Args) == 1 {
				if k, isK := core.ConstBool(core.Strip(x.Call.Args[0])); isK && !k {
					return "reports false to the completion callback", true
				}
			}
		}
	}
	return "", false
}

var abortHelperBusy = map[*ssa.Function]bool{}

// isCulpritSlotStore: a *PartyID stored into an element of a slice (not into the array backing a
// variadic argument list).
func isCulpritSlotStore(st *ssa.Store) bool {
	if !isPartyIDPtr(st.Val.Type()) {
		return false
	}
	ia, ok := st.Addr.(*ssa.IndexAddr)
	if !ok {
		return false
	}
	_, isSlice := ia.X.Type().Underlying().(*types.Slice)
	return isSlice
}

func isFreeVarParam(v ssa.Value) bool {
	fv, ok := core.Strip(v).(*ssa.FreeVar)
	if !ok {
		return false
	}
	_, isP := core.Strip(core.FreeVarBinding(fv)).(*ssa.Parameter)
	return isP
}

type abortCFG struct {
	memo map[*ssa.BasicBlock]int // unused marker kept for construction sites
	res  map[*ssa.BasicBlock]bool
	done map[*ssa.Function]bool
}

// mustAbort: every path from the start of b to an exit of the function passes an abort action.
// Greatest fixpoint over the function's CFG (a path that loops for ever has no exit).
func (a *abortCFG) mustAbort(b *ssa.BasicBlock) bool {
	fn := b.Parent()
	if a.done == nil {
		a.done = map[*ssa.Function]bool{}
		a.res = map[*ssa.BasicBlock]bool{}
	}
	if !a.done[fn] {
		a.done[fn] = true
		has := map[*ssa.BasicBlock]bool{}
		for _, x := range fn.Blocks {
			a.res[x] = true
			for _, in := range x.Instrs {
				if _, ok := abortAction(in); ok {
					has[x] = true
					break
				}
			}
		}
		for changed := true; changed; {
			changed = false
			for _, x := range fn.Blocks {
				if !a.res[x] || has[x] {
					continue
				}
				v := true
				if len(x.Succs) == 0 {
					_, isPanic := x.Instrs[len(x.Instrs)-1].(*ssa.Panic)
					v = isPanic
				} else {
					for _, s := range x.Succs {
						if !a.res[s] {
							v = false
						}
					}
				}
				if !v {
					a.res[x] = false
					changed = true
				}
			}
		}
	}
	return a.res[b]
}

type guard struct {
	iff     *ssa.If
	failing int // successor index that must abort
}

func abortGuards(top *ssa.Function) []guard {
	var out []guard
	for _, g := range unitFuncs(top) {
		a := &abortCFG{memo: map[*ssa.BasicBlock]int{}}
		for _, b := range g.Blocks {
			if len(b.Instrs) == 0 {
				continue
			}
			iff, ok := b.Instrs[len(b.Instrs)-1].(*ssa.If)
			if !ok {
				continue
			}
			m0, m1 := a.mustAbort(b.Succs[0]), a.mustAbort(b.Succs[1])
			switch {
			case m0 && !m1:
				out = append(out, guard{iff, 0})
			case m1 && !m0:
				out = append(out, guard{iff, 1})
			}
		}
	}
	return out
}

// ---- R05.2 ---------------------------------------------------------------------------------

func c05MustBranch(c *c05ctx) {
	const rule = "R05.2"
	guardsOf := map[*ssa.Function][]guard{}
	seenOf := map[*ssa.Function]map[ssa.Value]bool{}
	for _, top := range c.tops {
		gs := abortGuards(top)
		guardsOf[top] = gs
		w := core.NewDepWalker(top, false)
		w.FollowFieldStores = true
		w.NoIndexControl = true
		w.NoLoopCarriedControl = true
		for _, g := range gs {
			w.Walk(g.iff.Cond)
		}
		seenOf[top] = w.SeenSet()
	}
	for _, vc := range c.calls {
		key := fkey(rule, vc.top, "branch-on:"+core.CalleeShort(vc.call))
		if vc.note != "" && len(vc.results) == 0 {
			c.r.Bad(rule, key, c.pos(vc.call), "the verifier's verdict is unusable: "+vc.note)
			continue
		}
		bad := vc.note
		for _, res := range vc.results {
			if forwardedToCallback(res) {
				continue // the wrapper hands the verdict to its completion callback; the callbacks are checked at the registration sites
			}
			if !seenOf[vc.top][res] && vc.kind == "decommit" && arityGuardCovers(vc, guardsOf[vc.top]) {
				continue // a failed opening returns no values: the arity test on the values rejects it
			}
			if !seenOf[vc.top][res] {
				bad += fmt.Sprintf("no branch that leads to an abort (error return, error/false sent, culprit recorded) depends on the %s result; ", res.Type())
				continue
			}
			// when the result is branched on directly, the failing side must be the aborting side
			for _, g := range guardsOf[vc.top] {
				pol, direct := directPolarity(g.iff.Cond, res)
				if !direct {
					continue
				}
				isErr := isErrType(res.Type())
				// pol: the value of `res` (true / non-nil) on successor 0
				failSucc := 1
				if isErr == pol {
					failSucc = 0 // error non-nil on succ 0, or bool … see below
				}
				if !isErr {
					// bool result: failing = result false
					if pol {
						failSucc = 1
					} else {
						failSucc = 0
					}
				}
				if g.failing != failSucc {
					bad += "the branch at " + c.pos(g.iff) + " aborts when the verifier ACCEPTS and continues when it rejects; "
				}
			}
		}
		c.r.Check(bad == "", rule, key, c.pos(vc.call), "verdict controls an abort", bad+"a peer whose "+vc.kind+" check fails would not be stopped")
	}
	// culprit accumulators are consumed by a returned error whose guard depends on them
	for _, top := range c.tops {
		var rets []*ssa.Return
		for _, g := range core.WithClosures(top) {
			for _, ret := range core.Returns(g) {
				if _, ok := abortAction(ret); ok && g == top {
					rets = append(rets, ret)
				}
			}
		}
		w := core.NewDepWalker(top, false)
		for _, ret := range rets {
			for _, r := range ret.Results {
				w.Walk(r)
			}
			for _, f := range core.FactsAt(ret.Block()) {
				if f.If != nil {
					w.Walk(f.If.Cond)
				}
			}
		}
		for _, g := range core.WithClosures(top) {
			for _, b := range g.Blocks {
				for _, in := range b.Instrs {
					what, ok := abortAction(in)
					if !ok || what != "records a culprit" {
						continue
					}
					key := fkey(rule, top, "culprits-consumed")
					var v ssa.Value
					switch x := in.(type) {
					case *ssa.Store:
						v = x.Val
					case *ssa.Call:
						v = x
					}
					c.r.Check(w.Seen(v) || w.Seen(core.Strip(v)), rule, key, c.pos(in), "the recorded culprit reaches a returned error", "a culprit is recorded here but no returned error or its guard depends on the record: the failure is noted and then ignored")
				}
			}
		}
	}
	c.r.Floor(rule, 45)
}

// arityGuardCovers: the verifier returns (false, nil) whenever it fails (read off its own return
// statements), and an aborting guard rejects every length of the returned list but one positive k —
// so `!ok` implies the abort although `ok` itself is only tested in conjunction (signing round 9).
func arityGuardCovers(vc *vcall, guards []guard) bool {
	callee := core.Callee(vc.call)
	if callee == nil || callee.Blocks == nil {
		return false
	}
	for _, ret := range core.Returns(callee) {
		if len(ret.Results) != 2 {
			return false
		}
		if k, isK := core.ConstBool(core.Strip(ret.Results[0])); isK && !k {
			if !core.IsNilConst(core.Strip(ret.Results[1])) {
				return false
			}
		} else if !isK {
			return false // verdict not a constant per return: no correlation summary
		}
	}
	vals := extractOf(vc.call, 1)
	if vals == nil {
		return false
	}
	for _, g := range guards {
		bo, ok := core.Strip(g.iff.Cond).(*ssa.BinOp)
		if !ok || (bo.Op != token.NEQ && bo.Op != token.EQL) {
			continue
		}
		k, isK := core.ConstInt(core.Strip(bo.Y))
		if !isK || k < 1 {
			continue
		}
		t := core.TermOf(bo.X)
		if t.Op != "call:len" || valueOfTerm(t.Args[0]) != vals {
			continue
		}
		// failing side = the side where len != k
		failSucc := 0
		if bo.Op == token.EQL {
			failSucc = 1
		}
		if g.failing == failSucc {
			return true
		}
	}
	return false
}

// forwardedToCallback: res is passed as the only argument of a call of a function-typed parameter.
func forwardedToCallback(res ssa.Value) bool {
	refs := res.Referrers()
	if refs == nil {
		return false
	}
	for _, u := range *refs {
		if call, ok := u.(*ssa.Call); ok && len(call.Call.Args) == 1 && call.Call.Args[0] == res {
			if _, isP := core.Strip(call.Call.Value).(*ssa.Parameter); isP || isFreeVarParam(call.Call.Value) {
				return true
			}
		}
	}
	return false
}

// directPolarity: cond is `res`, `!res`, `res != nil`, `res == nil`; returns the truth (true / non-nil)
// of res on successor 0.
func directPolarity(cond, res ssa.Value) (bool, bool) {
	cond = core.Strip(cond)
	if cond == res {
		return true, true
	}
	switch x := cond.(type) {
	case *ssa.UnOp:
		if x.Op == token.NOT {
			p, ok := directPolarity(x.X, res)
			return !p, ok
		}
	case *ssa.BinOp:
		if (x.Op == token.NEQ || x.Op == token.EQL) && (core.Strip(x.X) == res && core.IsNilConst(core.Strip(x.Y)) || core.Strip(x.Y) == res && core.IsNilConst(core.Strip(x.X))) {
			return x.Op == token.NEQ, true
		}
	}
	return false, false
}

// ---- R05.1 ---------------------------------------------------------------------------------

// needsVerification: an accessor of a content type yields something a verifier must see.
func needsVerification(g *ssa.Function) (bool, string) {
	res := g.Signature.Results()
	if res.Len() == 0 {
		return false, ""
	}
	t := res.At(0).Type()
	if hasMethod(t, "Verify") {
		return true, "proof (" + typeName(t) + ")"
	}
	n := g.Name()
	if strings.Contains(n, "DeCommitment") {
		return true, "de-commitment"
	}
	if n == "UnmarshalShare" {
		return true, "share"
	}
	return false, ""
}

func hasMethod(t types.Type, name string) bool {
	for _, tt := range []types.Type{t, types.NewPointer(t)} {
		ms := types.NewMethodSet(tt)
		for i := 0; i < ms.Len(); i++ {
			if ms.At(i).Obj().Name() == name {
				return true
			}
		}
	}
	return false
}

func c05MustVerify(c *c05ctx) {
	const rule = "R05.1"
	// what each verifier call consumes: accessor calls of content types in the data deps of its operands
	type ak struct{ ct, acc string }
	verifiedBy := map[ak][]string{}
	contentOf := func(t types.Type) string {
		if nt := namedOfType(t); nt != nil && nt.Obj().Pkg() != nil {
			rel := strings.TrimPrefix(nt.Obj().Pkg().Path(), mod+"/")
			if pr, ok := protoCache[rel]; ok && pr.ByContent[nt.Obj().Name()] != nil {
				return rel + "." + nt.Obj().Name()
			}
		}
		return ""
	}
	for _, vc := range c.calls {
		w := core.NewDepWalker(vc.top, false)
		for _, a := range vc.call.Call.Args {
			w.Walk(a)
		}
		for v := range w.SeenSet() {
			call, ok := v.(*ssa.Call)
			if !ok {
				continue
			}
			g := core.Callee(call)
			if g == nil || g.Signature.Recv() == nil {
				continue
			}
			if ct := contentOf(g.Signature.Recv().Type()); ct != "" {
				k := ak{ct, g.Name()}
				verifiedBy[k] = append(verifiedBy[k], core.CalleeShort(vc.call)+"@"+c.pos(vc.call))
			}
		}
		// wrappers that take the message itself (DlnProofVerifier): accessors invoked on that parameter
		if vc.kind == "dln" {
			callee := core.Callee(vc.call)
			arg := core.Strip(vc.call.Call.Args[1])
			if mi, isMI := arg.(*ssa.MakeInterface); isMI {
				arg = core.Strip(mi.X)
			}
			ct := contentOf(arg.Type())
			// the wrapper, the goroutine body it starts (closure or named), and accessors handed to that
			// body as function values (method expressions become thunks that invoke the method)
			fns := unitFuncs(callee)
			for _, g := range append([]*ssa.Function{}, fns...) {
				for _, cs := range core.Calls(g) {
					for _, a := range cs.Common().Args {
						if f, isF := core.Strip(a).(*ssa.Function); isF && f.Blocks != nil {
							fns = append(fns, f)
						}
					}
				}
			}
			for _, g := range fns {
				for _, cs := range core.Calls(g) {
					if cs.Common().IsInvoke() && ct != "" {
						k := ak{ct, cs.Common().Method.Name()}
						verifiedBy[k] = append(verifiedBy[k], core.CalleeShort(vc.call)+"@"+c.pos(vc.call))
					}
				}
			}
		}
	}
	var table []string
	for _, rel := range protoRels {
		pr := ExtractProtocol(c.p, rel)
		for _, ct := range pr.Contents {
			for _, u := range ct.Unmarsh {
				need, what := needsVerification(u)
				if !need {
					continue
				}
				k := ak{rel + "." + ct.Name, u.Name()}
				key := core.Key(rule, rel, ct.Name, "verified:"+u.Name())
				by := verifiedBy[k]
				sort.Strings(by)
				table = append(table, fmt.Sprintf("%s.%s (%s) → %s", ct.Name, u.Name(), what, strings.Join(dedup(by), ", ")))
				c.r.Check(len(by) > 0, rule, key, c.fpos(u), "flows into "+strings.Join(dedup(by), ", "), fmt.Sprintf("the %s carried by %s (%s) is never handed to its verifier in any round: a peer can send an arbitrary one", what, ct.Name, u.Name()))
			}
		}
	}
	// raw share fields read without an accessor (resharing: DGRound3Message1.Share)
	for _, vc := range c.calls {
		if vc.kind != "verify" || !strings.HasSuffix(core.CalleeName(vc.call), "vss.Share).Verify") {
			continue
		}
		w := core.NewDepWalker(vc.top, false)
		w.Walk(vc.call.Call.Args[0])
		fromMsg := false
		for v := range w.SeenSet() {
			if fr := core.AsFieldLoad(v); fr != nil && contentOf(fr.Owner) != "" {
				fromMsg = true
			}
			if call, ok := v.(*ssa.Call); ok {
				if g := core.Callee(call); g != nil && g.Signature.Recv() != nil && contentOf(g.Signature.Recv().Type()) != "" {
					fromMsg = true
				}
			}
		}
		key := fkey(rule, vc.top, "share-from-message")
		c.r.Check(fromMsg, rule, key, c.pos(vc.call), "the verified share is the one the message carried", "Share.Verify is applied to a value that does not come from the peer's message")
	}
	c.r.Tables["payloads_and_their_verifiers"] = table
	c.r.Floor(rule, 27)
}

// ---- R05.3 ---------------------------------------------------------------------------------

// indexOrigin: which party an index value denotes — "self", "const:k", or "loop:<header>" for the
// peer enumerated by a counted loop of the outermost function.
func indexOrigin(v ssa.Value, depth int) string {
	if depth > 8 {
		return "?"
	}
	v = core.Strip(v)
	if isSelfIndex(v) {
		return "self"
	}
	if k, ok := core.ConstInt(v); ok {
		return fmt.Sprintf("const:%d", k)
	}
	if l := loopIdx(v); l != nil {
		return loopTag(v, l)
	}
	switch x := v.(type) {
	case *ssa.Parameter:
		if bindableParam(x) {
			if a := closureArg(x); a != nil {
				return indexOrigin(a, depth+1)
			}
		}
	case *ssa.FreeVar:
		if b := core.FreeVarBinding(x); b != nil {
			return indexOrigin(b, depth+1)
		}
	case *ssa.UnOp:
		if x.Op == token.MUL {
			// a local variable holding an index: single store
			addr := core.Strip(x.X)
			if fv, ok := addr.(*ssa.FreeVar); ok {
				if b := core.FreeVarBinding(fv); b != nil {
					addr = core.Strip(b)
				}
			}
			if al, ok := addr.(*ssa.Alloc); ok {
				var vals []ssa.Value
				if refs := al.Referrers(); refs != nil {
					for _, u := range *refs {
						if st, isSt := u.(*ssa.Store); isSt && st.Addr == ssa.Value(al) {
							vals = append(vals, st.Val)
						}
					}
				}
				if len(vals) == 1 {
					return indexOrigin(vals[0], depth+1)
				}
			}
			// the Index field of a PartyID taken from a party list: the list position
			if fr := core.AsFieldAddr(x.X); fr != nil && fr.Name == "Index" {
				if o := partyOrigin(fr.Base, depth+1); o != "?" {
					return o
				}
			}
		}
	case *ssa.Phi:
		o := ""
		for _, e := range x.Edges {
			eo := indexOrigin(e, depth+1)
			if o != "" && eo != o {
				return "?"
			}
			o = eo
		}
		if o != "" {
			return o
		}
	}
	return "?"
}

// partyOrigin: which party a *tss.PartyID value denotes.
func partyOrigin(v ssa.Value, depth int) string {
	if depth > 8 {
		return "?"
	}
	v = core.Strip(v)
	switch x := v.(type) {
	case *ssa.Call:
		n := core.CalleeName(x)
		if strings.HasSuffix(n, ".PartyID") {
			return "self"
		}
		if x.Call.IsInvoke() && x.Call.Method.Name() == "GetFrom" {
			return msgOrigin(x.Call.Value, depth+1)
		}
		if x.Call.IsInvoke() && x.Call.Method.Name() == "PartyID" {
			return "self"
		}
	case *ssa.UnOp:
		if x.Op == token.MUL {
			if ia, ok := x.X.(*ssa.IndexAddr); ok {
				return indexOrigin(ia.Index, depth+1)
			}
			addr := core.Strip(x.X)
			if fv, ok := addr.(*ssa.FreeVar); ok {
				if b := core.FreeVarBinding(fv); b != nil {
					addr = core.Strip(b)
				}
			}
			if al, ok := addr.(*ssa.Alloc); ok {
				var vals []ssa.Value
				if refs := al.Referrers(); refs != nil {
					for _, u := range *refs {
						if st, isSt := u.(*ssa.Store); isSt && st.Addr == ssa.Value(al) {
							vals = append(vals, st.Val)
						}
					}
				}
				if len(vals) == 1 {
					return partyOrigin(vals[0], depth+1)
				}
			}
		}
	case *ssa.Index:
		return indexOrigin(x.Index, depth+1)
	case *ssa.Parameter:
		if bindableParam(x) {
			if a := closureArg(x); a != nil {
				return partyOrigin(a, depth+1)
			}
		}
	case *ssa.FreeVar:
		if b := core.FreeVarBinding(x); b != nil {
			return partyOrigin(b, depth+1)
		}
	case *ssa.Phi:
		o := ""
		for _, e := range x.Edges {
			eo := partyOrigin(e, depth+1)
			if o != "" && eo != o {
				return "?"
			}
			o = eo
		}
		if o != "" {
			return o
		}
	}
	return "?"
}

// msgOrigin: the sender index of a stored message value (element of a message array).
func msgOrigin(v ssa.Value, depth int) string {
	if depth > 8 {
		return "?"
	}
	v = core.Strip(v)
	switch x := v.(type) {
	case *ssa.UnOp:
		if x.Op == token.MUL {
			if ia, ok := x.X.(*ssa.IndexAddr); ok {
				return indexOrigin(ia.Index, depth+1)
			}
			addr := core.Strip(x.X)
			if fv, ok := addr.(*ssa.FreeVar); ok {
				if b := core.FreeVarBinding(fv); b != nil {
					addr = core.Strip(b)
				}
			}
			if al, ok := addr.(*ssa.Alloc); ok {
				var vals []ssa.Value
				if refs := al.Referrers(); refs != nil {
					for _, u := range *refs {
						if st, isSt := u.(*ssa.Store); isSt && st.Addr == ssa.Value(al) {
							vals = append(vals, st.Val)
						}
					}
				}
				if len(vals) == 1 {
					return msgOrigin(vals[0], depth+1)
				}
			}
		}
	case *ssa.Index:
		return indexOrigin(x.Index, depth+1)
	case *ssa.Parameter:
		if bindableParam(x) {
			if a := closureArg(x); a != nil {
				return msgOrigin(a, depth+1)
			}
		}
	case *ssa.FreeVar:
		if b := core.FreeVarBinding(x); b != nil {
			return msgOrigin(b, depth+1)
		}
	case *ssa.Extract:
		// range over a slice of messages: (ok, key, value) of Next — not used for slices (index loads)
	}
	return "?"
}

// staleCapture: inside a closure that runs asynchronously, v is read from a variable that the
// spawning loop reassigns on every iteration (one variable shared by all iterations).
func staleCapture(v ssa.Value, cl *ssa.Function) (string, bool) {
	w := core.NewDepWalker(cl, false)
	_ = w
	seen := map[ssa.Value]bool{}
	var found string
	var walk func(v ssa.Value, d int)
	walk = func(v ssa.Value, d int) {
		if v == nil || d > 10 || seen[v] || found != "" {
			return
		}
		seen[v] = true
		// look at the load itself before Strip resolves a singly-stored variable to its stored value
		if ld, ok := v.(*ssa.UnOp); ok && ld.Op == token.MUL {
			if fv, isFV := ld.X.(*ssa.FreeVar); isFV && fv.Parent() == cl {
				if os.Getenv("VERIF_DEBUG_BLAME") != "" {
					fmt.Fprintf(os.Stderr, "   stale? freevar %s binding %T\n", fv.Name(), core.Strip(core.FreeVarBinding(fv)))
				}
				if al, isAl := core.Strip(core.FreeVarBinding(fv)).(*ssa.Alloc); isAl {
					for _, l := range loopsOf(al.Parent()) {
						if l.In[al.Block()] {
							continue // a fresh variable per iteration
						}
						if refs := al.Referrers(); refs != nil {
							for _, u := range *refs {
								if st, isSt := u.(*ssa.Store); isSt && st.Addr == ssa.Value(al) && l.In[st.Block()] {
									found = allocName(al)
								}
							}
						}
					}
					// range loops that are not counted loops: any store in a block that can reach itself
					if found == "" {
						if refs := al.Referrers(); refs != nil {
							for _, u := range *refs {
								if st, isSt := u.(*ssa.Store); isSt && st.Addr == ssa.Value(al) && st.Block() != al.Block() && core.Reaches(st.Block(), st.Block()) && !core.Reaches(st.Block(), al.Block()) {
									found = allocName(al)
								}
							}
						}
					}
				}
			}
		}
		if in, ok := v.(ssa.Instruction); ok && in.Parent() == cl {
			for _, op := range in.Operands(nil) {
				if *op != nil {
					walk(*op, d+1)
				}
			}
		}
	}
	walk(v, 0)
	return found, found != ""
}

func blameLabel(in ssa.Instruction) string {
	switch x := in.(type) {
	case *ssa.Call:
		if strings.HasSuffix(core.CalleeName(x), ".WrapError") {
			if len(x.Call.Args) > 1 {
				return "WrapError(" + shortDescr(x.Call.Args[1]) + ")"
			}
			return "WrapError"
		}
		return "append-culprit"
	case *ssa.Store:
		return "culprit-slot"
	}
	return "?"
}

func keysB(m map[string]bool) []string {
	var out []string
	for k := range m {
		out = append(out, k)
	}
	sort.Strings(out)
	return out
}
