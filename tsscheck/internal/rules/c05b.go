package rules

import (
	"fmt"
	"go/token"
	"go/types"
	"os"
	"sort"
	"strings"

	"golang.org/x/tools/go/ssa"

	"tsscheck/internal/core"
)

// ---- R05.3 blame index ---------------------------------------------------------------------
//
// For every site that names culprits (WrapError(err, culprits…), append to a culprit list, store
// into a culprit slot): the guards of the site are the branches whose aborting side contains it;
// D = the peers whose stored messages those guards' conditions depend on (by the index of the
// message-array element, resolved to the counted loop that enumerates it and that loop's domain:
// all parties / old committee / new committee); K = the parties named. A guard on peer j's message
// inside the iteration (or per-peer closure) for j must name exactly j; a check that aggregates
// over all peers, or fails on local data, may name only the party itself (or nobody).

var loopByTag = map[string]*core.Loop{}

var enclosingBusy = map[*ssa.Function]bool{}

func loopTag(v ssa.Value, l *core.Loop) string {
	tag := fmt.Sprintf("loop:%s.%d", v.Parent().Name(), l.Header.Index)
	loopByTag[tag] = l
	return tag
}

// enclosingLoops: counted loops around the instruction, through the creation sites of closures.
func enclosingLoops(in ssa.Instruction) []*core.Loop {
	var out []*core.Loop
	fn := in.Parent()
	for _, l := range loopsOf(fn) {
		// blocks of the iteration, including those that leave the loop by returning
		if l.In[in.Block()] || l.Body != nil && l.Body.Dominates(in.Block()) {
			out = append(out, l)
		}
	}
	if par := fn.Parent(); par != nil {
		for _, b := range par.Blocks {
			for _, i2 := range b.Instrs {
				if mc, ok := i2.(*ssa.MakeClosure); ok && mc.Fn == fn {
					out = append(out, enclosingLoops(mc)...)
				}
			}
		}
	} else if !enclosingBusy[fn] {
		// a private helper (a goroutine body factored into a method): the loops around its call sites
		enclosingBusy[fn] = true
		for _, cs := range core.ClosureCallSites(fn) {
			out = append(out, enclosingLoops(cs)...)
		}
		delete(enclosingBusy, fn)
	}
	return out
}

func classifyDomain(d string) string {
	switch {
	case strings.Contains(d, "OldParties") || strings.Contains(d, "OldPartyCount") || strings.Contains(d, "oldOK") || strings.Contains(d, "oldPartyCount"):
		return "old committee"
	case strings.Contains(d, "NewParties") || strings.Contains(d, "NewPartyCount") || strings.Contains(d, "newOK"):
		return "new committee"
	case strings.Contains(d, "Parties().IDs()") || strings.Contains(d, "PartyCount()") || strings.HasSuffix(d, ".ok)") || strings.HasSuffix(d, ".ok"):
		return "parties"
	}
	return d
}

var arrayClassCache = map[string]map[string]string{}

// arrayClasses: message array → domain of its allocation length (from the party constructor).
func arrayClasses(p *core.Prog, pr *Protocol) map[string]string {
	if m, ok := arrayClassCache[pr.Rel]; ok {
		return m
	}
	m := map[string]string{}
	for _, fn := range p.FuncsOfPkg(pr.Rel) {
		if !strings.HasPrefix(fn.Name(), "NewLocalParty") {
			continue
		}
		for _, b := range fn.Blocks {
			for _, in := range b.Instrs {
				if st, ok := in.(*ssa.Store); ok {
					if fa := core.AsFieldAddr(st.Addr); fa != nil && contains(pr.Arrays, fa.Name) {
						if mk, isMk := core.Strip(st.Val).(*ssa.MakeSlice); isMk {
							m[fa.Name] = classifyDomain(descr(mk.Len))
						}
					}
				}
			}
		}
	}
	arrayClassCache[pr.Rel] = m
	return m
}

// loopDomain: which set of parties the loop enumerates.
func loopDomain(p *core.Prog, pr *Protocol, l *core.Loop) string {
	return lenDomain(p, pr, l.Hi, 0)
}

func lenDomain(p *core.Prog, pr *Protocol, hi ssa.Value, depth int) string {
	if depth > 4 {
		return descr(hi)
	}
	t := core.TermOf(hi)
	if t.Op == "bin-" && constIs(t.Args[1], 1) && t.Args[0].V != nil {
		return lenDomain(p, pr, t.Args[0].V, depth+1)
	}
	if t.Op == "call:len" && t.Args[0].V != nil {
		base := core.Strip(t.Args[0].V)
		if mk, ok := base.(*ssa.MakeSlice); ok {
			return lenDomain(p, pr, mk.Len, depth+1)
		}
		if fr := core.AsFieldLoad(base); fr != nil {
			if cls, ok := arrayClasses(p, pr)[fr.Name]; ok {
				return cls
			}
		}
		// a local holding the list: single store
		if ld, ok := base.(*ssa.UnOp); ok && ld.Op == token.MUL {
			if al, isAl := core.Strip(ld.X).(*ssa.Alloc); isAl {
				var vals []ssa.Value
				if refs := al.Referrers(); refs != nil {
					for _, u := range *refs {
						if st, isSt := u.(*ssa.Store); isSt && st.Addr == ssa.Value(al) {
							vals = append(vals, st.Val)
						}
					}
				}
				if len(vals) == 1 {
					if mk, isMk := core.Strip(vals[0]).(*ssa.MakeSlice); isMk {
						return lenDomain(p, pr, mk.Len, depth+1)
					}
				}
			}
		}
	}
	return classifyDomain(descr(hi))
}

// isAccumulator: the slice is a list the function itself assembles (make / append / slice literal),
// not a party list.
func isAccumulator(v ssa.Value, depth int) bool {
	if depth > 6 {
		return false
	}
	v = core.Strip(v)
	switch x := v.(type) {
	case *ssa.MakeSlice:
		return true
	case *ssa.Slice:
		if _, isAl := core.Strip(x.X).(*ssa.Alloc); isAl {
			return true // slice literal
		}
		return isAccumulator(x.X, depth+1)
	case *ssa.Phi:
		for _, e := range x.Edges {
			if isAccumulator(e, depth+1) {
				return true
			}
		}
	case *ssa.Call:
		if bi, ok := x.Call.Value.(*ssa.Builtin); ok && bi.Name() == "append" {
			return true
		}
		if g := core.Callee(x); g != nil && g.Name() == "Culprits" {
			return true
		}
	case *ssa.UnOp:
		if x.Op == token.MUL {
			addr := core.Strip(x.X)
			if fv, ok := addr.(*ssa.FreeVar); ok {
				if b := core.FreeVarBinding(fv); b != nil {
					addr = core.Strip(b)
				}
			}
			if al, ok := addr.(*ssa.Alloc); ok {
				if refs := al.Referrers(); refs != nil {
					for _, u := range *refs {
						if st, isSt := u.(*ssa.Store); isSt && st.Addr == ssa.Value(al) && isAccumulator(st.Val, depth+1) {
							return true
						}
					}
				}
			}
			if fr := core.AsFieldAddr(x.X); fr != nil && strings.Contains(strings.ToLower(fr.Name), "culprit") {
				return true
			}
		}
	}
	return false
}

// guardsOfSite: the branches whose aborting side contains the instruction.
func guardsOfSite(in ssa.Instruction) []*ssa.If {
	g := in.Parent()
	a := &abortCFG{memo: map[*ssa.BasicBlock]int{}}
	var out []*ssa.If
	for _, b := range g.Blocks {
		if len(b.Instrs) == 0 {
			continue
		}
		iff, ok := b.Instrs[len(b.Instrs)-1].(*ssa.If)
		if !ok {
			continue
		}
		m0, m1 := a.mustAbort(b.Succs[0]), a.mustAbort(b.Succs[1])
		if m0 == m1 {
			continue
		}
		start := b.Succs[0]
		if m1 {
			start = b.Succs[1]
		}
		// region: blocks reached from the aborting successor up to and including the first abort action
		seen := map[*ssa.BasicBlock]bool{}
		var dfs func(x *ssa.BasicBlock) bool
		dfs = func(x *ssa.BasicBlock) bool {
			if seen[x] {
				return false
			}
			seen[x] = true
			if x == in.Block() {
				return true
			}
			for _, i2 := range x.Instrs {
				if _, isAbort := abortAction(i2); isAbort {
					return false
				}
			}
			for _, s := range x.Succs {
				if dfs(s) {
					return true
				}
			}
			return false
		}
		if dfs(start) {
			out = append(out, iff)
		}
	}
	return out
}

func c05Blame2(c *c05ctx) {
	const rule = "R05.3"
	var table []string
	for _, rel := range protoRels {
		pr := ExtractProtocol(c.p, rel)
		for _, rd := range pr.Rounds {
			for _, m := range []string{"Start", "Update"} {
				top := rd.Fns[m]
				if top == nil {
					continue
				}
				for _, g := range unitFuncs(top) {
					for _, b := range g.Blocks {
						for _, in := range b.Instrs {
							var culprits []ssa.Value
							switch x := in.(type) {
							case *ssa.Call:
								var list ssa.Value
								if strings.HasSuffix(core.CalleeName(x), ".WrapError") {
									list = x.Call.Args[len(x.Call.Args)-1]
								} else if bi, isB := x.Call.Value.(*ssa.Builtin); isB && bi.Name() == "append" {
									if sl, isSl := x.Type().Underlying().(*types.Slice); isSl && isPartyIDPtr(sl.Elem()) {
										list = x.Call.Args[1]
									}
								}
								if list != nil {
									if segs, ok := core.SeqOf(list); ok {
										for _, s := range segs {
											if s.V != nil && s.Kind == "elem" {
												culprits = append(culprits, s.V)
											}
										}
									}
								}
							case *ssa.Store:
								if isCulpritSlotStore(x) {
									culprits = append(culprits, x.Val)
								}
							}
							isWrap := false
							if call, isC := in.(*ssa.Call); isC && strings.HasSuffix(core.CalleeName(call), ".WrapError") {
								isWrap = true
								// a culprit list passed on whole (culprits...) names the recorded parties
								if segs, ok := core.SeqOf(call.Call.Args[len(call.Call.Args)-1]); !ok || hasSplice(segs) {
									culprits = append(culprits, nil)
								}
							}
							if len(culprits) == 0 && !isWrap {
								continue
							}
							c05BlameSite2(c, pr, rd, m, top, g, in, culprits, &table)
						}
					}
				}
			}
		}
	}
	sort.Strings(table)
	c.r.Tables["blame_sites"] = table
	c.r.Floor(rule, 120)
}

func c05BlameSite2(c *c05ctx, pr *Protocol, rd *Round, m string, top, g *ssa.Function, in ssa.Instruction, culprits []ssa.Value, table *[]string) {
	const rule = "R05.3"
	key := core.Key(rule, pr.Rel, rd.Name+"."+m, "blame:"+blameLabel(in))
	encl := enclosingLoops(in)
	enclDomain := map[string]*core.Loop{}
	for _, l := range encl {
		enclDomain[loopDomain(c.p, pr, l)] = l
	}
	// K: who is named
	type named struct {
		origin string
		loop   *core.Loop
	}
	var K []named
	for _, k := range culprits {
		o := culpritOrigin(k)
		K = append(K, named{o, loopByTag[o]})
	}
	// D: whose messages the guards depend on
	guards := guardsOfSite(in)
	if os.Getenv("VERIF_DEBUG_BLAME") != "" {
		fmt.Fprintf(os.Stderr, "BLAME %s guards=%d\n", c.pos(in), len(guards))
		for _, gd := range guards {
			fmt.Fprintf(os.Stderr, "   guard at %s cond=%s\n", c.pos(gd), gd.Cond.String())
		}
	}
	w := core.NewDepWalker(top, false)
	w.NoIndexControl = true
	for _, gd := range guards {
		w.Walk(gd.Cond)
	}
	attributable := map[string]bool{} // domains of peers the guard reads inside their own iteration
	aggregated := map[string]bool{}
	consts := map[string]bool{}
	for v := range w.SeenSet() {
		ld, ok := v.(*ssa.UnOp)
		if !ok || ld.Op != token.MUL {
			continue
		}
		ia, ok := ld.X.(*ssa.IndexAddr)
		if !ok || !contains(pr.Arrays, core.LastFields(ia.X, 1)) {
			continue
		}
		o := indexOrigin(ia.Index, 0)
		if os.Getenv("VERIF_DEBUG_BLAME") != "" {
			fmt.Fprintf(os.Stderr, "   reads %s[%s] at %s\n", core.LastFields(ia.X, 1), o, c.pos(ld))
		}
		switch {
		case o == "self":
		case strings.HasPrefix(o, "const:"):
			consts[o] = true
		case strings.HasPrefix(o, "loop:"):
			// the guard reads the current peer's message when the element is indexed by a loop that
			// encloses the site (the same iteration); a value assembled from messages by an earlier
			// loop (sums of points, result arrays) is an aggregate the protocol cannot attribute
			d := loopDomain(c.p, pr, loopByTag[o])
			same := false
			for _, l := range encl {
				if l == loopByTag[o] {
					same = true
				}
			}
			if same {
				attributable[d] = true
			} else {
				aggregated[d] = true
			}
		default:
			aggregated["?"] = true
		}
	}
	var ks []string
	for _, k := range K {
		ks = append(ks, k.origin)
	}
	*table = append(*table, fmt.Sprintf("%s %s.%s %s: guard reads peer message of %v (aggregated over %v, fixed %v); names %v", pr.Rel, rd.Name, m, c.pos(in), keysB(attributable), keysB(aggregated), keysB(consts), ks))
	bad := ""
	// asynchronous closures must not read loop variables shared by all iterations
	if g.Parent() != nil {
		for _, k := range culprits {
			if k == nil {
				continue
			}
			if name, stale := staleCapture(k, g); stale {
				bad += fmt.Sprintf("the culprit is read from the captured variable %q, which the spawning loop reassigns: by the time this closure runs it names another iteration's party; ", name)
			}
		}
		if st, isSt := in.(*ssa.Store); isSt {
			if ia, isIA := st.Addr.(*ssa.IndexAddr); isIA {
				if name, stale := staleCapture(ia.Index, g); stale {
					bad += fmt.Sprintf("the culprit slot index is read from the captured variable %q, which the spawning loop reassigns; ", name)
				}
			}
		}
	}
	// a verdict received from ONE channel that several per-peer goroutines send on arrives in completion
	// order: pairing it with the receiving loop's position names whoever is next in line, not the
	// peer whose check failed (per-peer channels chs[j], or culprits carried inside the error, are fine)
	for v := range w.SeenSet() {
		rcv, ok := v.(*ssa.UnOp)
		if !ok || rcv.Op != token.ARROW {
			continue
		}
		mk := core.ChanMake(rcv.X)
		if mk == nil || len(enclosingLoops(mk)) > 0 {
			continue // unknown, or one channel per peer
		}
		perPeerSenders := false
		for _, snd := range core.SendsOn(core.Outermost(mk.Parent()), mk) {
			if snd.Parent() != mk.Parent() && len(enclosingLoops(snd)) > 0 {
				perPeerSenders = true
			}
		}
		if !perPeerSenders {
			continue
		}
		for _, k := range K {
			if k.loop != nil {
				bad += fmt.Sprintf("the failing verdict is received from the single channel made at %s, on which every per-peer goroutine sends (completion order), but the error names the receiving loop's current position: an honest peer is blamed for another's failure; ", c.pos(mk))
			}
		}
	}
	for _, k := range K {
		switch {
		case k.origin == "recorded":
			// culprits recorded elsewhere: each record is its own blame site
		case k.origin == "?":
			bad += "a party named here cannot be related to a message sender, a list position or the party itself; "
		case k.origin == "self":
			if len(attributable) == 1 && len(consts) == 0 {
				bad += fmt.Sprintf("the failing check reads the message of the current peer (%v) but the error names the party itself; ", keysB(attributable))
			}
		case strings.HasPrefix(k.origin, "const:"):
			if !consts[k.origin] {
				bad += fmt.Sprintf("the error names the fixed position %s, whose message the failing check does not read; ", k.origin)
			}
		case k.loop != nil:
			d := loopDomain(c.p, pr, k.loop)
			isEncl := false
			for _, l := range encl {
				if l == k.loop {
					isEncl = true
				}
			}
			if !isEncl {
				bad += "the error names a position of a loop that does not enclose this site; "
			} else if len(attributable) > 0 && !attributable[d] {
				bad += fmt.Sprintf("the failing check reads the message of the current %v peer but the error names the current position in %q; ", keysB(attributable), d)
			}
		}
	}
	if len(attributable) == 1 && len(K) == 0 {
		bad += fmt.Sprintf("the failing check reads the message of the current peer (%v) but the error names nobody; ", keysB(attributable))
	}
	c.r.Check(bad == "", rule, key, c.pos(in), fmt.Sprintf("names %v; guard reads %v", ks, keysB(attributable)), bad)
}

// culpritOrigin: partyOrigin, with lists the function assembles itself classed "recorded".
func hasSplice(segs []core.Seg) bool {
	for _, s := range segs {
		if s.Kind != "elem" {
			return true
		}
	}
	return false
}

func culpritOrigin(k ssa.Value) string {
	if k == nil {
		return "recorded"
	}
	v := core.Strip(k)
	if ld, ok := v.(*ssa.UnOp); ok && ld.Op == token.MUL {
		if ia, isIA := ld.X.(*ssa.IndexAddr); isIA && isAccumulator(ia.X, 0) {
			return "recorded"
		}
	}
	if ix, ok := v.(*ssa.Index); ok && isAccumulator(ix.X, 0) {
		return "recorded"
	}
	return partyOrigin(k, 0)
}
