package rules

import (
	"fmt"
	"os"
	"strings"

	"golang.org/x/tools/go/ssa"

	"tsscheck/internal/core"
)

// c05RingPedersenUniqueness (R05.5): "duplicated ring-Pedersen parameters" are caught by ONE set
// that holds every h1 and every h2 announced so far: both the lookup of h1_j and the lookup of h2_j,
// and both insertions, go to the same map. Two separate sets (one per role) no longer notice a peer
// that re-announces another party's parameters with the bases swapped (its h1 = the victim's h2),
// for which it can replay the victim's DLN proofs in swapped order.
func c05RingPedersenUniqueness(c *ctx) {
	const rule = "R05.5"
	n := 0
	for _, rel := range []string{"ecdsa/keygen", "ecdsa/resharing"} {
		pr := ExtractProtocol(c.p, rel)
		for _, rd := range pr.Rounds {
			st := rd.Fns["Start"]
			if st == nil {
				continue
			}
			type use struct {
				m    ssa.Value
				role string
				ins  ssa.Instruction
			}
			var lookups, updates []use
			roleOf := func(key ssa.Value) string {
				// plain operand walk (no callee summaries, no control dependence): which accessor the key is computed from
				h1, h2 := false, false
				seen := map[ssa.Value]bool{}
				var walk func(v ssa.Value, d int)
				walk = func(v ssa.Value, d int) {
					if v == nil || d > 10 || seen[v] {
						return
					}
					seen[v] = true
					v = core.Strip(v)
					if call, ok := v.(*ssa.Call); ok {
						switch {
						case strings.HasSuffix(core.CalleeName(call), ").UnmarshalH1"):
							h1 = true
							return
						case strings.HasSuffix(core.CalleeName(call), ").UnmarshalH2"):
							h2 = true
							return
						}
					}
					if in, ok := v.(ssa.Instruction); ok {
						for _, op := range in.Operands(nil) {
							if *op != nil {
								walk(*op, d+1)
							}
						}
					}
				}
				walk(key, 0)
				r := ""
				switch {
				case h1 && !h2:
					r = "h1"
				case h2 && !h1:
					r = "h2"
				case h1 && h2:
					r = "h1+h2"
				}
				return r
			}
			for _, b := range st.Blocks {
				for _, in := range b.Instrs {
					switch x := in.(type) {
					case *ssa.Lookup:
						if _, isMap := x.X.Type().Underlying().(interface{ Key() interface{} }); isMap {
						}
						if r := roleOf(x.Index); r != "" && x.CommaOk {
							lookups = append(lookups, use{core.Strip(x.X), r, x})
						}
					case *ssa.MapUpdate:
						if r := roleOf(x.Key); r != "" {
							updates = append(updates, use{core.Strip(x.Map), r, x})
						}
					}
				}
			}
			if len(lookups) == 0 && len(updates) == 0 {
				continue
			}
			n++
			key := fkey(rule, st, "one-uniqueness-set")
			maps := map[ssa.Value]bool{}
			roles := map[string]bool{}
			for _, u := range append(append([]use{}, lookups...), updates...) {
				maps[u.m] = true
				roles[u.role] = true
			}
			okL := map[string]bool{}
			okU := map[string]bool{}
			for _, u := range lookups {
				okL[u.role] = true
			}
			for _, u := range updates {
				okU[u.role] = true
			}
			if os.Getenv("VERIF_DEBUG_BLAME") != "" {
				fmt.Fprintf(os.Stderr, "R05.5 %s lookups=%v updates=%v\n", rel, lookups, updates)
			}
			ok := len(maps) == 1 && okL["h1"] && okL["h2"] && okU["h1"] && okU["h2"]
			c.r.Check(ok, rule, key, c.fpos(st), "h1 and h2 of every peer are looked up in and added to one set", fmt.Sprintf("the uniqueness test uses %d sets (h1 looked up: %v, h2 looked up: %v, h1 added: %v, h2 added: %v): a peer announcing another party's parameters with h1 and h2 exchanged is not noticed", len(maps), okL["h1"], okL["h2"], okU["h1"], okU["h2"]))
		}
	}
	c.r.Floor(rule, 2)
	_ = n
}
