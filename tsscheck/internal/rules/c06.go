package rules

import (
	"fmt"
	"go/token"
	"go/types"
	"os"
	"sort"
	"strings"

	"golang.org/x/tools/go/ssa"

	"tsscheck/internal/core"
)

func init() { Registry["C06"] = runC06 }

type c06ctx struct {
	*ctx
	t     *core.Tainter
	scope map[*ssa.Function]bool // functions on the network path or in the exported verifier/decoder API
}

func runC06(p *core.Prog, r *core.Report) {
	c := &c06ctx{ctx: &ctx{p, r}}
	r.Explain = "No input from the network can crash a party — decided as the discharge of every reachable panic site of seven repository-specific classes, with a module-wide origin analysis (WIRE = fields and methods of protobuf content types and parameters/receiver fields of the exported verifier and decoder API; RAND, HASH, KEY, CONST) computed by a backward walk over go/ssa with flow-insensitive summaries of struct fields: (R06.0) every store into a message array is dominated by the ok edge of ValidateMessage and by the sender-index bound of that array's own length class; (R06.1) scalars of ScalarMult/ScalarBaseMult (which panic when the product is the identity) with WIRE influence are guarded non-zero modulo the group order; (R06.2) results of ModInverse / negative-exponent Exp on WIRE operands are nil-checked before any use; (R06.3) big.Jacobi's second argument is guarded odd and positive before the call, WIRE moduli of Mod/Div/Exp are guarded non-zero; (R06.4) constant-index and slice accesses on lists whose length is chosen by the sender are dominated by a length fact (direct test, NonEmptyMultiBytes, or the ValidateBasic of the stored message); (R06.5) results of (pointer, error) calls are not used before the error is examined, and errors are not discarded when operands are WIRE; (R06.6) unchecked type assertions on stored messages name the type StoreMessage files in that array; (R06.7) explicit panic sites form a frozen, reasoned table."
	r.Undec = "panics inside btcec, dcrd, protobuf and the Go runtime for well-typed arguments; nil dereferences outside the listed classes; termination other than zero-modulus powers; use of a party after it returned an error."
	r.Assume = []string{"hash outputs hit a fixed residue (0 mod q) with negligible probability", "values sampled locally and never revealed are not attacker-predictable", "key data handed to signing/resharing was produced by this library's keygen", "integers decoded by this library are non-negative (SetBytes)", "the declared size of the new committee (NewPartyCount) equals the number of IDs in its peer context; thresholds and party counts are the application's configuration and non-negative", "the byte length of one integer's encoding is outside R06.4 (which covers lists of protocol elements)"}
	c.setup()
	c06Stored(c)
	c06Identity(c)
	c06NilResults(c)
	c06Arith2(c)
	c06Index(c)
	c06UseBeforeErr(c)
	c06Asserts(c)
	c06Panics(c)
	// "no hang": goroutines started under an update entry point are joined and their result channels
	// have room for every send (shared with C09; a blocked sender leaves Update hanging with the mutex held)
	c09ForkJoin(c.ctx)
}

func (c *c06ctx) setup() {
	c.t = core.NewTainter(c.p)
	buildFieldStores(c.p)
	c.scope = map[*ssa.Function]bool{}
	for _, rel := range protoRels {
		pr := ExtractProtocol(c.p, rel)
		for _, ct := range pr.Contents {
			c.t.Content[ct.Named] = true
		}
		for _, n := range []string{"LocalPartySaveData", "LocalSecrets", "LocalPreParams"} {
			if nt := c.p.NamedType(rel, n); nt != nil {
				c.t.KeyTypes[nt] = true
			}
		}
	}
	for _, n := range []string{"Parameters", "ReSharingParameters", "PartyID", "PeerContext"} {
		if nt := c.p.NamedType("tss", n); nt != nil {
			c.t.KeyTypes[nt] = true
		}
	}
	if nt := c.p.NamedType("crypto/paillier", "PrivateKey"); nt != nil {
		c.t.KeyTypes[nt] = true
		c.t.OwnTypes[nt] = true
	}
	// signing reads its key share through `key`, resharing's old committee through `input`
	c.t.TrustedFields["key"] = true
	c.t.TrustedFields["input"] = true
	// exported verifier / decoder API of crypto/*
	var api []string
	for _, rel := range []string{"crypto", "crypto/commitments", "crypto/dlnproof", "crypto/facproof", "crypto/modproof", "crypto/mta", "crypto/paillier", "crypto/schnorr", "crypto/vss"} {
		for _, fn := range c.p.FuncsOfPkg(rel) {
			if fn.Parent() != nil {
				continue
			}
			n := fn.Name()
			isAPI := false
			switch {
			case n == "Verify" || n == "DeCommit" || n == "ValidateBasic" || n == "GobDecode" || n == "UnmarshalJSON":
				isAPI = fn.Signature.Recv() != nil
			case strings.HasSuffix(n, "FromBytes") || strings.HasPrefix(n, "Unmarshal") || n == "ParseSecrets" || n == "UnFlattenECPoints" || n == "NewECPoint":
				isAPI = fn.Signature.Recv() == nil
			}
			// paillier.PrivateKey methods are key-holder operations, not verifiers
			if isAPI && fn.Signature.Recv() != nil {
				if nt := namedOfType(fn.Signature.Recv().Type()); nt != nil && nt.Obj().Name() == "PrivateKey" {
					isAPI = false
				}
			}
			if isAPI {
				c.t.Entry[fn] = true
				c.scope[fn] = true
				api = append(api, core.RelPkg(fn)+"."+core.FuncName(fn))
			}
		}
	}
	sort.Strings(api)
	c.r.Tables["exported_verifier_decoder_api"] = api
	c.r.Stats["api_functions"] = len(api)
	c.t.Fixpoint()
	// network path: everything statically reachable from the parties' update entry points and from the API
	var work []*ssa.Function
	for f := range c.scope {
		work = append(work, f)
	}
	for _, rel := range protoRels {
		pr := ExtractProtocol(c.p, rel)
		for _, m := range []string{"Update", "UpdateFromBytes", "ValidateMessage", "StoreMessage"} {
			if f := pr.PartyFns[m]; f != nil {
				work = append(work, f)
			}
		}
		for ri, rd := range pr.Rounds {
			for m, f := range rd.Fns {
				if f == nil || (ri == 0 && m == "Start") {
					continue // round 1's Start takes only configuration and key data
				}
				work = append(work, f)
			}
		}
		for _, ct := range pr.Contents {
			if ct.Validate != nil {
				work = append(work, ct.Validate)
			}
			work = append(work, ct.Unmarsh...)
		}
	}
	for len(work) > 0 {
		f := work[len(work)-1]
		work = work[:len(work)-1]
		if f == nil || c.scope[f] && f.Parent() == nil && len(work) < 0 {
			continue
		}
		if c.scope[f] && visitedOnce[f] {
			continue
		}
		visitedOnce[f] = true
		c.scope[f] = true
		for _, g := range core.WithClosures(f) {
			c.scope[g] = true
			for _, cs := range core.Calls(g) {
				if callee := core.Callee(cs); callee != nil && callee.Blocks != nil && isModuleFn(callee) && !visitedOnce[callee] {
					work = append(work, callee)
				}
			}
		}
	}
	c.r.Stats["functions_on_network_path"] = len(c.scope)
}

var visitedOnce = map[*ssa.Function]bool{}

func namedOfType(t types.Type) *types.Named {
	if p, ok := t.(*types.Pointer); ok {
		t = p.Elem()
	}
	n, _ := t.(*types.Named)
	return n
}

func (c *c06ctx) scopeFuncs() []*ssa.Function {
	var out []*ssa.Function
	for f := range c.scope {
		if strings.HasSuffix(c.p.Fset.Position(f.Pos()).Filename, "test_utils.go") {
			continue
		}
		out = append(out, f)
	}
	sort.Slice(out, func(i, j int) bool { return out[i].Pos() < out[j].Pos() })
	return out
}

// ---- R06.0 ---------------------------------------------------------------------

func c06Stored(c *c06ctx) {
	const rule = "R06.0"
	for _, rel := range protoRels {
		pr := ExtractProtocol(c.p, rel)
		sm, vm := pr.PartyFns["StoreMessage"], pr.PartyFns["ValidateMessage"]
		if sm == nil || vm == nil {
			c.r.Unk(rule, core.Key(rule, rel, "StoreMessage", "anchor"), rel, "StoreMessage/ValidateMessage not found")
			continue
		}
		// every array store in StoreMessage is dominated by the ok edge of the party's ValidateMessage
		n := 0
		bad := ""
		for _, as := range messageArrayStores(pr, sm) {
			{
				ia, b := as.IA, as.Store.Block()
				n++
				okV := false
				for _, f := range core.FactsAt(b) {
					// ValidateMessage returned (true, nil): the code tests `!ok || err != nil`
					if f.Kind == core.FNil && f.Bool {
						if ex, isE := core.Strip(f.X).(*ssa.Extract); isE {
							if call, isC := ex.Tuple.(*ssa.Call); isC && strings.HasSuffix(core.CalleeName(call), ".ValidateMessage") {
								okV = true
							}
						}
					}
				}
				if !okV {
					bad += "the store into " + core.LastFields(ia.X, 1) + " is not dominated by a successful ValidateMessage; "
				}
			}
		}
		c.r.Check(bad == "" && n > 0, rule, fkey(rule, sm, "validate-before-store"), c.fpos(sm), fmt.Sprintf("%d stores dominated by ValidateMessage's success", n), bad)
		// ValidateMessage: BaseParty.ValidateMessage ok, and From.Index bounded by the length class of the arrays
		accepting := trueNilReturnBlocks(vm)
		okBase := len(accepting) > 0
		for _, b := range accepting {
			has := false
			// tail form: `return p.BaseParty.ValidateMessage(msg)` — acceptance is the base result itself
			if ret, isR := b.Instrs[len(b.Instrs)-1].(*ssa.Return); isR && len(ret.Results) == 2 {
				if ex, isE := core.Strip(ret.Results[0]).(*ssa.Extract); isE && ex.Index == 0 {
					if call, isC := ex.Tuple.(*ssa.Call); isC && strings.HasSuffix(core.CalleeName(call), "tss.BaseParty).ValidateMessage") {
						has = true
					}
				}
			}
			for _, f := range core.FactsAt(b) {
				if f.Kind == core.FBool && f.Bool {
					if ex, isE := core.Strip(f.X).(*ssa.Extract); isE {
						if call, isC := ex.Tuple.(*ssa.Call); isC && strings.HasSuffix(core.CalleeName(call), "tss.BaseParty).ValidateMessage") {
							has = true
						}
					}
				}
			}
			if !has {
				okBase = false
			}
		}
		c.r.Check(okBase, rule, fkey(rule, vm, "base-validation"), c.fpos(vm), "acceptance requires BaseParty.ValidateMessage (non-nil content and sender, ValidateBasic)", "ValidateMessage accepts without BaseParty.ValidateMessage")
		c06IndexBound(c, pr, rel, vm, accepting)
	}
	c.r.Floor(rule, 24)
}

// lenClass classifies the length expression of a message array: party count of which committee.
func lenClass(v ssa.Value) string { return classOfDescr(descr(v)) }

func classOfDescr(d string) string {
	// The number of old-committee members taking part (len(OldParties().IDs())) and the declared size of
	// the original committee (OldPartyCount()) legitimately differ when a subset reshares, and so do the
	// declared party count and the number of peers in a signing subset: they are different classes.
	// The new committee takes part in full: its declared size and its ID list are one class (a
	// configuration invariant of NewReSharingParameters, assumed, listed in the evidence).
	switch {
	case strings.Contains(d, "OldParties().IDs()"):
		return "len(old committee IDs)"
	case strings.Contains(d, "OldPartyCount()"):
		return "declared old party count"
	case strings.Contains(d, "NewParties().IDs()") || strings.Contains(d, "NewPartyCount()"):
		return "new committee size"
	case strings.Contains(d, "Parties().IDs()"):
		return "len(party IDs)"
	case strings.Contains(d, "PartyCount()"):
		return "declared party count"
	}
	return d
}

// ---- R06.1 identity-point panics --------------------------------------------------

func c06Identity(c *c06ctx) {
	const rule = "R06.1"
	n, wire := 0, 0
	for _, fn := range c.scopeFuncs() {
		for _, cs := range core.Calls(fn) {
			var scalar ssa.Value
			switch {
			case core.CallIs(cs, "(*~/crypto.ECPoint).ScalarMult"):
				scalar = cs.Common().Args[1]
			case core.CallIs(cs, "~/crypto.ScalarBaseMult"):
				scalar = cs.Common().Args[1]
			default:
				continue
			}
			if core.Outermost(fn).Name() == "EightInvEight" {
				continue // constants 8 and 8⁻¹ on edwards25519, where the identity is an affine point
			}
			n++
			top := core.Outermost(fn)
			key := fkey(rule, top, "scalar:"+core.CalleeShort(cs)+"("+shortDescr(scalar)+")")
			if tr := os.Getenv("VERIF_TAINT_TRACE"); tr != "" && strings.Contains(key, tr) {
				c.t.Trace = true
				c.t.Of(scalar)
				c.t.Trace = false
			}
			tn := c.t.Of(scalar)
			if tn&core.TWire == 0 {
				c.r.Triv(rule, key, c.pos(cs), "scalar origin "+tn.String()+": not chosen by a peer")
				continue
			}
			wire++
			if isExemptSi(top, scalar) {
				c.r.OK(rule, key, c.pos(cs), "frozen exemption: s_i = m·k + r·sigma is masked by the nonce share k, which is sampled locally and never sent")
				continue
			}
			call := cs.(ssa.Instruction)
			if ok, wit := nonZeroModQ(scalar, call, core.TFactsAt(call.Block(), 3), 0); ok {
				c.r.OK(rule, key, c.pos(cs), "guarded: "+wit)
			} else if ok, wit := c.scalarAtCallers(scalar, call, 0); ok {
				c.r.OK(rule, key, c.pos(cs), wit)
			} else {
				c.r.Bad(rule, key, c.pos(cs), "the scalar "+descr(scalar)+" (origin "+tn.String()+") can be 0 modulo the group order: the product is the identity and the curve wrapper panics")
			}
		}
	}
	c.r.Stats["scalar_mult_sites"] = n
	c.r.Stats["scalar_mult_sites_wire"] = wire
	c.r.Floor(rule, 21)
}

func shortDescr(v ssa.Value) string {
	d := descr(v)
	if len(d) > 60 {
		d = d[:60] + "…"
	}
	return d
}

// isExemptSi: round 5 of ECDSA signing multiplies R by s_i = m·k + r·sigma.
func isExemptSi(top *ssa.Function, scalar ssa.Value) bool {
	if core.RelPkg(top) != "ecdsa/signing" || !strings.HasSuffix(core.FuncName(top), "round5).Start") {
		return false
	}
	d := descr(scalar)
	return strings.Contains(d, "temp.k") && strings.Contains(d, "temp.sigma") && strings.Contains(d, "temp.m")
}

// nonZeroModQ: do the facts at `at` guarantee scalar ≢ 0 (mod group order)?
func nonZeroModQ(scalar ssa.Value, at ssa.Instruction, facts []core.TFact, depth int) (bool, string) {
	if depth > 4 {
		return false, ""
	}
	t := core.TermAt(scalar, at)
	if k, ok := core.TermInt(t); ok && k != 0 {
		return true, "non-zero constant"
	}
	if t.Op == "ModInv" && core.IsCurveOrder(t.Args[1]) {
		return true, "an inverse modulo the (prime) group order is never 0 (its being nil is R06.2's obligation)"
	}
	// a field of party state: every value the module stores there is non-zero mod q
	if ld, isLd := core.Strip(scalar).(*ssa.UnOp); isLd && ld.Op == token.MUL {
		if fr := core.AsFieldAddr(ld.X); fr != nil {
			if stores := fieldStoreSites(fr); len(stores) > 0 && depth < 3 {
				all := true
				for _, st := range stores {
					if ok, _ := nonZeroModQ(st.Val, st, core.TFactsAt(st.Block(), 3), depth+1); !ok {
						all = false
					}
				}
				if all {
					return true, fmt.Sprintf("each of the %d stores into %s stores a value that is non-zero mod q", len(stores), fr.String())
				}
			}
		}
	}
	isT := core.KeyIs(t)
	reduced := t.Op == "Mod" && core.IsCurveOrder(t.Args[1])
	sign := core.PossibleSign(facts, isT)
	if reduced && sign&core.EQ == 0 {
		return true, "Sign(x mod q) != 0"
	}
	// x itself in [1, q-1]
	if sign&(core.EQ|core.LT) == 0 && core.PossibleCmp(facts, isT, core.IsCurveOrder) == core.LT {
		return true, "0 < x < q"
	}
	// a separate reduced copy was tested: Sign(Mod(x,q)) != 0
	base := t
	if reduced {
		base = t.Args[0]
	}
	for _, f := range facts {
		var x *T
		var o core.Ord
		switch f.Kind {
		case core.FSign:
			x, o = f.X, f.Ord
		case core.FCmp:
			if core.IsZeroTerm(f.Y) {
				x, o = f.X, f.Ord
			} else if core.IsZeroTerm(f.X) {
				x, o = f.Y, f.Ord.Flip()
			}
		}
		if x != nil && o&core.EQ == 0 && x.Op == "Mod" && core.IsCurveOrder(x.Args[1]) && x.Args[0].Key() == base.Key() {
			return true, "Sign(" + x.Key() + ") != 0"
		}
	}
	// product of non-zero residues (q is prime): Mod(Mul(a,b), q)
	if reduced && t.Args[0].Op == "Mul" {
		all := true
		for _, a := range t.Args[0].Args {
			if a.V == nil {
				all = false
				break
			}
			if ph, isPhi := core.Strip(a.V).(*ssa.Phi); isPhi {
				if !phiNonZeroModQ(ph, depth+1) {
					all = false
				}
				continue
			}
			if ok, _ := nonZeroModQ(a.V, at, facts, depth+1); !ok {
				all = false
			}
		}
		if all {
			return true, "product of residues each guarded non-zero (q prime)"
		}
	}
	return false, ""
}

// ---- R06.2 nil-producing big.Int operations ------------------------------------------

func c06NilResults(c *c06ctx) {
	const rule = "R06.2"
	n := 0
	for _, fn := range c.scopeFuncs() {
		for _, cs := range core.Calls(fn) {
			call, ok := cs.(*ssa.Call)
			if !ok {
				continue
			}
			name := core.CalleeName(call)
			var operands []ssa.Value
			kind := ""
			switch {
			case name == "(*math/big.Int).ModInverse":
				kind, operands = "ModInverse", call.Call.Args[1:3]
			case strings.HasSuffix(name, "common.modInt).ModInverse"):
				kind, operands = "ModInverse", call.Call.Args[0:2]
			case strings.HasSuffix(name, "common.modInt).Exp"):
				if !mayBeNegative(call.Call.Args[2]) {
					continue
				}
				kind, operands = "Exp with a negative exponent", []ssa.Value{call.Call.Args[1], call.Call.Args[0]}
			case name == "(*math/big.Int).Exp":
				if !mayBeNegative(call.Call.Args[2]) {
					continue
				}
				kind, operands = "Exp with a negative exponent", []ssa.Value{call.Call.Args[1], call.Call.Args[3]}
			default:
				continue
			}
			n++
			top := core.Outermost(fn)
			key := fkey(rule, top, "may-be-nil:"+kind+"("+shortDescr(operands[0])+")")
			var tn core.Taint
			for _, o := range operands {
				tn |= c.t.Of(o)
			}
			if tn&core.TWire == 0 {
				c.r.Triv(rule, key, c.pos(call), "operands origin "+tn.String()+": inverse exists by construction of local values")
				continue
			}
			// the inverse exists: gcd(base, modulus) == 1 was tested in the verifier's own idiom
			if wit := coprimeFact(core.TFactsAt(call.Block(), 2), core.TermAt(unwrapModVal(operands[0]), call), core.TermAt(unwrapModVal(operands[1]), call)); wit != "" {
				c.r.OK(rule, key, c.pos(call), "the operand is a unit: "+wit)
				continue
			}
			// every use of the result (other than a nil test) must be dominated by result != nil;
			// storing it into party state counts as a use
			bad := ""
			if refs := call.Referrers(); refs != nil {
				for _, u := range *refs {
					if _, isRet := u.(*ssa.Return); isRet && strings.HasSuffix(core.FuncName(fn), "modInt).ModInverse") {
						continue // the wrapper hands the result on: its call sites carry the obligation (case above)
					}
					if bo, isB := u.(*ssa.BinOp); isB && (bo.Op == token.EQL || bo.Op == token.NEQ) {
						continue
					}
					if _, isD := u.(*ssa.DebugRef); isD {
						continue
					}
					nonNil := core.HasNilFact(core.TFactsAt(u.Block(), 0), func(t *T) bool { return t.V == ssa.Value(call) }, false)
					if !nonNil && u.Block() != call.Block() {
						// guard may sit in the same block chain: check dominance by facts only
					}
					if !nonNil {
						bad = "the result is used at " + c.pos(u) + " without a nil test"
						break
					}
				}
			}
			if bad == "" {
				c.r.OK(rule, key, c.pos(call), "the possibly-nil result is nil-checked before every use")
			} else {
				c.r.Bad(rule, key, c.pos(call), kind+" on peer-influenced operands returns nil when no inverse exists; "+bad+" (a nil *big.Int dereference panics in the next arithmetic call)")
			}
		}
	}
	c.r.Floor(rule, 2)
	_ = n
}

// coprimeFact: a fact GCD(x, m) == 1 (either argument order) for the given base and modulus.
func coprimeFact(facts []core.TFact, x, m *T) string {
	for _, f := range facts {
		if f.Kind != core.FCmp || f.Ord != core.EQ || f.X == nil || f.Y == nil {
			continue
		}
		g, k := f.X, f.Y
		if g.Op != "GCD" {
			g, k = k, g
		}
		if g.Op != "GCD" || !core.IsOneTerm(k) || len(g.Args) != 2 {
			continue
		}
		a, b := g.Args[0].Key(), g.Args[1].Key()
		if a == x.Key() && b == m.Key() || a == m.Key() && b == x.Key() {
			return "gcd(" + a + ", " + b + ") == 1"
		}
	}
	return ""
}

// mayBeNegative: the exponent is built as 0 − x / Neg(x).
func mayBeNegative(v ssa.Value) bool {
	t := core.TermOf(v)
	if t.Op == "Sub" && core.IsZeroTerm(t.Args[0]) {
		return true
	}
	if t.Op == "Mod" && t.Args[0].Op == "Sub" {
		return false // reduced: non-negative
	}
	return t.Op == "Neg"
}

// ---- R06.3 arithmetic preconditions ---------------------------------------------------

func c06Arith(c *c06ctx) {
	const rule = "R06.3"
	for _, fn := range c.scopeFuncs() {
		for _, cs := range core.Calls(fn) {
			call, ok := cs.(*ssa.Call)
			if !ok {
				continue
			}
			name := core.CalleeName(call)
			top := core.Outermost(fn)
			switch {
			case name == "math/big.Jacobi":
				y := call.Call.Args[1]
				key := fkey(rule, top, "Jacobi-second-argument("+shortDescr(y)+")")
				if c.t.Of(y)&core.TWire == 0 {
					c.r.Triv(rule, key, c.pos(call), "modulus is local")
					continue
				}
				facts := factsReaching(c, call)
				yt := core.KeyIs(core.TermOf(y))
				odd := false
				for _, f := range facts {
					if f.Kind == core.FInt && f.X != nil && f.Y != nil {
						for _, pr := range [][2]*T{{f.X, f.Y}, {f.Y, f.X}} {
							if pr[0].Op == "call:Bit" && yt(pr[0].Args[0]) && core.IsZeroTerm(pr[0].Args[1]) {
								o := f.Ord
								if pr[0] == f.Y {
									o = o.Flip()
								}
								if constIs(pr[1], 0) && o&core.EQ == 0 {
									odd = true
								}
								if constIs(pr[1], 1) && o == core.EQ {
									odd = true
								}
							}
						}
					}
				}
				pos := core.PossibleSign(facts, yt)&(core.EQ|core.LT) == 0
				c.r.Check(odd && pos, rule, key, c.pos(call), "guarded odd and positive before the call", fmt.Sprintf("big.Jacobi panics for an even second argument; %s is peer-chosen and at this call odd=%v positive=%v is established", descr(y), odd, pos))
			case name == "(*math/big.Int).Mod", name == "(*math/big.Int).Div", name == "(*math/big.Int).Quo", name == "(*math/big.Int).Rem", name == "(*math/big.Int).Exp", strings.HasSuffix(name, "common.RejectionSample"):
				var m ssa.Value
				switch {
				case strings.HasSuffix(name, "RejectionSample"):
					m = call.Call.Args[0]
				case name == "(*math/big.Int).Exp":
					m = call.Call.Args[3]
				default:
					m = call.Call.Args[2]
				}
				if core.IsNilConst(core.Strip(m)) {
					continue
				}
				if c.t.Of(m)&core.TWire == 0 {
					continue
				}
				key := fkey(rule, top, "modulus-nonzero:"+shortName(name)+"("+shortDescr(m)+")")
				facts := factsReaching(c, call)
				mt := core.KeyIs(core.TermAt(m, call))
				ok := modulusPositive(facts, mt, core.TermAt(m, call))
				what := "a zero modulus makes " + shortName(name) + " panic (division by zero)"
				if name == "(*math/big.Int).Exp" {
					what = "a zero modulus turns the modular power into an unbounded one (hang)"
				}
				c.r.Check(ok, rule, key, c.pos(call), "modulus guarded non-zero", what+"; "+descr(m)+" is peer-chosen and not guarded non-zero here")
			}
		}
	}
	c.r.Floor(rule, 6)
}

// factsReaching: facts at the call, plus — when the call sits in a closure or in a helper whose only
// callers are in scope — nothing more (kept intraprocedural; helpers are expanded by TFactsAt).
func factsReaching(c *c06ctx, call *ssa.Call) []core.TFact {
	facts := core.TFactsAt(call.Block(), 3)
	fn := call.Parent()
	// goroutine / closure bodies inherit the facts at their creation site
	for g := fn; g.Parent() != nil; g = g.Parent() {
		for _, b := range g.Parent().Blocks {
			for _, in := range b.Instrs {
				if mc, ok := in.(*ssa.MakeClosure); ok && mc.Fn == g {
					facts = append(facts, core.TFactsAt(b, 3)...)
				}
			}
		}
	}
	return facts
}

// modulusPositive: facts imply m != 0 (Sign == 1, BitLen == k > 0, odd, or m > something non-negative).
func modulusPositive(facts []core.TFact, isM M, mt *T) bool {
	if core.PossibleSign(facts, isM)&core.EQ == 0 {
		return true
	}
	// N^2 of a positive N; NTilde etc. compared: x < m with x >= 0
	if b, k := core.PowerOf(mt); k >= 2 {
		if core.PossibleSign(facts, core.KeyIs(b))&core.EQ == 0 {
			return true
		}
	}
	if mt.Op == "call:NSquare" {
		for _, f := range facts {
			_ = f
		}
	}
	for _, f := range facts {
		if f.Kind == core.FInt && f.X != nil && f.Y != nil {
			for _, pr := range [][2]*T{{f.X, f.Y}, {f.Y, f.X}} {
				if pr[0].Op == "call:BitLen" && isM(pr[0].Args[0]) {
					if k, ok := core.TermInt(pr[1]); ok && k > 0 && f.Ord == core.EQ {
						return true
					}
				}
				if pr[0].Op == "call:Bit" && isM(pr[0].Args[0]) {
					o := f.Ord
					if pr[0] == f.Y {
						o = o.Flip()
					}
					if constIs(pr[1], 0) && o&core.EQ == 0 {
						return true
					}
				}
			}
		}
		// 0 <= x < m  ⇒ m > 0
		if f.Kind == core.FCmp && f.X != nil && f.Y != nil {
			// m > k for a constant k >= 0
			if k, isK := core.TermInt(f.Y); isK && k >= 0 && isM(f.X) && f.Ord == core.GT {
				return true
			}
			if k, isK := core.TermInt(f.X); isK && k >= 0 && isM(f.Y) && f.Ord == core.LT {
				return true
			}
			if isM(f.Y) && f.Ord == core.LT && core.PossibleSign(facts, core.KeyIs(f.X))&core.LT == 0 {
				return true
			}
			if isM(f.X) && f.Ord == core.GT && core.PossibleSign(facts, core.KeyIs(f.Y))&core.LT == 0 {
				return true
			}
		}
	}
	return false
}

// trueNilReturnBlocks: blocks of returns of a (bool, *Error) function that may yield (true, nil).
// A return that merely forwards `ok, err` under `!ok || err != nil` cannot: on each incoming edge
// one of the two results is contradicted.
func trueNilReturnBlocks(fn *ssa.Function) []*ssa.BasicBlock {
	var out []*ssa.BasicBlock
	for _, ret := range core.Returns(fn) {
		if len(ret.Results) != 2 {
			continue
		}
		r0, r1 := core.Strip(ret.Results[0]), core.Strip(ret.Results[1])
		if b, isC := core.ConstBool(r0); isC && !b {
			continue
		}
		if definitelyNonNil(r1) {
			continue
		}
		contradicted := func(fs []core.Fact) bool {
			for _, f := range fs {
				if f.Kind == core.FBool && !f.Bool && core.Strip(f.X) == r0 {
					return true
				}
				if f.Kind == core.FNil && !f.Bool && core.Strip(f.X) == r1 {
					return true
				}
			}
			return false
		}
		b := ret.Block()
		if contradicted(core.FactsAt(b)) {
			continue
		}
		if len(b.Preds) > 1 && len(b.Instrs) == 1 {
			all := true
			for _, p := range b.Preds {
				iff, ok := p.Instrs[len(p.Instrs)-1].(*ssa.If)
				if !ok {
					all = false
					break
				}
				fs := core.FactsAt(p)
				if p.Succs[0] == b {
					fs = append(fs, core.CondFacts(iff.Cond, true, iff)...)
				} else {
					fs = append(fs, core.CondFacts(iff.Cond, false, iff)...)
				}
				if !contradicted(fs) {
					all = false
				}
			}
			if all {
				continue
			}
		}
		out = append(out, b)
	}
	return out
}
