package rules

import (
	"fmt"
	"go/token"
	"go/types"
	"os"
	"sort"
	"strings"

	"golang.org/x/tools/go/ssa"

	"tsscheck/internal/core"
)

// ---- R06.4 indices and slices on sender-sized lists --------------------------------------

// validatedCounts: for a content type, field → exact part count guaranteed by its ValidateBasic
// (NonEmptyMultiBytes(field, K)); 1 for NonEmptyMultiBytes(field) / NonEmptyBytes.
func validatedCounts(ct *Content) map[string]int64 {
	out := map[string]int64{}
	if ct.Validate == nil {
		return out
	}
	facts, _ := acceptFacts(ct.Validate, 0, true, 0)
	for _, f := range facts {
		if f.Kind != core.FCall || !f.Bool || !core.CallIs(f.Call, "~/common.NonEmptyMultiBytes") {
			continue
		}
		a := f.Call.Call.Args
		field := ""
		if fr := core.AsFieldLoad(a[0]); fr != nil {
			field = fr.Name
		} else if call, ok := core.Strip(a[0]).(*ssa.Call); ok {
			n := core.CalleeName(call)
			if i := strings.LastIndex(n, ").Get"); i >= 0 {
				field = n[i+5:]
			}
		}
		if field == "" {
			continue
		}
		k := int64(1)
		if segs, ok := core.SeqOf(a[1]); ok && len(segs) == 1 {
			if kk, isK := core.ConstInt(segs[0].V); isK {
				k = kk
			}
		}
		out[field] = k
	}
	return out
}

type lenCtx struct {
	c      *c06ctx
	counts map[string]map[string]int64 // content type name → field → count
}

func newLenCtx(c *c06ctx) *lenCtx {
	lc := &lenCtx{c: c, counts: map[string]map[string]int64{}}
	for _, rel := range protoRels {
		pr := ExtractProtocol(c.p, rel)
		for _, ct := range pr.Contents {
			lc.counts[rel+"."+ct.Name] = validatedCounts(ct)
		}
	}
	return lc
}

// lowerBound: the largest K such that len(v) >= K is guaranteed at instruction `at`.
// Facts are taken from the dominating branch edges and, at merge points on the dominator chain
// (`if !A && !B { reject }`, `if !ok && len != 4`), as the minimum over the incoming edges.
func (lc *lenCtx) lowerBound(v ssa.Value, at ssa.Instruction, depth int) int64 {
	if depth > 6 {
		return 0
	}
	best := lc.lbWith(v, at, core.TFactsAt(at.Block(), 2), core.FactsAt(at.Block()), depth)
	for d := at.Block(); d != nil; d = d.Idom() {
		if len(d.Preds) < 2 {
			continue
		}
		min := int64(1 << 40)
		for _, p := range d.Preds {
			if d.Dominates(p) {
				continue // back edge
			}
			raw := core.FactsAt(p)
			if iff, ok := p.Instrs[len(p.Instrs)-1].(*ssa.If); ok {
				raw = append(append([]core.Fact{}, raw...), core.CondFacts(iff.Cond, p.Succs[0] == d, iff)...)
			}
			if k := lc.lbWith(v, at, core.ExpandFacts(raw, 2), raw, depth); k < min {
				min = k
			}
		}
		if min < 1<<40 && min > best {
			best = min
		}
	}
	return best
}

func (lc *lenCtx) lbWith(v ssa.Value, at ssa.Instruction, facts []core.TFact, raw []core.Fact, depth int) int64 {
	v = core.Strip(v)
	best := int64(0)
	up := func(k int64) {
		if k > best {
			best = k
		}
	}
	if n, ok := core.LenOf(v); ok {
		up(n)
	}
	vt := core.TermOf(v)
	isLenV := func(t *T) bool { return t.Op == "call:len" && t.Args[0].Key() == vt.Key() }
	for _, f := range facts {
		switch f.Kind {
		case core.FInt:
			if f.X == nil || f.Y == nil {
				continue
			}
			x, y, o := f.X, f.Y, f.Ord
			if isLenV(y) {
				x, y, o = y, x, o.Flip()
			}
			if !isLenV(x) {
				continue
			}
			if k, ok := core.TermInt(y); ok {
				switch {
				case o == core.EQ:
					up(k)
				case o&core.LT == 0 && o&core.EQ != 0: // >=
					up(k)
				case o == core.GT:
					up(k + 1)
				case o == core.LT|core.GT && k == 0: // != 0
					up(1)
				}
			} else if o&core.LT == 0 && y.Op == "bin+" {
				// len == E + k (or >=): E is a count taken from the party's own configuration
				for i := 0; i < 2; i++ {
					if k, ok := core.TermInt(y.Args[i]); ok && k > 0 && y.Args[1-i].V != nil && lc.ownCount(y.Args[1-i].V) {
						if o == core.GT {
							k++
						}
						up(k)
					}
				}
			}
		case core.FCall:
			if f.Bool && core.CallIs(f.Call, "~/common.NonEmptyMultiBytes") && core.TermOf(f.Call.Call.Args[0]).Key() == vt.Key() {
				k := int64(1)
				if segs, ok := core.SeqOf(f.Call.Call.Args[1]); ok && len(segs) == 1 {
					if kk, isK := core.ConstInt(segs[0].V); isK {
						k = kk
					}
				}
				up(k)
			}
		}
	}
	switch x := v.(type) {
	case *ssa.Extract:
		call, ok := x.Tuple.(*ssa.Call)
		if !ok {
			break
		}
		switch {
		case core.CallIs(call, "(*~/crypto/commitments.HashCommitDecommit).DeCommit") && x.Index == 1:
			// opened values = D[1:] on the ok edge
			okTrue := false
			for _, f := range raw {
				if f.Kind == core.FBool && f.Bool {
					// the verdict may come back through a private helper that returns DeCommit()'s pair
					if e, isE := core.ResolveIn(core.Outermost(at.Parent()), f.X).(*ssa.Extract); isE && e.Tuple == ssa.Value(call) && e.Index == 0 {
						okTrue = true
					}
				}
			}
			if okTrue {
				if d := storedFields(call.Call.Args[0])["D"]; d != nil {
					if k := lc.lowerBound(d, at, depth+1); k >= 1 {
						up(k - 1)
					}
				}
			}
		case core.CallIs(call, "~/crypto.UnFlattenECPoints") && x.Index == 0:
			if core.HasNilFact(facts, func(t *T) bool { return t.V == extractOf(call, 1) }, true) {
				up(lc.lowerBound(call.Call.Args[1], at, depth+1) / 2)
			}
		}
	case *ssa.Call:
		switch {
		case core.CallIs(x, "~/common.MultiBytesToBigInts", "~/crypto/commitments.NewHashDeCommitmentFromBytes", "~/common.BigIntsToBytes"):
			up(lc.lowerBound(x.Call.Args[0], at, depth+1))
		default:
			// getter / Unmarshal method of a content type taken from the message store
			if g := core.Callee(x); g != nil && g.Signature.Recv() != nil {
				if nt := namedOfType(g.Signature.Recv().Type()); nt != nil && lc.c.t.Content[nt] {
					key := strings.TrimPrefix(nt.Obj().Pkg().Path(), mod+"/") + "." + nt.Obj().Name()
					n := g.Name()
					if strings.HasPrefix(n, "Get") {
						up(lc.counts[key][n[3:]])
					} else if strings.HasPrefix(n, "Unmarshal") && g.Blocks != nil {
						// look through: result = conv(field)
						for _, ret := range core.Returns(g) {
							w := core.NewDepWalker(g, false)
							w.Walk(ret.Results[0])
							for f := range w.Out {
								if k, ok := lc.counts[key][f]; ok {
									up(k)
								}
							}
						}
					}
				}
			}
		}
	case *ssa.UnOp:
		if x.Op == token.MUL {
			if fr := core.AsFieldAddr(x.X); fr != nil {
				if nt := namedOfType(fr.Owner); nt != nil && lc.c.t.Content[nt] {
					key := strings.TrimPrefix(nt.Obj().Pkg().Path(), mod+"/") + "." + nt.Obj().Name()
					up(lc.counts[key][fr.Name])
				}
			}
		}
	case *ssa.MakeSlice:
		if t := core.TermOf(x.Len); t.Op == "call:len" && t.Args[0].V != nil {
			up(lc.lowerBound(t.Args[0].V, at, depth+1))
		}
	}
	// the list handed back by a private helper of this function: what the helper's returns agree on
	if rv := core.ResolveIn(core.Outermost(at.Parent()), v); rv != v && depth < 6 {
		if _, isParam := v.(*ssa.Parameter); !isParam {
			up(lc.lbWith(rv, at, facts, raw, depth+1))
		}
	}
	switch x := v.(type) {
	case *ssa.Parameter:
		// one level up: all callers must guarantee the bound
		fn := x.Parent()
		if fn.Parent() == nil {
			idx := -1
			for i, p := range fn.Params {
				if p == x {
					idx = i
				}
			}
			sites := callSitesOf(lc.c.p, fn)
			if len(sites) > 0 && idx >= 0 && !lc.c.t.Entry[fn] {
				min := int64(1 << 40)
				for _, cs := range sites {
					if k := lc.lowerBound(cs.Common().Args[idx], cs, depth+1); k < min {
						min = k
					}
				}
				up(min)
			}
		}
	}
	return best
}

func c06Index(c *c06ctx) {
	const rule = "R06.4"
	lc := newLenCtx(c)
	lo := newLenOrigin(c)
	n := 0
	for _, fn := range c.scopeFuncs() {
		top := core.Outermost(fn)
		for _, b := range fn.Blocks {
			for _, in := range b.Instrs {
				var base, idx ssa.Value
				var hi ssa.Value
				isSlice := false
				switch x := in.(type) {
				case *ssa.IndexAddr:
					base, idx = x.X, x.Index
				case *ssa.Index:
					base, idx = x.X, x.Index
				case *ssa.Slice:
					base, hi, isSlice = x.X, x.High, true
					if x.High == nil && x.Low == nil {
						continue
					}
				default:
					continue
				}
				if _, isSl := base.Type().Underlying().(*types.Slice); !isSl {
					continue // arrays and pointers to arrays are bounds-checked by the type checker for constants
				}
				if !lo.wire(base) {
					continue
				}
				pos := in.(ssa.Instruction)
				if isSlice {
					sl := in.(*ssa.Slice)
					need := int64(-1)
					if hi != nil {
						if k, ok := core.ConstInt(hi); ok {
							need = k
						}
					} else if sl.Low != nil {
						if k, ok := core.ConstInt(sl.Low); ok {
							need = k
						}
					}
					if need < 0 {
						continue // variable bounds: handled where they are semantic rules (ParseSecrets: R16.5)
					}
					n++
					key := fkey(rule, top, fmt.Sprintf("slice:%s[..%d]", shortDescr(base), need))
					lb := lc.lowerBound(base, pos, 0)
					c.r.Check(lb >= need, rule, key, c.pos(pos), fmt.Sprintf("len >= %d established", lb), fmt.Sprintf("slicing %s up to %d but only len >= %d is established here: a shorter list from a peer panics (slice bounds out of range)", descr(base), need, lb))
					continue
				}
				if k, ok := core.ConstInt(idx); ok {
					n++
					key := fkey(rule, top, fmt.Sprintf("index:%s[%d]", shortDescr(base), k))
					lb := lc.lowerBound(base, pos, 0)
					c.r.Check(lb >= k+1, rule, key, c.pos(pos), fmt.Sprintf("len >= %d established", lb), fmt.Sprintf("reads element %d of %s but only len >= %d is established here: a shorter list from a peer panics (index out of range)", k, descr(base), lb))
					continue
				}
				// loop-indexed
				if l := loopIdx(core.Strip(idx)); l != nil {
					ht := core.TermOf(l.Hi)
					bt := core.TermOf(base)
					if ht.Op == "call:len" && !l.HiIncl {
						if ht.Args[0].Key() == bt.Key() {
							continue // range over the list itself
						}
						// range over a list made with the length of this one
						if mk, isMk := valueOfTerm(ht.Args[0]).(*ssa.MakeSlice); isMk {
							if mt := core.TermOf(mk.Len); mt.Op == "call:len" && mt.Args[0].Key() == bt.Key() {
								continue
							}
						}
					}
					n++
					key := fkey(rule, top, fmt.Sprintf("loop-index:%s[i<%s]", shortDescr(base), shortDescr(l.Hi)))
					ok, why := loopIndexInBounds(lc, base, l, pos)
					c.r.Check(ok, rule, key, c.pos(pos), "loop bound within the established length", why)
				}
			}
		}
	}
	c.r.Stats["wire_sized_index_sites"] = n
	c.r.Floor(rule, 20)
}

// loopIndexInBounds: idx < Hi (or <= Hi) and len(base) >= Hi (+1).
func loopIndexInBounds(lc *lenCtx, base ssa.Value, l *core.Loop, at ssa.Instruction) (bool, string) {
	maxPlus1 := core.TermOf(l.Hi) // exclusive bound as a term
	add := int64(0)
	if l.HiIncl {
		add = 1
	}
	if k, ok := core.TermInt(maxPlus1); ok {
		lb := lc.lowerBound(base, at, 0)
		if lb >= k+add {
			return true, ""
		}
		return false, fmt.Sprintf("the loop reads up to element %d of %s but only len >= %d is established", k+add-1, descr(base), lb)
	}
	// symbolic: a fact len(base) == E with E = Hi + c, c >= add; or len(other) with the same bound
	bt := core.TermOf(base)
	isLen := func(t *T) bool { return t.Op == "call:len" && t.Args[0].Key() == bt.Key() }
	for _, f := range core.TFactsAt(at.Block(), 2) {
		if f.Kind != core.FInt || f.X == nil || f.Y == nil {
			continue
		}
		x, y, o := f.X, f.Y, f.Ord
		if isLen(y) {
			x, y, o = y, x, o.Flip()
		}
		if !isLen(x) || o&core.LT != 0 {
			continue
		}
		// len >= y
		if y.Key() == maxPlus1.Key() && add == 0 {
			return true, ""
		}
		if y.Op == "bin+" {
			for i := 0; i < 2; i++ {
				if y.Args[i].Key() == maxPlus1.Key() {
					if k, ok := core.TermInt(y.Args[1-i]); ok && k >= add {
						return true, ""
					}
				}
			}
		}
		// len == (t+1)*2 style bounds are handled by lowerBound of callers
	}
	// lists of equal length by construction: base was allocated with make(len = Hi)
	if mk, ok := core.Strip(base).(*ssa.MakeSlice); ok && core.TermOf(mk.Len).Key() == maxPlus1.Key() && add == 0 {
		return true, ""
	}
	// lists the module itself filed in a container after validating their length
	if ok, why := lc.elemLenInvariant(base, l, at); ok {
		return true, ""
	} else if why != "" {
		return false, why
	}
	return false, fmt.Sprintf("the loop bound %s is not related to len(%s) by an established fact", descr(l.Hi), descr(base))
}

// ---- R06.5 use before the error is looked at ---------------------------------------------

func c06UseBeforeErr(c *c06ctx) {
	const rule = "R06.5"
	n := 0
	for _, fn := range c.scopeFuncs() {
		top := core.Outermost(fn)
		for _, cs := range core.Calls(fn) {
			call, ok := cs.(*ssa.Call)
			if !ok {
				continue
			}
			sig := call.Call.Signature()
			if sig.Results().Len() != 2 {
				continue
			}
			if _, isPtr := sig.Results().At(0).Type().Underlying().(*types.Pointer); !isPtr {
				if _, isSl := sig.Results().At(0).Type().Underlying().(*types.Slice); !isSl {
					continue
				}
			}
			if sig.Results().At(1).Type().String() != "error" {
				continue
			}
			g := core.Callee(call)
			if g == nil || !isModuleFn(g) {
				continue
			}
			// operands peer-influenced?
			var tn core.Taint
			if call.Call.IsInvoke() {
				tn |= c.t.Of(call.Call.Value)
			}
			for _, a := range call.Call.Args {
				tn |= c.t.Of(a)
			}
			if tr := os.Getenv("VERIF_TAINT_TRACE"); tr != "" && strings.Contains(c.pos(call), tr) {
				fmt.Fprintf(os.Stderr, "TAINT R06.5 %s operands %s\n", c.pos(call), tn)
				for _, a := range call.Call.Args {
					fmt.Fprintf(os.Stderr, "TAINT   arg %s = %s : %s\n", a.Name(), a.String(), c.t.Of(a))
				}
			}
			if tn&core.TWire == 0 {
				continue
			}
			n++
			res, errV := extractOf(call, 0), extractOf(call, 1)
			key := fkey(rule, top, "error-before-use:"+core.CalleeShort(call))
			if res == nil {
				c.r.Triv(rule, key, c.pos(call), "result unused")
				continue
			}
			bad := ""
			if errV != nil && errV.Referrers() != nil {
				live := false
				for _, u := range *errV.Referrers() {
					if _, isD := u.(*ssa.DebugRef); !isD {
						live = true
					}
				}
				if !live {
					errV = nil
				}
			}
			if errV == nil {
				// error discarded: every use of the pointer is a potential nil dereference
				if tn&core.TRand != 0 && tn&core.TWire != 0 && isProverFn(top) {
					c.r.OK(rule, key, c.pos(call), "prover side: an operand is blinded by a fresh local sample, failure has negligible probability")
					continue
				}
				if us := unexaminedDerefs(res, nil, map[ssa.Value]bool{}); len(us) > 0 {
					bad = "the error is discarded (`x, _ :=`) and the result is used at " + c.pos(us[0]) + ": when the call fails on peer-chosen operands the nil result is dereferenced"
				}
			} else {
				tests := errTestBlocks(errV)
				for _, u := range unexaminedDerefs(res, tests, map[ssa.Value]bool{}) {
					errNil := core.HasNilFact(core.TFactsAt(u.Block(), 0), func(t *T) bool { return t.V == errV }, true)
					if !errNil {
						bad = "the result is used at " + c.pos(u) + " before the error is examined: on failure the nil result is dereferenced"
						break
					}
				}
			}
			c.r.Check(bad == "", rule, key, c.pos(call), "every dereferencing use of the result comes after a branch on the error", bad)
		}
	}
	c.r.Stats["fallible_calls_on_wire_operands"] = n
	c.r.Floor(rule, 15)
}

// isProverFn: a constructor of a proof (New…Proof…, Prove…): the side that holds the witness.
func isProverFn(fn *ssa.Function) bool {
	n := fn.Name()
	return strings.HasPrefix(n, "New") || strings.HasPrefix(n, "Prove")
}

// errTestBlocks: the blocks that end in a branch on errV (err != nil / err == nil).
func errTestBlocks(errV ssa.Value) []*ssa.BasicBlock {
	var out []*ssa.BasicBlock
	refs := errV.Referrers()
	if refs == nil {
		return nil
	}
	for _, u := range *refs {
		bo, ok := u.(*ssa.BinOp)
		if !ok || (bo.Op != token.EQL && bo.Op != token.NEQ) || bo.Referrers() == nil {
			continue
		}
		for _, uu := range *bo.Referrers() {
			if iff, isIf := uu.(*ssa.If); isIf {
				out = append(out, iff.Block())
			}
		}
	}
	return out
}

func testedBefore(tests []*ssa.BasicBlock, b *ssa.BasicBlock, strict bool) bool {
	for _, t := range tests {
		if t == b {
			if !strict {
				return true
			}
			continue
		}
		if t.Dominates(b) {
			return true
		}
	}
	return false
}

// unexaminedDerefs: uses of v that dereference it (method receiver, field access, element access) and
// are not preceded on every path by a branch on the error. A value carried round a loop
// (`R, err = R.Add(x); if err != nil {…}`) is followed through the phi unless the edge that carries it
// leaves a block where the error has been branched on. Ranging over a possibly-nil list is safe.
func unexaminedDerefs(v ssa.Value, tests []*ssa.BasicBlock, seen map[ssa.Value]bool) []ssa.Instruction {
	var out []ssa.Instruction
	if seen[v] {
		return nil
	}
	seen[v] = true
	refs := v.Referrers()
	if refs == nil {
		return nil
	}
	_, isSlice := v.Type().Underlying().(*types.Slice)
	add := func(u ssa.Instruction) {
		if !testedBefore(tests, u.Block(), true) {
			out = append(out, u)
		}
	}
	for _, u := range *refs {
		switch x := u.(type) {
		case *ssa.Call:
			if len(x.Call.Args) > 0 && x.Call.Args[0] == v && x.Call.StaticCallee() != nil && x.Call.StaticCallee().Signature.Recv() != nil {
				// nil-safe receivers: Equals / ValidateBasic test for nil themselves
				n := x.Call.StaticCallee().Name()
				if n == "Equals" || n == "ValidateBasic" {
					continue
				}
				add(x)
			}
		case *ssa.IndexAddr:
			if isSlice && rangedOver(x.Index, v) {
				continue
			}
			add(u)
		case *ssa.Index:
			if isSlice && rangedOver(x.Index, v) {
				continue
			}
			add(u)
		case *ssa.FieldAddr, *ssa.Field:
			add(u)
		case *ssa.UnOp:
			if x.Op == token.MUL {
				add(u)
			}
		case *ssa.Phi:
			follow := false
			for i, e := range x.Edges {
				if e == v && !testedBefore(tests, x.Block().Preds[i], false) {
					follow = true
				}
			}
			if follow {
				out = append(out, unexaminedDerefs(x, tests, seen)...)
			}
		}
	}
	return out
}

// rangedOver: idx is the index of a counted loop bounded by len(list).
func rangedOver(idx ssa.Value, list ssa.Value) bool {
	l := loopIdx(core.Strip(idx))
	if l == nil || l.HiIncl {
		return false
	}
	t := core.TermOf(l.Hi)
	return t.Op == "call:len" && valueOfTerm(t.Args[0]) == list
}

// ---- R06.6 unchecked type assertions ------------------------------------------------------

func c06Asserts(c *c06ctx) {
	const rule = "R06.6"
	n := 0
	for _, rel := range protoRels {
		pr := ExtractProtocol(c.p, rel)
		for _, rd := range pr.Rounds {
			for _, m := range []string{"Start", "Update"} {
				st := rd.Fns[m]
				if st == nil {
					continue
				}
				for _, g := range unitFuncs(st) {
					for _, b := range g.Blocks {
						for _, in := range b.Instrs {
							ta, ok := in.(*ssa.TypeAssert)
							if !ok || ta.CommaOk {
								continue
							}
							n++
							key := core.Key(rule, rel, rd.Name+"."+m, "assert:"+typeName(ta.AssertedType))
							d := descr(ta.X)
							// msg(temp.<array>[idx])
							arr := ""
							for _, a := range pr.Arrays {
								if strings.Contains(d, "temp."+a+"[") || strings.Contains(d, a+"[") {
									arr = a
								}
							}
							want := ""
							for ct, a := range pr.StoreTab {
								if a == arr {
									want = ct
								}
							}
							c.r.Check(arr != "" && want == typeName(ta.AssertedType), rule, key, c.pos(ta), "asserts the type StoreMessage files in "+arr, fmt.Sprintf("unchecked assertion to %s on %s, but that array holds %q: the assertion panics", typeName(ta.AssertedType), d, want))
						}
					}
				}
			}
		}
	}
	c.r.Floor(rule, 39)
	_ = n
}

// ---- R06.7 explicit panics ----------------------------------------------------------------

// allowedPanics: functions that may contain an explicit panic, each with the reason it cannot be
// triggered by network input.
var allowedPanics = map[string]string{
	"crypto.(*ECPoint).ScalarMult":                       "identity product: discharged per call site by R06.1",
	"crypto.ScalarBaseMult":                              "identity product: discharged per call site by R06.1",
	"common.MustGetRandomInt":                            "bit count comes from BitLen() of a bound guarded positive (R19.4) or a constant; entropy failure is a local fault",
	"crypto/paillier.GenerateXs":                         "hash write error of the standard library (cannot happen for in-memory hashes)",
	"crypto/paillier.GenerateKeyPair":                    "misuse of the optional concurrency argument by the application",
	"ecdsa/keygen.GeneratePreParamsWithContextAndRandom": "misuse of the optional concurrency argument by the application",
	"ecdsa/keygen.NewLocalParty":                         "constructor: invalid pre-parameters supplied by the application",
	"ecdsa/keygen.NewDlnProofVerifier":                   "concurrency level 0 is application configuration",
	"ecdsa/keygen.BuildLocalSaveDataSubset":              "signer not present in the caller's own key data",
	"eddsa/keygen.BuildLocalSaveDataSubset":              "signer not present in the caller's own key data",
	"tss.SortPartyIDs":                                   "party list supplied by the application",
	"tss.(*PartyID).KeyInt":                              "",
}

func c06Panics(c *c06ctx) {
	const rule = "R06.7"
	n := 0
	var table []string
	for _, fn := range c.p.ModuleFuncs(false) {
		if strings.HasSuffix(c.p.Fset.Position(fn.Pos()).Filename, "test_utils.go") || strings.Contains(c.p.Fset.Position(fn.Pos()).Filename, "/test/") {
			continue
		}
		var panics []ssa.Instruction
		for _, b := range fn.Blocks {
			for _, in := range b.Instrs {
				if pn, ok := in.(*ssa.Panic); ok && pn.Pos().IsValid() {
					panics = append(panics, pn)
				}
			}
		}
		for _, cs := range panics {
			n++
			top := core.Outermost(fn)
			name := core.RelPkg(top) + "." + core.FuncName(top)
			key := fkey(rule, top, "explicit-panic")
			why, ok := allowedPanics[name]
			// the panicking tail of reviewed functions factored into a private helper: reviewed with them,
			// provided nothing else calls it
			if !ok && core.PrivateHelper(top) {
				sites := core.ClosureCallSites(top)
				all := len(sites) > 0
				var from []string
				for _, cs := range sites {
					ct := core.Outermost(cs.Parent())
					cn := core.RelPkg(ct) + "." + core.FuncName(ct)
					if r, isOK := allowedPanics[cn]; !isOK || r == "" {
						all = false
					} else {
						from = append(from, cn+": "+r)
					}
				}
				if all {
					why, ok = "private helper called only from reviewed functions ("+strings.Join(from, "; ")+")", true
				}
			}
			onPath := c.scope[fn]
			table = append(table, fmt.Sprintf("%s (on network path: %v): %s", name, onPath, why))
			if ok && why != "" {
				c.r.OK(rule, key, c.pos(cs), why)
			} else if !onPath {
				c.r.OK(rule, key, c.pos(cs), "not reachable from an update entry point or the verifier/decoder API")
			} else {
				c.r.Bad(rule, key, c.pos(cs), "an explicit panic is reachable from network input and is not in the reviewed table")
			}
		}
	}
	sort.Strings(table)
	c.r.Tables["explicit_panics"] = table
	c.r.Floor(rule, 10)
}
