package rules

import (
	"fmt"
	"go/types"
	"sort"
	"strings"

	"golang.org/x/tools/go/ssa"

	"tsscheck/internal/core"
)

// c06IndexBound: acceptance by ValidateMessage requires From.Index <= bound-1, and for every content
// type the bound tested is the length class (which committee's size) of the array StoreMessage files
// that type in. The bound may be selected per content type (resharing: a type switch feeding a phi).
func c06IndexBound(c *c06ctx, pr *Protocol, rel string, vm *ssa.Function, accepting []*ssa.BasicBlock) {
	const rule = "R06.0"
	// per content type ("*" = every type not named): class of the bound
	bound := map[string]string{}
	okIdx := len(accepting) > 0
	addBound := func(t *T, types []string) bool {
		// t is `L - 1`
		if t.Op != "bin-" || !constIs(t.Args[1], 1) {
			return false
		}
		d := t.Args[0].Key()
		if t.Args[0].V != nil {
			d = descr(t.Args[0].V)
		}
		cls := classOfDescr(d)
		if len(types) == 0 {
			types = []string{"*"}
		}
		for _, ty := range types {
			if old, has := bound[ty]; has && old != cls {
				bound[ty] = old + "|" + cls
			} else {
				bound[ty] = cls
			}
		}
		return true
	}
	for _, b := range accepting {
		found := false
		for _, f := range core.TFactsAt(b, 0) {
			if f.Kind != core.FInt || f.X == nil || f.Y == nil {
				continue
			}
			x, y, o := f.X, f.Y, f.Ord
			if n, _ := y.Field(); n == "Index" {
				x, y, o = y, x, o.Flip()
			}
			if n, _ := x.Field(); n != "Index" {
				continue
			}
			if o&core.GT != 0 {
				continue // not an upper bound on the index
			}
			// Index <= y
			if ph, isPhi := valueOfTerm(y).(*ssa.Phi); isPhi {
				all := true
				for i, e := range ph.Edges {
					if !addBound(core.TermOf(e), assertedTypesAt(ph.Block().Preds[i])) {
						all = false
					}
				}
				found = found || all
				continue
			}
			// the bound picked by a private helper from the message's content type: one bound per return
			if call, isC := valueOfTerm(y).(*ssa.Call); isC && !call.Call.IsInvoke() && core.PrivateHelper(core.Callee(call)) {
				h := core.Callee(call)
				fromContent := false
				for _, a := range call.Call.Args {
					if ac, isCall := core.Strip(a).(*ssa.Call); isCall && ac.Call.IsInvoke() && ac.Call.Method.Name() == "Content" {
						fromContent = true
					}
				}
				all := fromContent
				n := 0
				for _, ret := range core.Returns(h) {
					n++
					if !addBound(core.TermOf(ret.Results[0]), assertedTypesAt(ret.Block())) {
						all = false
					}
				}
				found = found || (all && n > 0)
				continue
			}
			if addBound(y, nil) {
				found = true
			}
		}
		if !found {
			okIdx = false
		}
	}
	// allocation lengths of the message arrays in the constructor
	alloc := map[string]string{}
	for _, fn := range c.p.FuncsOfPkg(rel) {
		if !strings.HasPrefix(fn.Name(), "NewLocalParty") {
			continue
		}
		for _, b := range fn.Blocks {
			for _, in := range b.Instrs {
				if st, ok := in.(*ssa.Store); ok {
					if fa := core.AsFieldAddr(st.Addr); fa != nil && contains(pr.Arrays, fa.Name) {
						if mk, isMk := core.Strip(st.Val).(*ssa.MakeSlice); isMk {
							alloc[fa.Name] = lenClass(mk.Len)
						}
					}
				}
			}
		}
	}
	c.r.Check(okIdx, rule, fkey(rule, vm, "sender-index-bound"), c.fpos(vm), fmt.Sprintf("acceptance requires From.Index <= bound-1 with bound per type %v; arrays allocated as %v", mapStr(bound), mapStr(alloc)), "a message whose sender index exceeds the array length is accepted (index out of range in StoreMessage)")
	okClass := len(alloc) > 0 && len(pr.StoreTab) > 0
	why := ""
	var cts []string
	for ct := range pr.StoreTab {
		cts = append(cts, ct)
	}
	sort.Strings(cts)
	for _, ct := range cts {
		arr := pr.StoreTab[ct]
		cls, has := bound[ct]
		if !has {
			cls, has = bound["*"]
		}
		if !has || alloc[arr] == "" || cls != alloc[arr] {
			okClass = false
			why += fmt.Sprintf("%s is filed in %s (allocated with %s) but its sender index is bounded by %q; ", ct, arr, alloc[arr], cls)
		}
	}
	c.r.Check(okClass, rule, fkey(rule, vm, "bound-matches-array-length"), c.fpos(vm), "for every content type the bound tested is the length its array was allocated with", why+"an in-range check against another committee's size lets an index past the end of the stored-message array")
}

func valueOfTerm(t *T) ssa.Value {
	if t == nil || t.V == nil {
		return nil
	}
	return core.Strip(t.V)
}

func mapStr(m map[string]string) string {
	var ks []string
	for k := range m {
		ks = append(ks, k)
	}
	sort.Strings(ks)
	var parts []string
	for _, k := range ks {
		parts = append(parts, k+"="+m[k])
	}
	return "[" + strings.Join(parts, " ") + "]"
}

// assertedTypesAt: the content types established (type-switch case taken) on every path through block b;
// empty for the default branch.
func assertedTypesAt(b *ssa.BasicBlock) []string {
	pos := func(fs []core.Fact) []string {
		var out []string
		for _, f := range fs {
			if f.Kind != core.FBool || !f.Bool {
				continue
			}
			if ex, ok := core.Strip(f.X).(*ssa.Extract); ok && ex.Index == 1 {
				if ta, isTA := ex.Tuple.(*ssa.TypeAssert); isTA && ta.CommaOk {
					out = append(out, typeName(ta.AssertedType))
				}
			}
		}
		return out
	}
	if ts := pos(core.FactsAt(b)); len(ts) > 0 {
		return ts
	}
	var out []string
	for _, p := range b.Preds {
		iff, ok := p.Instrs[len(p.Instrs)-1].(*ssa.If)
		if !ok {
			return nil
		}
		fs := core.CondFacts(iff.Cond, p.Succs[0] == b, iff)
		ts := pos(fs)
		if len(ts) == 0 {
			return nil
		}
		out = append(out, ts...)
	}
	return out
}

var _ = types.Typ
