package rules

import (
	"go/token"
	"go/types"
	"strings"

	"golang.org/x/tools/go/ssa"

	"tsscheck/internal/core"
)

// lenOrigin decides whether the *length* of a slice is chosen by the sender of a message. The
// stored-message arrays, the key-data arrays and every `make([]T, partyCount)` hold peer data in
// their elements but have a length fixed by the party's own configuration; a protobuf repeated
// field, and everything decoded from it without a length check, has a length the peer picks.
type lenOrigin struct {
	c      *c06ctx
	stores map[string][]ssa.Value // owner type.field → values stored module-wide
	sites  map[*ssa.Function][]ssa.CallInstruction
	memo   map[ssa.Value]bool
}

func newLenOrigin(c *c06ctx) *lenOrigin {
	lo := &lenOrigin{c: c, stores: map[string][]ssa.Value{}, sites: map[*ssa.Function][]ssa.CallInstruction{}, memo: map[ssa.Value]bool{}}
	for _, f := range c.p.ModuleFuncs(false) {
		for _, b := range f.Blocks {
			for _, in := range b.Instrs {
				switch x := in.(type) {
				case *ssa.Store:
					if fa := core.AsFieldAddr(x.Addr); fa != nil {
						if _, isSl := x.Val.Type().Underlying().(*types.Slice); isSl {
							k := fa.String()
							lo.stores[k] = append(lo.stores[k], x.Val)
						}
					}
				case ssa.CallInstruction:
					if g := core.Callee(x); g != nil {
						lo.sites[g] = append(lo.sites[g], x)
					}
				}
			}
		}
	}
	return lo
}

func (lo *lenOrigin) wire(v ssa.Value) bool {
	return lo.walk(v, 0, map[ssa.Value]bool{})
}

func (lo *lenOrigin) walk(v ssa.Value, depth int, seen map[ssa.Value]bool) bool {
	if v == nil || depth > 12 {
		return false
	}
	v = core.Strip(v)
	if seen[v] {
		return false
	}
	seen[v] = true
	if r, ok := lo.memo[v]; ok {
		return r
	}
	r := lo.walk1(v, depth, seen)
	if depth == 0 {
		lo.memo[v] = r
	}
	return r
}

func (lo *lenOrigin) isContent(t types.Type) bool {
	nt := namedOfType(t)
	return nt != nil && lo.c.t.Content[nt]
}

func (lo *lenOrigin) walk1(v ssa.Value, depth int, seen map[ssa.Value]bool) bool {
	valWire := func(x ssa.Value) bool { return lo.c.t.Of(x)&core.TWire != 0 }
	switch x := v.(type) {
	case *ssa.Const, *ssa.Global:
		return false
	case *ssa.MakeSlice:
		t := core.TermOf(x.Len)
		if t.Op == "call:len" && t.Args[0].V != nil {
			return lo.walk(t.Args[0].V, depth+1, seen)
		}
		return false
	case *ssa.Slice:
		if x.High != nil {
			if _, isK := core.ConstInt(x.High); isK {
				return false
			}
		}
		if _, isArr := derefType(x.X.Type()).Underlying().(*types.Array); isArr {
			return false
		}
		return lo.walk(x.X, depth+1, seen)
	case *ssa.Phi:
		for _, e := range x.Edges {
			if lo.walk(e, depth+1, seen) {
				return true
			}
		}
		return false
	case *ssa.Extract:
		if sel, isSel := x.Tuple.(*ssa.Select); isSel {
			// value received in a select case: what the module sends on that channel
			r := 2
			for _, st := range sel.States {
				if st.Dir != types.RecvOnly {
					continue
				}
				if r == x.Index {
					for _, sv := range sentOn(st.Chan) {
						if lo.walk(sv, depth+1, seen) {
							return true
						}
					}
					return false
				}
				r++
			}
			return false
		}
		call, ok := x.Tuple.(*ssa.Call)
		if !ok {
			return valWire(v)
		}
		return lo.call(call, x.Index, depth, seen)
	case *ssa.Call:
		return lo.call(x, 0, depth, seen)
	case *ssa.UnOp:
		if x.Op == token.ARROW {
			// received from a channel: what the module sends on it
			for _, sv := range sentOn(x.X) {
				if lo.walk(sv, depth+1, seen) {
					return true
				}
			}
			return false
		}
		if x.Op != token.MUL {
			return valWire(v)
		}
		if fa := core.AsFieldAddr(x.X); fa != nil {
			if lo.isContent(fa.Owner) {
				return true
			}
			if nt := namedOfType(fa.Owner); nt != nil {
				// receiver fields of the exported verifier/decoder API are peer-built objects
				if p, isP := core.Strip(fa.Base).(*ssa.Parameter); isP && lo.c.t.Entry[p.Parent()] && len(p.Parent().Params) > 0 && p.Parent().Params[0] == p && p.Parent().Signature.Recv() != nil {
					return true
				}
			}
			for _, sv := range lo.stores[fa.String()] {
				if lo.walk(sv, depth+1, seen) {
					return true
				}
			}
			return false
		}
		// local variable / captured variable: what is stored there
		addr := core.Strip(x.X)
		if fv, isFV := addr.(*ssa.FreeVar); isFV {
			if bnd := core.FreeVarBinding(fv); bnd != nil {
				addr = core.Strip(bnd)
			}
		}
		if al, isAl := addr.(*ssa.Alloc); isAl {
			return lo.storedInto(al, depth, seen)
		}
		if _, isIA := addr.(*ssa.IndexAddr); isIA {
			return valWire(v) // an element of a list of lists: as peer-chosen as the element is
		}
		return valWire(v)
	case *ssa.Parameter:
		fn := x.Parent()
		if lo.c.t.Entry[fn] {
			return true
		}
		idx := -1
		for i, p := range fn.Params {
			if p == x {
				idx = i
			}
		}
		for _, cs := range lo.sites[fn] {
			args := cs.Common().Args
			if idx >= 0 && idx < len(args) && lo.walk(args[idx], depth+1, seen) {
				return true
			}
		}
		return false
	case *ssa.FreeVar:
		if bnd := core.FreeVarBinding(x); bnd != nil {
			return lo.walk(bnd, depth+1, seen)
		}
		return valWire(v)
	case *ssa.Alloc:
		return lo.storedInto(x, depth, seen)
	case *ssa.Index, *ssa.Lookup:
		return valWire(v)
	}
	return valWire(v)
}

func derefType(t types.Type) types.Type {
	if p, ok := t.Underlying().(*types.Pointer); ok {
		return p.Elem()
	}
	return t
}

func (lo *lenOrigin) storedInto(al *ssa.Alloc, depth int, seen map[ssa.Value]bool) bool {
	refs := al.Referrers()
	if refs == nil {
		return false
	}
	for _, u := range *refs {
		if st, ok := u.(*ssa.Store); ok && st.Addr == ssa.Value(al) {
			if lo.walk(st.Val, depth+1, seen) {
				return true
			}
		}
		if mc, ok := u.(*ssa.MakeClosure); ok {
			// stores made inside the closure through the captured variable
			g := mc.Fn.(*ssa.Function)
			for i, b := range mc.Bindings {
				if b != ssa.Value(al) {
					continue
				}
				fv := g.FreeVars[i]
				if fr := fv.Referrers(); fr != nil {
					for _, uu := range *fr {
						if st, ok := uu.(*ssa.Store); ok && st.Addr == ssa.Value(fv) && lo.walk(st.Val, depth+1, seen) {
							return true
						}
					}
				}
			}
		}
	}
	return false
}

func (lo *lenOrigin) call(call *ssa.Call, ri int, depth int, seen map[ssa.Value]bool) bool {
	valWire := func(x ssa.Value) bool { return lo.c.t.Of(x)&core.TWire != 0 }
	a := call.Call.Args
	if bi, ok := call.Call.Value.(*ssa.Builtin); ok {
		switch bi.Name() {
		case "append":
			for _, x := range a {
				if lo.walk(x, depth+1, seen) {
					return true
				}
			}
			return false
		}
		return false
	}
	switch {
	case core.CallIs(call, "~/common.MultiBytesToBigInts", "~/crypto/commitments.NewHashDeCommitmentFromBytes", "~/common.BigIntsToBytes", "~/common.ByteSlicesToBigInts"):
		return lo.walk(a[0], depth+1, seen)
	case core.CallIs(call, "~/crypto.UnFlattenECPoints"):
		return ri == 0 && lo.walk(a[1], depth+1, seen)
	case core.CallIs(call, "~/crypto.FlattenECPoints"):
		return ri == 0 && lo.walk(a[0], depth+1, seen)
	case core.CallIs(call, "(*~/crypto/commitments.HashCommitDecommit).DeCommit"):
		if ri != 1 {
			return false
		}
		if d := storedFields(a[0])["D"]; d != nil {
			return lo.walk(d, depth+1, seen)
		}
		return valWire(a[0])
	case core.CallIs(call, "~/crypto/commitments.ParseSecrets"):
		return ri == 0 && valWire(a[0]) // the number of parts is encoded in the values
	}
	g := core.Callee(call)
	if g == nil {
		if call.Call.IsInvoke() {
			return valWire(call)
		}
		return valWire(call)
	}
	if g.Signature.Recv() != nil && lo.isContent(g.Signature.Recv().Type()) {
		return true // getters and Unmarshal* of a content type
	}
	if g.Blocks == nil || !isModuleFn(g) {
		// standard library ((*big.Int).Bytes, …): the byte length of one number's encoding is a
		// value-dependent quantity, not a list whose arity the sender picks — outside this rule
		return false
	}
	if strings.HasPrefix(g.Name(), "Get") && g.Signature.Recv() != nil && len(g.Blocks) <= 3 {
		// plain accessor: the field it returns
	}
	for _, ret := range core.Returns(g) {
		if ri < len(ret.Results) && lo.walk(ret.Results[ri], depth+1, seen) {
			return true
		}
	}
	return false
}

// sentOn: the values sent on the channel ch is (an alias of), searched in the functions of the
// channel's creator and its closures.
func sentOn(ch ssa.Value) []ssa.Value {
	mk := core.ChanMake(ch)
	if mk == nil {
		return nil
	}
	var out []ssa.Value
	for _, s := range core.SendsOn(core.Outermost(mk.Parent()), mk) {
		out = append(out, s.X)
	}
	return out
}
