package rules

import (
	"fmt"
	"go/token"
	"go/types"
	"sort"
	"strings"

	"golang.org/x/tools/go/ssa"

	"tsscheck/internal/core"
)

// ownCount: v is an integer taken from the party's own configuration (threshold, party count) or an
// integer parameter of the exported API — never a number decoded from a message.
func (lc *lenCtx) ownCount(v ssa.Value) bool {
	v = core.Strip(v)
	if b, ok := v.Type().Underlying().(*types.Basic); !ok || b.Info()&types.IsInteger == 0 {
		return false
	}
	if _, isP := v.(*ssa.Parameter); isP {
		return true
	}
	return lc.c.t.Of(v)&core.TWire == 0
}

// symStr renders an integer term position-free: constants, +, *, and descr() of the leaves.
func symStr(t *T) string {
	if t == nil {
		return "?"
	}
	if k, ok := core.TermInt(t); ok {
		return fmt.Sprint(k)
	}
	switch t.Op {
	case "bin+", "bin*":
		parts := []string{symStr(t.Args[0]), symStr(t.Args[1])}
		sort.Strings(parts)
		return "(" + strings.Join(parts, t.Op[3:]) + ")"
	case "bin-":
		return "(" + symStr(t.Args[0]) + "-" + symStr(t.Args[1]) + ")"
	}
	if t.V != nil {
		return descr(t.V)
	}
	return t.Key()
}

// symLen: a symbolic exact length of the list v established at `at` ("" when none).
func (lc *lenCtx) symLen(v ssa.Value, at ssa.Instruction, depth int) string {
	if depth > 4 {
		return ""
	}
	v = core.Strip(v)
	facts := core.TFactsAt(at.Block(), 2)
	vt := core.TermOf(v)
	isLenV := func(t *T) bool { return t.Op == "call:len" && t.Args[0].Key() == vt.Key() }
	for _, f := range facts {
		if f.Kind != core.FInt || f.X == nil || f.Y == nil || f.Ord != core.EQ {
			continue
		}
		if isLenV(f.X) {
			return symStr(f.Y)
		}
		if isLenV(f.Y) {
			return symStr(f.X)
		}
	}
	if ex, ok := v.(*ssa.Extract); ok && ex.Index == 0 {
		if call, isC := ex.Tuple.(*ssa.Call); isC && core.CallIs(call, "~/crypto.UnFlattenECPoints") {
			errV := extractOf(call, 1)
			if errV == nil || !core.HasNilFact(facts, func(t *T) bool { return t.V == errV }, true) {
				return ""
			}
			// len(flat) == E*2  ⇒  len(points) == E
			in := core.Strip(call.Call.Args[1])
			it := core.TermOf(in)
			for _, f := range facts {
				if f.Kind != core.FInt || f.X == nil || f.Y == nil || f.Ord != core.EQ {
					continue
				}
				x, y := f.X, f.Y
				if y.Op == "call:len" && y.Args[0].Key() == it.Key() {
					x, y = y, x
				}
				if x.Op == "call:len" && x.Args[0].Key() == it.Key() && y.Op == "bin*" {
					for i := 0; i < 2; i++ {
						if constIs(y.Args[i], 2) {
							return symStr(y.Args[1-i])
						}
					}
				}
			}
		}
	}
	return ""
}

type elemStore struct {
	val ssa.Value
	at  ssa.Instruction
}

// elemStores: when `base` is an element of a container the module fills itself — `C[x]` of a locally
// made list of lists, or field f of a package-private struct type — all values stored there.
func (lc *lenCtx) elemStores(base ssa.Value) (stores []elemStore, what string, container ssa.Value) {
	ld, ok := core.Strip(base).(*ssa.UnOp)
	if !ok || ld.Op != token.MUL {
		return nil, "", nil
	}
	switch a := ld.X.(type) {
	case *ssa.IndexAddr:
		// the container handed to a closure or a private helper: the list its call site passes
		x := core.Strip(a.X)
		for i := 0; i < 4; i++ {
			p, isP := x.(*ssa.Parameter)
			if !isP || !bindableParam(p) {
				break
			}
			arg := closureArg(p)
			if arg == nil {
				break
			}
			x = core.Strip(arg)
		}
		mk, isMk := x.(*ssa.MakeSlice)
		if !isMk {
			return nil, "", nil
		}
		if refs := mk.Referrers(); refs != nil {
			for _, u := range *refs {
				ia, isIA := u.(*ssa.IndexAddr)
				if !isIA || ia.Referrers() == nil {
					continue
				}
				for _, uu := range *ia.Referrers() {
					if st, isSt := uu.(*ssa.Store); isSt && st.Addr == ssa.Value(ia) {
						stores = append(stores, elemStore{st.Val, st})
					}
				}
			}
		}
		return stores, "elements of the list made at " + lc.c.pos(mk), mk
	case *ssa.FieldAddr:
		fr := core.AsFieldAddr(a)
		nt := namedOfType(fr.Owner)
		if nt == nil || nt.Obj().Exported() || lc.c.t.Content[nt] {
			return nil, "", nil
		}
		for _, f := range lc.c.p.FuncsOfPkg(strings.TrimPrefix(nt.Obj().Pkg().Path(), mod+"/")) {
			for _, g := range core.WithClosures(f) {
				for _, b := range g.Blocks {
					for _, in := range b.Instrs {
						st, isSt := in.(*ssa.Store)
						if !isSt {
							continue
						}
						if fr2 := core.AsFieldAddr(st.Addr); fr2 != nil && fr2.Name == fr.Name && types.Identical(fr2.Owner, fr.Owner) {
							stores = append(stores, elemStore{st.Val, st})
						}
					}
				}
			}
		}
		return dedupStores(stores), "field " + fr.Name + " of the package-private type " + nt.Obj().Name(), nil
	}
	return nil, "", nil
}

func dedupStores(in []elemStore) []elemStore {
	seen := map[ssa.Instruction]bool{}
	var out []elemStore
	for _, s := range in {
		if !seen[s.at] {
			seen[s.at] = true
			out = append(out, s)
		}
	}
	return out
}

// elemLenInvariant discharges `base[i]`, i bounded by the loop l, when every list the module stores in
// base's container was validated to the exact length the loop needs before it was stored, and (for a
// local list of lists) the storing loop fills every slot before the read can be reached.
func (lc *lenCtx) elemLenInvariant(base ssa.Value, l *core.Loop, at ssa.Instruction) (bool, string) {
	stores, what, container := lc.elemStores(base)
	if what == "" {
		return false, ""
	}
	hiT := core.TermOf(l.Hi)
	// the reading loop sits in a private helper of the function that made the container: its bound and
	// its position are read in that function (argument of the call, the call instruction)
	if mk, ok := container.(*ssa.MakeSlice); ok && core.Outermost(mk.Parent()) != core.Outermost(at.Parent()) {
		hiT = core.FrameTerm(core.Outermost(mk.Parent()), l.Hi)
		var site ssa.Instruction
		n := 0
		for _, g := range core.WithClosures(core.Outermost(mk.Parent())) {
			for _, cs := range core.Calls(g) {
				if core.Callee(cs) == core.Outermost(at.Parent()) {
					site = cs
					n++
				}
			}
		}
		if n != 1 {
			return false, what + ": read in a helper that is not called exactly once by the function that fills the list"
		}
		at = site
	}
	// `for c := range Vc` with Vc = make([]T, n): the bound is n
	if hiT.Op == "call:len" {
		if mk, isMk := valueOfTerm(hiT.Args[0]).(*ssa.MakeSlice); isMk {
			hiT = core.TermOf(mk.Len)
		}
	}
	need := symStr(hiT)
	if l.HiIncl {
		parts := []string{need, "1"}
		sort.Strings(parts)
		need = "(" + strings.Join(parts, "+") + ")"
	}
	n := 0
	for _, s := range stores {
		if core.IsNilConst(core.Strip(s.val)) {
			continue
		}
		n++
		got := lc.symLen(s.val, s.at, 0)
		if got != need {
			return false, fmt.Sprintf("%s: the list stored at %s has established length %q, the reading loop needs %q", what, lc.c.pos(s.at), got, need)
		}
	}
	if n == 0 {
		return false, what + ": no store found"
	}
	if mk, ok := container.(*ssa.MakeSlice); ok {
		// every slot is filled: one store sits in a counted loop over [0,len(C)) at the loop index, runs on
		// every completed iteration, and the read is reachable only through that loop's normal exit
		filled := false
		for _, s := range stores {
			st := s.at.(*ssa.Store)
			ia := st.Addr.(*ssa.IndexAddr)
			fl := loopIdx(core.Strip(ia.Index))
			if fl == nil || fl.Lo != 0 || !core.EdgeDominates(fl.Header, 1, at.Block()) {
				continue
			}
			ht := core.TermOf(fl.Hi)
			full := false
			lenC := func(t *T) bool {
				return t.Op == "call:len" && valueOfTerm(t.Args[0]) == ssa.Value(mk) || t.Key() == core.TermOf(mk.Len).Key()
			}
			if fl.HiIncl {
				full = ht.Op == "bin-" && lenC(ht.Args[0]) && constIs(ht.Args[1], 1)
			} else {
				full = lenC(ht)
			}
			every := true
			for _, la := range fl.Latches() {
				if !st.Block().Dominates(la) {
					every = false
				}
			}
			if full && every {
				filled = true
			}
		}
		if !filled {
			return false, what + ": no loop fills every slot before the read"
		}
	}
	return true, fmt.Sprintf("%s: each of the %d non-nil stores is preceded by a check fixing the length to %s", what, n, need)
}
