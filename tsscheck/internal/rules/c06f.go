package rules

import (
	"fmt"
	"strings"

	"golang.org/x/tools/go/ssa"

	"tsscheck/internal/core"
)

// ---- R06.3 arithmetic preconditions, with the obligation lifted to the callers of helpers ----
//
// big.Jacobi(x, y) panics for an even or non-positive y; Mod/Div/Quo/Rem panic for a zero modulus;
// Exp with a zero modulus is an unreduced power (with a 2048-bit exponent: a hang). The modulus is
// often a parameter of a small helper (modInt.Mul, RejectionSample, paillier.L, isQuadraticResidue):
// the obligation is then evaluated at every call site of the helper on the network path, with the
// helper's parameter replaced by the caller's argument, up to four levels.

type modNeed int

const (
	needNonZero modNeed = iota
	needOddPositive
)

type arithCtx struct {
	c       *c06ctx
	callers map[*ssa.Function][]ssa.CallInstruction // call sites inside functions on the network path
}

func newArithCtx(c *c06ctx) *arithCtx {
	ac := &arithCtx{c: c, callers: map[*ssa.Function][]ssa.CallInstruction{}}
	for _, fn := range c.scopeFuncs() {
		for _, cs := range core.Calls(fn) {
			if g := core.Callee(cs); g != nil {
				ac.callers[g] = append(ac.callers[g], cs)
			}
		}
	}
	return ac
}

func c06Arith2(c *c06ctx) {
	const rule = "R06.3"
	ac := newArithCtx(c)
	for _, fn := range c.scopeFuncs() {
		top := core.Outermost(fn)
		for _, cs := range core.Calls(fn) {
			call, ok := cs.(*ssa.Call)
			if !ok {
				continue
			}
			name := core.CalleeName(call)
			var m ssa.Value
			need := needNonZero
			what := ""
			switch name {
			case "math/big.Jacobi":
				m, need = call.Call.Args[1], needOddPositive
				what = "big.Jacobi panics for an even or non-positive second argument"
			case "(*math/big.Int).Mod", "(*math/big.Int).Div", "(*math/big.Int).Quo", "(*math/big.Int).Rem":
				m = call.Call.Args[2]
				what = "a zero modulus makes " + shortName(name) + " panic (division by zero)"
			case "(*math/big.Int).Exp":
				m = call.Call.Args[3]
				what = "a zero modulus turns the modular power into an unreduced one (a hang for the exponent sizes used)"
			default:
				continue
			}
			if core.IsNilConst(core.Strip(m)) {
				continue
			}
			key := fkey(rule, top, "modulus:"+shortName(name)+"("+shortDescr(m)+")")
			ok2, why, triv := ac.prove(core.TermAt(unwrapModVal(m), call), call, need, 0)
			switch {
			case ok2 && triv:
				c.r.Triv(rule, key, c.pos(call), why)
			case ok2:
				c.r.OK(rule, key, c.pos(call), why)
			default:
				c.r.Bad(rule, key, c.pos(call), what+"; "+why)
			}
		}
	}
	c.r.Floor(rule, 30)
}

// unwrapModVal strips the modInt wrapper at value level: common.ModInt(x), mi.i() and the
// (*modInt)(x) conversion all denote x.
func unwrapModVal(v ssa.Value) ssa.Value {
	for i := 0; i < 6; i++ {
		v = core.Strip(v)
		switch x := v.(type) {
		case *ssa.Call:
			if core.CallIs(x, "~/common.ModInt") {
				v = x.Call.Args[0]
				continue
			}
			if core.CallIs(x, "(*~/common.modInt).i") {
				v = x.Call.Args[0]
				continue
			}
		case *ssa.ChangeType:
			v = x.X
			continue
		case *ssa.Convert:
			v = x.X
			continue
		}
		break
	}
	return v
}

// unwrapModulus strips the modInt wrapper: ModInt(x) and mi.i() denote x.
func unwrapModulus(t *T) *T {
	for i := 0; i < 4; i++ {
		if !strings.HasPrefix(t.Op, "call:") || len(t.Args) != 1 {
			return t
		}
		n := t.Op[5:]
		if j := strings.LastIndexAny(n, ".:"); j >= 0 {
			n = n[j+1:]
		}
		if n != "i" && n != "ModInt" {
			return t
		}
		t = t.Args[0]
	}
	return t
}

// termTaint: origin classes of the leaves of t.
func (ac *arithCtx) termTaint(t *T) core.Taint {
	var u core.Taint
	var walk func(t *T)
	walk = func(t *T) {
		if t == nil {
			return
		}
		if t.V != nil {
			u |= ac.c.t.Of(t.V)
			return
		}
		for _, a := range t.Args {
			walk(a)
		}
	}
	walk(t)
	return u
}

// prove: the modulus term mt is non-zero (odd and positive) whenever `at` executes.
func (ac *arithCtx) prove(mt *T, at ssa.Instruction, need modNeed, depth int) (ok bool, why string, trivial bool) {
	mt = unwrapModulus(mt)
	if k, isK := core.TermInt(mt); isK && k != 0 && (need == needNonZero || k > 0 && k%2 == 1) {
		return true, "constant", true
	}
	if core.IsCurveOrder(mt) {
		return true, "the curve's group order", true
	}
	if b, k := core.PowerOf(mt); k >= 2 && core.IsCurveOrder(b) {
		return true, "a power of the curve's group order", true
	}
	tn := ac.termTaint(mt)
	if tn&core.TWire == 0 {
		return true, "origin " + tn.String() + ": not chosen by a peer", true
	}
	facts := instrFacts(at)
	isM := core.KeyIs(mt)
	switch need {
	case needNonZero:
		if modulusPositive(facts, isM, mt) {
			return true, "guarded non-zero at " + ac.c.pos(at), false
		}
	case needOddPositive:
		odd, pos := oddAndPositive(facts, isM)
		if odd && pos {
			return true, "guarded odd and positive at " + ac.c.pos(at), false
		}
	}
	fn := at.Parent()
	here := fmt.Sprintf("%s (origin %s) is not guarded in %s", termDescr(mt), tn, core.FuncName(core.Outermost(fn)))
	// closure: captured variables are the enclosing function's values at the point the closure is made
	if fn.Parent() != nil {
		for _, b := range fn.Parent().Blocks {
			for _, in := range b.Instrs {
				mc, isMC := in.(*ssa.MakeClosure)
				if !isMC || mc.Fn != fn {
					continue
				}
				sub := substLeaves(mt, func(leaf *T) *T {
					if fv, isFV := leaf.V.(*ssa.FreeVar); isFV {
						for i, f := range fn.FreeVars {
							if f == fv {
								return core.TermAt(mc.Bindings[i], mc)
							}
						}
					}
					return nil
				})
				return ac.prove(sub, mc, need, depth)
			}
		}
		return false, here, false
	}
	if ac.c.t.Entry[fn] {
		return false, here + ", an exported verifier/decoder: its caller's value arrives unchecked", false
	}
	hasParam := false
	mt.Walk(func(t *T) {
		if p, isP := t.V.(*ssa.Parameter); isP && t.Op == "param" && p.Parent() == fn {
			hasParam = true
		}
	})
	if !hasParam || depth >= 4 {
		return false, here, false
	}
	sites := ac.callers[fn]
	if len(sites) == 0 {
		return true, "no call site of " + core.FuncName(fn) + " on the network path: its parameters are the application's", true
	}
	for _, cs := range sites {
		m := map[*ssa.Parameter]*T{}
		for i, p := range fn.Params {
			if i < len(cs.Common().Args) {
				m[p] = core.TermAt(unwrapModVal(cs.Common().Args[i]), cs)
			}
		}
		if ok, why, _ := ac.prove(mt.Subst(m), cs, need, depth+1); !ok {
			return false, why + " ← passed to " + core.FuncName(fn) + " at " + ac.c.pos(cs), false
		}
	}
	return true, fmt.Sprintf("guarded at each of the %d call sites of %s on the network path", len(sites), core.FuncName(fn)), false
}

func termDescr(t *T) string {
	if t.V != nil {
		return descr(t.V)
	}
	return t.Key()
}

// substLeaves rebuilds t with the leaves f maps replaced.
func substLeaves(t *T, f func(*T) *T) *T {
	if t == nil {
		return nil
	}
	if len(t.Args) == 0 {
		if r := f(t); r != nil {
			return r
		}
		return t
	}
	n := &core.Term{Op: t.Op, Name: t.Name, V: t.V}
	for _, a := range t.Args {
		n.Args = append(n.Args, substLeaves(a, f))
	}
	return n
}

// instrFacts: facts at the instruction's block plus, for closure bodies, nothing more (the closure
// case is handled by lifting to the MakeClosure).
func instrFacts(at ssa.Instruction) []core.TFact {
	return core.TFactsAt(at.Block(), 3)
}

func oddAndPositive(facts []core.TFact, isM M) (odd, pos bool) {
	for _, f := range facts {
		if f.Kind == core.FInt && f.X != nil && f.Y != nil {
			for _, pr := range [][2]*T{{f.X, f.Y}, {f.Y, f.X}} {
				if pr[0].Op == "call:Bit" && isM(pr[0].Args[0]) && core.IsZeroTerm(pr[0].Args[1]) {
					o := f.Ord
					if pr[0] == f.Y {
						o = o.Flip()
					}
					if constIs(pr[1], 0) && o&core.EQ == 0 {
						odd = true
					}
					if constIs(pr[1], 1) && o == core.EQ {
						odd = true
					}
				}
			}
		}
	}
	pos = core.PossibleSign(facts, isM)&(core.EQ|core.LT) == 0
	if !pos {
		// 0 <= x < m
		for _, f := range facts {
			if f.Kind == core.FCmp && f.X != nil && f.Y != nil {
				if isM(f.Y) && f.Ord == core.LT && core.PossibleSign(facts, core.KeyIs(f.X))&core.LT == 0 {
					pos = true
				}
				if isM(f.X) && f.Ord == core.GT && core.PossibleSign(facts, core.KeyIs(f.Y))&core.LT == 0 {
					pos = true
				}
			}
			if f.Kind == core.FInt && f.X != nil && f.Y != nil {
				for _, pr := range [][2]*T{{f.X, f.Y}, {f.Y, f.X}} {
					if pr[0].Op == "call:BitLen" && isM(pr[0].Args[0]) {
						if k, ok := core.TermInt(pr[1]); ok && k > 0 && f.Ord == core.EQ {
							pos = true // SetBytes-decoded integers are non-negative; BitLen = k > 0 excludes 0
						}
					}
				}
			}
		}
	}
	return
}
