package rules

import (
	"golang.org/x/tools/go/ssa"

	"tsscheck/internal/core"
)

// module-wide index of the stores into struct fields (built once per run by c06ctx.setup)
var c06FieldStores map[string][]*ssa.Store

func buildFieldStores(p *core.Prog) {
	c06FieldStores = map[string][]*ssa.Store{}
	for _, f := range p.ModuleFuncs(false) {
		for _, b := range f.Blocks {
			for _, in := range b.Instrs {
				if st, ok := in.(*ssa.Store); ok {
					if fr := core.AsFieldAddr(st.Addr); fr != nil {
						c06FieldStores[fr.String()] = append(c06FieldStores[fr.String()], st)
					}
				}
			}
		}
	}
}

func fieldStoreSites(fr *core.FieldRef) []*ssa.Store { return c06FieldStores[fr.String()] }

// phiNonZeroModQ: induction over a loop-carried accumulator (t = 1; t = t·k mod q): every incoming
// value is non-zero mod q on its edge, assuming the accumulator itself is.
func phiNonZeroModQ(ph *ssa.Phi, depth int) bool {
	m := phiAssumed // inside an induction already: keep its hypotheses
	if m == nil {
		m = map[*ssa.Phi]bool{}
	}
	return phiNZ(ph, depth, m)
}

var phiAssumed map[*ssa.Phi]bool

func phiNZ(ph *ssa.Phi, depth int, assumed map[*ssa.Phi]bool) bool {
	if assumed[ph] {
		return true
	}
	if depth > 6 {
		return false
	}
	assumed[ph] = true
	saved := phiAssumed
	phiAssumed = assumed
	defer func() { phiAssumed = saved }()
	for i, e := range ph.Edges {
		pred := ph.Block().Preds[i]
		e = core.Strip(e)
		if p2, ok := e.(*ssa.Phi); ok {
			if !phiNZ(p2, depth+1, assumed) {
				return false
			}
			continue
		}
		raw := core.FactsAt(pred)
		if iff, ok := pred.Instrs[len(pred.Instrs)-1].(*ssa.If); ok && pred.Succs[0] != pred.Succs[1] {
			raw = append(append([]core.Fact{}, raw...), core.CondFacts(iff.Cond, pred.Succs[0] == ph.Block(), iff)...)
		}
		at := pred.Instrs[len(pred.Instrs)-1]
		facts := core.ExpandFacts(raw, 3)
		// inside a private helper: what every call site established (the id handed in was tested there)
		facts = append(append([]core.TFact{}, facts...), core.CallerFacts(ph.Parent())...)
		if ok, _ := nonZeroModQ(e, at, facts, depth+1); !ok {
			return false
		}
	}
	return true
}
