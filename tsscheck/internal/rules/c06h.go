package rules

import (
	"fmt"
	"go/token"

	"golang.org/x/tools/go/ssa"

	"tsscheck/internal/core"
)

// scalarAtCallers lifts the R06.1 obligation of a helper (a prover constructor multiplying by its
// witness parameter) to the helper's call sites on the network path: the argument must be local
// (not peer-chosen), exempt (the frozen s_i), guarded non-zero there, or — when it is read from
// party state — every value stored in that field must satisfy the same. A helper with no call site
// on the network path takes the application's values.
func (c *c06ctx) scalarAtCallers(scalar ssa.Value, at ssa.Instruction, depth int) (bool, string) {
	if depth > 3 {
		return false, ""
	}
	p, ok := core.Strip(scalar).(*ssa.Parameter)
	if !ok {
		return false, ""
	}
	fn := p.Parent()
	if fn.Parent() != nil || c.t.Entry[fn] {
		return false, ""
	}
	idx := -1
	for i, q := range fn.Params {
		if q == p {
			idx = i
		}
	}
	var sites []ssa.CallInstruction
	for _, g := range c.scopeFuncs() {
		for _, cs := range core.Calls(g) {
			if core.Callee(cs) == fn {
				sites = append(sites, cs)
			}
		}
	}
	if len(sites) == 0 {
		return true, "no call site of " + core.FuncName(fn) + " on the network path: its parameters are the application's"
	}
	for _, cs := range sites {
		arg := cs.Common().Args[idx]
		if ok, _ := c.scalarValueOK(arg, cs, depth+1); !ok {
			return false, ""
		}
	}
	return true, fmt.Sprintf("discharged at each of the %d call sites of %s on the network path", len(sites), core.FuncName(fn))
}

// scalarValueOK: the value cannot be steered to 0 mod q by a peer at instruction `at`.
func (c *c06ctx) scalarValueOK(v ssa.Value, at ssa.Instruction, depth int) (bool, string) {
	if depth > 4 {
		return false, ""
	}
	if c.t.Of(v)&core.TWire == 0 {
		return true, "local"
	}
	top := core.Outermost(at.Parent())
	if isExemptSi(top, v) {
		return true, "frozen exemption s_i"
	}
	if ok, wit := nonZeroModQ(v, at, core.TFactsAt(at.Block(), 3), 0); ok {
		return true, wit
	}
	if ok, wit := c.scalarAtCallers(v, at, depth); ok {
		return true, wit
	}
	// read from party state: every store into that field
	if ld, isLd := core.Strip(v).(*ssa.UnOp); isLd && ld.Op == token.MUL {
		if fr := core.AsFieldAddr(ld.X); fr != nil {
			stores := fieldStoreSites(fr)
			if len(stores) == 0 {
				return false, ""
			}
			for _, st := range stores {
				if ok, _ := c.scalarValueOK(st.Val, st, depth+1); !ok {
					return false, ""
				}
			}
			return true, fmt.Sprintf("every one of the %d stores into %s stores a value a peer cannot steer to 0", len(stores), fr.String())
		}
	}
	return false, ""
}
