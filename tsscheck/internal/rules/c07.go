package rules

import (
	"fmt"
	"go/token"
	"go/types"
	"strings"

	"golang.org/x/tools/go/ssa"

	"tsscheck/internal/core"
)

func init() { Registry["C07"] = runC07 }

func runC07(p *core.Prog, r *core.Report) {
	c := &ctx{p, r}
	r.Explain = "Structural necessary conditions of delivery-order independence, decided on every path of the round engine and the six protocol packages: (R07.1) StoreMessage stores every recognised message under conditions that depend only on the message and its validation — never on the current round, started/ok flags or what is already stored — and its type switch covers every content type; (R07.2) message-array elements are written only by StoreMessage at the sender's index and by Start at the party's own index, never cleared; (R07.3) in tss.BaseUpdate every path after advance() either fails in the new round's Start or re-runs BaseUpdate with the same message after releasing the lock, and the not-proceed path returns (true,nil); (R07.4) every message-array element a round's Start reads was awaited by an earlier round's Update or stored by the party itself; (R07.5) exactly one send on the result channel per protocol, in the final round's Start; every Start is guarded by and sets `started`, only NextRound clears it, the final NextRound returns nil."
	r.Undec = "that all causally consistent schedules yield the same result and none deadlocks: the five conditions are necessary (each one's violation yields a schedule-dependent failure) but not sufficient."
	r.Assume = []string{"messages are delivered through Update/UpdateFromBytes only"}
	c07Engine(c)
	for _, rel := range protoRels {
		pr := ExtractProtocol(p, rel)
		for _, e := range pr.Errs {
			r.Unk("R07.0", core.Key("R07.0", rel, "model", e), rel, "protocol model extraction: "+e)
		}
		c07Store(c, pr)
		c07NoConsume(c, pr)
		c07ReadSet(c, pr)
		c07OneEmission(c, pr)
		// the awaited set of a round is what its Update requires before it sets a peer's flag (shared R08.2):
		// R07.4 compares a Start's reads with that set, so the set itself must be gated correctly
		c08Accept(c, pr)
	}
	r.Floor("R07.1", 12)
	r.Floor("R07.2", 50)
	r.Floor("R07.3", 5)
	r.Floor("R07.4", 50)
	r.Floor("R07.5", 70)
}

func c07Store(c *ctx, pr *Protocol) {
	const rule = "R07.1"
	sm := pr.PartyFns["StoreMessage"]
	if sm == nil {
		c.r.Unk(rule, core.Key(rule, pr.Rel, "StoreMessage", "anchor"), pr.Rel, "StoreMessage not found")
		return
	}
	// exhaustiveness
	missing := ""
	for _, ct := range pr.Contents {
		if pr.StoreTab[ct.Name] == "" {
			missing += ct.Name + " "
		}
	}
	c.r.Check(missing == "", rule, fkey(rule, sm, "covers-every-content-type"), c.fpos(sm), fmt.Sprintf("the type switch stores all %d content types", len(pr.Contents)), "content types never stored (early arrivals of these are dropped): "+missing)
	// conditions controlling the stores
	bad := ""
	n := 0
	for _, as := range messageArrayStores(pr, sm) {
		{
			ia := as.IA
			n++
			// the conditions under which the store itself executes (not only those selecting the slot)
			for _, f := range core.FactsAt(as.Store.Block()) {
				if f.If == nil {
					continue
				}
				if why := condReadsPartyState(sm, f.If.Cond, pr); why != "" {
					bad += fmt.Sprintf("the store into %s is conditional on %s (at %s); ", core.LastFields(ia.X, 1), why, c.pos(f.If))
				}
			}
		}
	}
	// also: no early return before the switch that depends on party state
	for _, b := range sm.Blocks {
		if len(b.Instrs) == 0 {
			continue
		}
		if iff, ok := b.Instrs[len(b.Instrs)-1].(*ssa.If); ok {
			if why := condReadsPartyState(sm, iff.Cond, pr); why != "" && !strings.Contains(bad, c.pos(iff)) {
				bad += fmt.Sprintf("StoreMessage branches on %s (at %s); ", why, c.pos(iff))
			}
		}
	}
	c.r.Check(bad == "" && n > 0, rule, fkey(rule, sm, "store-regardless-of-round"), c.fpos(sm), fmt.Sprintf("%d stores depend only on the message, its validation and its content type", n), "messages are not stored unconditionally: "+bad+"a message that arrives before the party reaches the corresponding state is lost or shadowed")
}

// condReadsPartyState: the branch condition depends on something other than the message
// parameter, the party's ValidateMessage result and type assertions.
func condReadsPartyState(fn *ssa.Function, cond ssa.Value, pr *Protocol) string {
	why := ""
	seen := map[ssa.Value]bool{}
	var walk func(v ssa.Value, d int)
	walk = func(v ssa.Value, d int) {
		if v == nil || seen[v] || d > 20 || why != "" {
			return
		}
		seen[v] = true
		v = core.Strip(v)
		switch x := v.(type) {
		case *ssa.Parameter, *ssa.Const:
			return
		case *ssa.Call:
			n := core.CalleeName(x)
			switch {
			case strings.HasSuffix(n, ".ValidateMessage"), strings.HasSuffix(n, ".Content"), strings.HasSuffix(n, ".GetFrom"), strings.HasSuffix(n, ".ValidateBasic"):
				return
			case strings.HasPrefix(n, "builtin:"):
			default:
				// a private helper that classifies the message (picks the slot for its content type): its
				// boolean verdicts are constants or depend on its arguments only
				if h := core.Callee(x); core.PrivateHelper(h) && !x.Call.IsInvoke() && d < 6 {
					okH := true
					for _, ret := range core.Returns(h) {
						for _, res := range ret.Results {
							if b, isB := res.Type().Underlying().(*types.Basic); !isB || b.Kind() != types.Bool {
								continue
							}
							if _, isK := core.ConstBool(core.Strip(res)); isK {
								continue
							}
							if condReadsPartyState(h, res, pr) != "" {
								okH = false
							}
						}
					}
					if okH {
						for _, a := range x.Call.Args[1:] {
							walk(a, d+1)
						}
						return
					}
				}
				why = "a call to " + core.CalleeShort(x)
				return
			}
			for _, a := range x.Call.Args {
				walk(a, d+1)
			}
			return
		case *ssa.UnOp:
			if x.Op == token.MUL {
				if fr := core.AsFieldAddr(x.X); fr != nil {
					why = "party state " + fr.String()
					return
				}
				if ia, ok := x.X.(*ssa.IndexAddr); ok {
					why = "an element of " + descr(ia.X)
					return
				}
			}
		case *ssa.Field:
			if fr := core.AsFieldLoad(x); fr != nil && fr.Name != "Index" {
				why = "state " + fr.String()
				return
			}
		}
		if in, ok := v.(ssa.Instruction); ok {
			for _, op := range in.Operands(nil) {
				if *op != nil {
					walk(*op, d+1)
				}
			}
		}
	}
	walk(cond, 0)
	return why
}

func c07NoConsume(c *ctx, pr *Protocol) {
	const rule = "R07.2"
	sm := pr.PartyFns["StoreMessage"]
	for _, fn := range c.p.FuncsOfPkg(pr.Rel) {
		for _, b := range fn.Blocks {
			for _, in := range b.Instrs {
				// (a) element stores
				if st, ok := in.(*ssa.Store); ok {
					if ia, ok := st.Addr.(*ssa.IndexAddr); ok {
						arr := core.LastFields(ia.X, 1)
						if !contains(pr.Arrays, arr) {
							continue
						}
						key := fkey(rule, core.Outermost(fn), "write:"+arr)
						top := core.Outermost(fn)
						switch {
						case top == sm:
							c.r.Check(descr(ia.Index) == "param:msg.GetFrom().Index" && core.Strip(st.Val) == ssa.Value(sm.Params[1]), rule, key, c.pos(st), "StoreMessage writes the message at its sender's index", "StoreMessage writes "+descr(st.Val)+" at index "+descr(ia.Index))
						case isRoundStart(pr, top):
							cls := indexClass(ia.Index)
							selfOK := cls == "self"
							if cls == "peer" {
								// allowed under a dominating j == i
								for _, f := range core.FactsAt(b) {
									if f.Kind == core.FInt && f.Ord == core.EQ && ((core.Strip(f.X) == core.Strip(ia.Index) && isSelfIndex(f.Y)) || (core.Strip(f.Y) == core.Strip(ia.Index) && isSelfIndex(f.X))) {
										selfOK = true
									}
								}
							}
							nonNil := !core.IsNilConst(core.Strip(st.Val))
							c.r.Check(selfOK && nonNil, rule, key, c.pos(st), "Start stores its own message at the party's own index", fmt.Sprintf("a round writes message slot %s[%s] (value %s): only the party's own slot may be written outside StoreMessage, and never with nil", arr, descr(ia.Index), descr(st.Val)))
						default:
							c.r.Bad(rule, key, c.pos(st), "message slot "+arr+" is written outside StoreMessage and round Start")
						}
					}
					// (b) whole-array replacement outside the constructor
					if fa := core.AsFieldAddr(st.Addr); fa != nil && contains(pr.Arrays, fa.Name) {
						top := core.Outermost(fn)
						key := fkey(rule, top, "replace:"+fa.Name)
						isCtor := strings.HasPrefix(top.Name(), "NewLocalParty")
						c.r.Check(isCtor, rule, key, c.pos(st), "message arrays are allocated once, in the party constructor", "message array "+fa.Name+" is replaced after construction: stored messages are discarded")
					}
				}
			}
		}
	}
}

// isRoundStart: fn is the Start of a round, or a private helper that Start calls synchronously.
func isRoundStart(pr *Protocol, fn *ssa.Function) bool {
	for _, r := range pr.Rounds {
		if r.Fns["Start"] == fn {
			return true
		}
		if st := r.Fns["Start"]; st != nil && core.PrivateHelper(fn) && syncUnit(st)[fn] {
			return true
		}
	}
	return false
}

func c07ReadSet(c *ctx, pr *Protocol) {
	const rule = "R07.4"
	awaited := map[string]bool{} // arrays scanned by the Update of an earlier round
	for ri, r := range pr.Rounds {
		st := r.Fns["Start"]
		if st != nil && ri > 0 {
			for _, g := range unitFuncs(st) {
				for _, b := range g.Blocks {
					for _, in := range b.Instrs {
						u, ok := in.(*ssa.UnOp)
						if !ok || u.Op != token.MUL {
							continue
						}
						ia, ok := u.X.(*ssa.IndexAddr)
						if !ok {
							continue
						}
						arr := core.LastFields(ia.X, 1)
						if !contains(pr.Arrays, arr) {
							continue
						}
						key := core.Key(rule, pr.Rel, r.Name+".Start", "read:"+arr+"["+descrIdx(ia.Index)+"]")
						cls := indexClass(ia.Index)
						if cls == "self" || selfStoredBefore(st, arr, u) {
							if selfStored(pr, ri, arr) {
								c.r.OK(rule, key, c.pos(u), "own slot, stored by this party's Start in this or an earlier round")
								continue
							}
						}
						c.r.Check(awaited[arr], rule, key, c.pos(u), "array awaited by the Update of an earlier round", "round reads "+arr+"["+descrIdx(ia.Index)+"] but no earlier round waits for that message kind: under some arrival orders the element is still nil when the round starts")
					}
				}
			}
			// range loops over a whole array
			for _, arr := range r.StartRead {
				key := core.Key(rule, pr.Rel, r.Name+".Start", "reads:"+arr)
				ok := awaited[arr] || selfStored(pr, ri, arr)
				c.r.Check(ok, rule, key, c.fpos(st), "array awaited earlier or self-stored", "Start reads "+arr+" which no earlier round awaited")
			}
		}
		for _, a := range r.Scans {
			awaited[a] = true
		}
	}
}

func descrIdx(v ssa.Value) string {
	if c := indexClass(v); c != "" {
		return c
	}
	return descr(v)
}

// selfStored: some Start of round ≤ ri stores into arr at the party's own index.
func selfStored(pr *Protocol, ri int, arr string) bool {
	for i := 0; i <= ri && i < len(pr.Rounds); i++ {
		st := pr.Rounds[i].Fns["Start"]
		if st == nil {
			continue
		}
		for g := range syncUnit(st) {
			for _, b := range g.Blocks {
				for _, in := range b.Instrs {
					if s, ok := in.(*ssa.Store); ok {
						if ia, ok := s.Addr.(*ssa.IndexAddr); ok && core.LastFields(ia.X, 1) == arr {
							return true
						}
					}
				}
			}
		}
	}
	return false
}

func selfStoredBefore(st *ssa.Function, arr string, read ssa.Instruction) bool {
	for _, b := range read.Parent().Blocks {
		for _, in := range b.Instrs {
			if s, ok := in.(*ssa.Store); ok {
				if ia, ok := s.Addr.(*ssa.IndexAddr); ok && core.LastFields(ia.X, 1) == arr && s.Parent() == read.Parent() && core.InstrDominates(s, read) {
					return true
				}
			}
		}
	}
	return false
}

func c07OneEmission(c *ctx, pr *Protocol) {
	const rule = "R07.5"
	// sends on the `end` channel
	nEnd := 0
	for _, fn := range c.p.FuncsOfPkg(pr.Rel) {
		for _, b := range fn.Blocks {
			for _, in := range b.Instrs {
				snd, ok := in.(*ssa.Send)
				if !ok {
					continue
				}
				fr := core.AsFieldLoad(snd.Chan)
				if fr == nil || fr.Name != "end" {
					continue
				}
				nEnd++
				top := core.Outermost(fn)
				final := pr.Rounds[len(pr.Rounds)-1]
				key := fkey(rule, top, "result-emission")
				inLoop := false
				for _, l := range loopsOf(fn) {
					if l.In[b] {
						inLoop = true
					}
				}
				c.r.Check(final.Final && top == final.Fns["Start"] && fn == top && !inLoop, rule, key, c.pos(snd), "the result is sent once, by the final round's Start", "the result channel is written outside the final round's Start (or in a loop): a party can emit more than once or before the protocol is complete")
			}
		}
	}
	c.r.Check(nEnd == 1, rule, core.Key(rule, pr.Rel, "-", "single-emission-site"), pr.Rel, "exactly one send on the result channel", fmt.Sprintf("%d sends on the result channel", nEnd))
	// started discipline
	for ri, r := range pr.Rounds {
		st := r.Fns["Start"]
		if st == nil {
			continue
		}
		key := core.Key(rule, pr.Rel, r.Name+".Start", "started-guard")
		// first branch: if round.started → error return; then started = true before any send/store effect
		var setStarted *ssa.Store
		for _, b := range st.Blocks {
			for _, in := range b.Instrs {
				if s, ok := in.(*ssa.Store); ok {
					if fa := core.AsFieldAddr(s.Addr); fa != nil && fa.Name == "started" {
						if v, isC := core.ConstBool(core.Strip(s.Val)); isC && v {
							setStarted = s
						}
					}
				}
			}
		}
		ok := setStarted != nil
		why := "Start never sets started"
		if ok {
			// guard: the set is dominated by the started==false edge
			guarded := false
			for _, f := range core.FactsAt(setStarted.Block()) {
				if f.Kind == core.FBool && !f.Bool {
					if fr := core.AsFieldLoad(f.X); fr != nil && fr.Name == "started" {
						guarded = true
					}
				}
			}
			if !guarded {
				ok, why = false, "Start does not refuse to run twice (no `if started` guard before its effects)"
			}
			for _, s := range r.Sends {
				if s.Send.Parent() == st && !core.InstrDominates(setStarted, s.Send) {
					ok, why = false, "a message is sent before started is set"
				}
			}
		}
		c.r.Check(ok, rule, key, c.fpos(st), "Start refuses to run twice and sets started before any effect", why)
		// NextRound clears started (non-final) / returns nil (final)
		nr := r.Fns["NextRound"]
		k2 := core.Key(rule, pr.Rel, r.Name+".NextRound", "lifecycle")
		if nr == nil {
			c.r.Unk(rule, k2, pr.Rel, "NextRound not found")
			continue
		}
		if ri == len(pr.Rounds)-1 {
			c.r.Check(r.Final, rule, k2, c.fpos(nr), "the final round's NextRound returns nil", "the last round in the chain does not end the protocol")
		} else {
			clears := false
			for _, b := range nr.Blocks {
				for _, in := range b.Instrs {
					if s, ok := in.(*ssa.Store); ok {
						if fa := core.AsFieldAddr(s.Addr); fa != nil && fa.Name == "started" {
							if v, isC := core.ConstBool(core.Strip(s.Val)); isC && !v {
								clears = true
							}
						}
					}
				}
			}
			c.r.Check(clears && r.Next == pr.Rounds[ri+1].Name, rule, k2, c.fpos(nr), "NextRound clears started and returns the next round wrapping this one", "NextRound does not clear started (the next Start would refuse to run) or skips a round")
		}
	}
	// nobody else clears started
	for _, fn := range c.p.FuncsOfPkg(pr.Rel) {
		if strings.HasSuffix(fn.Name(), "NextRound") {
			continue
		}
		for _, b := range fn.Blocks {
			for _, in := range b.Instrs {
				if s, ok := in.(*ssa.Store); ok {
					if fa := core.AsFieldAddr(s.Addr); fa != nil && fa.Name == "started" {
						if _, fresh := core.Strip(fa.Base).(*ssa.Alloc); fresh {
							continue // initialising a round object that is being constructed
						}
						if v, isC := core.ConstBool(core.Strip(s.Val)); isC && !v {
							c.r.Bad(rule, fkey(rule, core.Outermost(fn), "clears-started"), c.pos(s), "started is cleared outside NextRound: a round can be started twice")
						}
					}
				}
			}
		}
	}
}

// partyLockEvent: +1 for p.lock(), −1 for p.unlock() or a direct call of a closure that unlocks.
func partyLockEvent(in ssa.Instruction) int {
	cs, ok := in.(ssa.CallInstruction)
	if !ok {
		return 0
	}
	if m := core.InvokeMethod(cs); m != nil && m.Pkg() != nil && strings.HasSuffix(m.Pkg().Path(), "/tss") {
		switch m.Name() {
		case "lock":
			return 1
		case "unlock":
			return -1
		}
	}
	n := core.CalleeName(cs)
	if strings.HasSuffix(n, "tss.BaseParty).lock") {
		return 1
	}
	if strings.HasSuffix(n, "tss.BaseParty).unlock") {
		return -1
	}
	if g := core.Callee(cs); g != nil && g.Parent() != nil {
		// closure: unlocks if every path through it unlocks exactly once
		n := 0
		for _, c2 := range core.Calls(g) {
			if partyLockEvent(c2) < 0 {
				n++
			}
		}
		if n == 1 {
			return -1
		}
	}
	// a private helper of the engine (unlockAndReturn(p, ok, err)): its net effect on the lock of the party
	// it is handed, when every path through it has the same effect
	if g := core.Callee(cs); core.PrivateHelper(g) && !cs.Common().IsInvoke() && !lockEffectBusy[g] {
		lockEffectBusy[g] = true
		defer delete(lockEffectBusy, g)
		effect := func(entry core.LockState, want core.LockState) bool {
			ls := core.LockStates(g, partyLockEvent, entry)
			n := 0
			for _, ret := range core.Returns(g) {
				if ls[ret] != want {
					return false
				}
				n++
			}
			return n > 0
		}
		// the party (un)locked inside is a parameter of the helper fed with a parameter of the caller
		sameParty := false
		for _, c2 := range core.Calls(g) {
			if partyLockEvent(c2) != 0 {
				recv := core.Strip(c2.Common().Value)
				if !c2.Common().IsInvoke() && len(c2.Common().Args) > 0 {
					recv = core.Strip(c2.Common().Args[0])
				}
				if hp, isP := recv.(*ssa.Parameter); isP {
					for k, q := range g.Params {
						if q == hp && k < len(cs.Common().Args) {
							if _, isCP := core.Strip(cs.Common().Args[k]).(*ssa.Parameter); isCP {
								sameParty = true
							}
						}
					}
				}
			}
		}
		if sameParty {
			if effect(core.LsLocked, core.LsUnlocked) {
				return -1
			}
			if effect(core.LsUnlocked, core.LsLocked) {
				return 1
			}
		}
	}
	return 0
}

var lockEffectBusy = map[*ssa.Function]bool{}

func c07Engine(c *ctx) {
	const rule = "R07.3"
	fn := c.mustFunc(rule, "tss", "BaseUpdate")
	if fn == nil {
		return
	}
	var advance, start ssa.CallInstruction
	var recur *ssa.Call
	for _, cs := range core.Calls(fn) {
		if m := core.InvokeMethod(cs); m != nil {
			switch m.Name() {
			case "advance":
				advance = cs
			case "Start":
				start = cs
			default:
				// the round-advancing method under another name: BaseParty's implementation replaces the
				// current round by its NextRound()
				if impl := c.p.Method("tss", "BaseParty", m.Name()); impl != nil && impl.Blocks != nil && m.Type().(*types.Signature).Params().Len() == 0 && m.Type().(*types.Signature).Results().Len() == 0 {
					callsNext, storesRound := false, false
					for _, c2 := range core.Calls(impl) {
						if mm := core.InvokeMethod(c2); mm != nil && mm.Name() == "NextRound" {
							callsNext = true
						}
					}
					for _, b := range impl.Blocks {
						for _, in := range b.Instrs {
							if st, ok := in.(*ssa.Store); ok {
								if fr := core.AsFieldAddr(st.Addr); fr != nil && fr.Name == "rnd" {
									storesRound = true
								}
							}
						}
					}
					if callsNext && storesRound {
						advance = cs
					}
				}
			}
		}
		if call, ok := cs.(*ssa.Call); ok && core.Callee(cs) == fn {
			recur = call
		}
	}
	if advance == nil || recur == nil || start == nil {
		c.r.Bad(rule, fkey(rule, fn, "advance-start-rerun"), c.fpos(fn), fmt.Sprintf("engine shape not found: advance=%v start=%v recursion=%v — after advancing, the stored messages of the new round would not be examined until another delivery", advance != nil, start != nil, recur != nil))
		return
	}
	// the recursion passes the same party, message and task
	same := true
	for i, a := range recur.Call.Args {
		if core.TermOf(a).Key() != paramTerm(fn, i).Key() {
			same = false
		}
	}
	c.r.Check(same, rule, fkey(rule, fn, "rerun-same-message"), c.pos(recur), "BaseUpdate re-runs itself with the same party and message", "the re-run does not pass the same party/message")
	// advance is guarded by CanProceed() == true
	okCP := false
	for _, f := range core.FactsAt(advance.Block()) {
		if f.Kind == core.FCall && f.Bool {
			if m := core.InvokeMethod(f.X.(*ssa.Call)); m != nil && m.Name() == "CanProceed" {
				okCP = true
			}
		}
	}
	c.r.Check(okCP, rule, fkey(rule, fn, "advance-after-CanProceed"), c.pos(advance), "advance() only on the true edge of CanProceed()", "advance() is not guarded by CanProceed()")
	// every return reachable from advance is the recursion's result or a Start failure
	bad := ""
	for _, ret := range core.Returns(fn) {
		if !core.InstrReaches(advance, ret) {
			continue
		}
		fromRecur := true
		for _, res := range ret.Results {
			if ex, ok := core.Strip(res).(*ssa.Extract); !ok || ex.Tuple != ssa.Value(recur) {
				fromRecur = false
			}
		}
		if fromRecur {
			continue
		}
		// Start failure: facts include a non-nil result of Start
		failed := false
		for _, f := range core.FactsAt(ret.Block()) {
			if f.Kind == core.FNil && !f.Bool && core.Strip(f.X) == start.Value() {
				failed = true
			}
		}
		if !failed {
			bad += "the return at " + c.pos(ret) + " follows advance() without re-running the update; "
		}
	}
	c.r.Check(bad == "" && core.InstrDominates(advance, recur) && core.InstrDominates(advance, start), rule, fkey(rule, fn, "advance-start-rerun"), c.pos(advance),
		"after advance(): Start of the new round, then BaseUpdate again (or the Start error)", bad+"early-arrived messages of the new round are not processed until another delivery")
	// lock released before the recursion, held at advance/Start, released at every return
	ls := core.LockStates(fn, partyLockEvent, core.LsUnlocked)
	c.r.Check(ls[recur] == core.LsUnlocked, rule, fkey(rule, fn, "unlock-before-rerun"), c.pos(recur), "the (non re-entrant) lock is released before the recursive call", "lock state at the recursive call is "+ls[recur].String()+": the mutex is not re-entrant")
	okRet := true
	why := ""
	for _, ret := range core.Returns(fn) {
		if s := ls[ret]; s != core.LsUnlocked {
			okRet = false
			why += fmt.Sprintf("return at %s with lock %s; ", c.pos(ret), s)
		}
	}
	c.r.Check(okRet, rule, fkey(rule, fn, "unlock-on-every-return"), c.fpos(fn), "every return leaves the lock released", why)
}
