package rules

import (
	"fmt"
	"go/token"
	"go/types"
	"sort"
	"strings"

	"golang.org/x/tools/go/ssa"

	"tsscheck/internal/core"
)

func init() { Registry["C08"] = runC08 }

func runC08(p *core.Prog, r *core.Report) {
	c := &ctx{p, r}
	r.Explain = "Agreement of the tables extracted from the six protocol packages (constructors, StoreMessage, CanAccept, Update, Start, WaitingFor; printed under coverage.tables): (R08.1) for every message type the constructor's IsBroadcast constant equals the flag its accepting round demands, it is stored in exactly one array by sender index, that array is scanned by exactly the accepting round, and the set of types a round sends equals the set it accepts; (R08.2) every CanAccept branch returns exactly IsBroadcast() or its negation, and every ok[j]=true in an Update is dominated — under every committee role that can reach it — by element j of each required array being non-nil and accepted, with the ok array of the sender's committee; (R08.3) constructors carrying per-recipient secrets (vss share, MtA ciphertexts/proofs, factorisation proof) are point-to-point to exactly one recipient and their call sites address the loop peer with that peer's payload; (R08.4) no constructor argument is a direct copy of a long-term secret; (R08.5) WaitingFor lists Ps[j] exactly for ok[j]==false over the whole array, every Update loop visits every j (no early exit other than an error), every Start resets the ok arrays first; (R08.6) each send executes once per recipient."
	r.Undec = "byte-level wire round-trip equality (protobuf runtime) and absence of derived secret leakage (information flow through arithmetic needs the protocol's security proof as declassification policy)."
	r.Assume = []string{"the transport delivers a message with the broadcast flag its routing carries"}
	for _, rel := range protoRels {
		pr := ExtractProtocol(p, rel)
		r.Tables[rel] = pr.Table()
		for _, e := range pr.Errs {
			r.Unk("R08.0", core.Key("R08.0", rel, "model", e), rel, "protocol model extraction: "+e)
		}
		c08Views(c, pr)
		c08Accept(c, pr)
		c08Secrets(c, pr)
		c08NoSecretArgs(c, pr)
		c08Waiting(c, pr)
		c08Once(c, pr)
	}
	r.Floor("R08.1", 32*4)
	r.Floor("R08.2", 32+25)
	r.Floor("R08.3", 9)
	r.Floor("R08.5", 6+25+28)
	r.Floor("R08.6", 32)
	c08RoutingAgreement(c)
}

func isResharing(pr *Protocol) bool { return strings.HasSuffix(pr.Rel, "resharing") }

func (pr *Protocol) acceptingRounds(content string) []*Round {
	var out []*Round
	for _, r := range pr.Rounds {
		for _, a := range r.Accepts {
			if a.Content == content {
				out = append(out, r)
			}
		}
	}
	return out
}

func c08Views(c *ctx, pr *Protocol) {
	const rule = "R08.1"
	for _, ct := range pr.Contents {
		k := func(s string) string { return core.Key(rule, pr.Rel, ct.Name, s) }
		pos := pr.Rel + "/messages.go"
		if ct.Ctor == nil || ct.Ctor.IsBroadcast == nil {
			c.r.Bad(rule, k("constructor"), pos, "no constructor with a constant IsBroadcast routing flag found for this message type")
			continue
		}
		pos = c.fpos(ct.Ctor.Fn)
		b := *ct.Ctor.IsBroadcast
		// (b) one accepting round with the matching flag
		ars := pr.acceptingRounds(ct.Name)
		want := "!IsBroadcast"
		if b {
			want = "IsBroadcast"
		}
		okAcc := len(ars) == 1
		got := ""
		if okAcc {
			for _, a := range ars[0].Accepts {
				if a.Content == ct.Name {
					got = a.Broadcast
				}
			}
			okAcc = got == want
		}
		c.r.Check(okAcc, rule, k("flag-agreement"), pos, fmt.Sprintf("constructor sets IsBroadcast=%v; %s accepts it only when %s", b, roundNames(ars), want),
			fmt.Sprintf("constructor sets IsBroadcast=%v but accepting rounds %s require %q: the message can never (or wrongly) advance a round", b, roundNames(ars), got))
		// (c) stored in exactly one array by sender index
		arr := pr.StoreTab[ct.Name]
		okSt := arr != "" && pr.StoreIdx[ct.Name] == "param:msg.GetFrom().Index"
		for other, a2 := range pr.StoreTab {
			if other != ct.Name && a2 == arr {
				okSt = false
			}
		}
		c.r.Check(okSt, rule, k("stored-by-sender-index"), pos, "stored in "+arr+"[msg.GetFrom().Index], an array no other type shares", fmt.Sprintf("stored in %q at index %q (expected a dedicated array at the sender's index)", arr, pr.StoreIdx[ct.Name]))
		// (d) scanned by exactly the accepting round
		var scanners []string
		for _, r := range pr.Rounds {
			if contains(r.Scans, arr) {
				scanners = append(scanners, r.Name)
			}
		}
		okScan := len(ars) == 1 && len(scanners) == 1 && scanners[0] == ars[0].Name
		c.r.Check(okScan, rule, k("scanned-by-accepting-round"), pos, "array "+arr+" is scanned by "+strings.Join(scanners, ",")+" which accepts the type", fmt.Sprintf("array %s is scanned by Update of %v but the type is accepted by %s", arr, scanners, roundNames(ars)))
		// (e) sent by the round that accepts it
		var senders []string
		for _, r := range pr.Rounds {
			for _, s := range r.Sends {
				if s.Ctor != nil && s.Ctor.Content == ct.Name && !contains(senders, r.Name) {
					senders = append(senders, r.Name)
				}
			}
		}
		okSend := len(ars) == 1 && len(senders) == 1 && senders[0] == ars[0].Name
		c.r.Check(okSend, rule, k("sent-by-accepting-round"), pos, "sent by Start of "+strings.Join(senders, ",")+", the round that waits for it", fmt.Sprintf("sent by %v but awaited by %s", senders, roundNames(ars)))
	}
	// sends of unknown constructors
	for _, r := range pr.Rounds {
		for _, s := range r.Sends {
			if s.Ctor == nil {
				c.r.Unk(rule, core.Key(rule, pr.Rel, r.Name, "send:unknown-constructor"), c.pos(s.Send), "a value sent on the out channel is not the result of a recognised message constructor")
			}
		}
	}
}

func roundNames(rs []*Round) string {
	var ns []string
	for _, r := range rs {
		ns = append(ns, r.Name)
	}
	return "[" + strings.Join(ns, ",") + "]"
}

// recipients of a content type in resharing, from the routing flags of its constructor.
func recipients(ct *Ctor) map[string]bool {
	switch {
	case ct.Flags["IsToOldAndNewCommittees"] == "true":
		return map[string]bool{"oldOnly": true, "newOnly": true, "both": true}
	case ct.Flags["IsToOldCommittee"] == "true":
		return map[string]bool{"oldOnly": true, "both": true}
	}
	return map[string]bool{"newOnly": true, "both": true}
}

// roleEdges: edges of fn contradicting the given committee role.
func roleEdges(fn *ssa.Function, role string) map[core.CFGEdge]bool {
	if role == "all" {
		return nil
	}
	isOld := role == "oldOnly" || role == "both"
	isNew := role == "newOnly" || role == "both"
	out := roleEdgesByFacts(fn, isOld, isNew)
	// conditions that are a value (`case a && b:` materialises the conjunction as a phi): evaluate them
	// under the role and remove the branch that cannot be taken
	for _, b := range fn.Blocks {
		if len(b.Instrs) == 0 {
			continue
		}
		iff, ok := b.Instrs[len(b.Instrs)-1].(*ssa.If)
		if !ok {
			continue
		}
		if v, known := evalUnderRole(iff.Cond, isOld, isNew, 0); known {
			if v {
				out[core.CFGEdge{B: b, SI: 1}] = true
			} else {
				out[core.CFGEdge{B: b, SI: 0}] = true
			}
		}
	}
	return out
}

// evalUnderRole: the value of a boolean built from IsOldCommittee()/IsNewCommittee(), !, and
// short-circuit && / || (as branches or as the phi go/ssa materialises) for a party of the given role.
func evalUnderRole(v ssa.Value, isOld, isNew bool, d int) (val, known bool) {
	if d > 6 {
		return false, false
	}
	v = core.Strip(v)
	switch x := v.(type) {
	case *ssa.Const:
		if b, ok := core.ConstBool(x); ok {
			return b, true
		}
	case *ssa.Call:
		n := core.CalleeName(x)
		if strings.HasSuffix(n, "ReSharingParameters).IsOldCommittee") {
			return isOld, true
		}
		if strings.HasSuffix(n, "ReSharingParameters).IsNewCommittee") {
			return isNew, true
		}
	case *ssa.UnOp:
		if x.Op == token.NOT {
			if b, ok := evalUnderRole(x.X, isOld, isNew, d+1); ok {
				return !b, true
			}
		}
	case *ssa.Phi:
		// phi [p1: false, p2: false, pk: X] is c1 && c2 && … && X with ci the branch condition that
		// left pi early; with `true` constants it is the disjunction
		var consts []bool
		var last ssa.Value
		var conds []ssa.Value
		for i, e := range x.Edges {
			if b, ok := core.ConstBool(core.Strip(e)); ok {
				consts = append(consts, b)
				pred := x.Block().Preds[i]
				iff, isIf := pred.Instrs[len(pred.Instrs)-1].(*ssa.If)
				if !isIf {
					return false, false
				}
				conds = append(conds, iff.Cond)
			} else {
				if last != nil {
					return false, false
				}
				last = e
			}
		}
		if last == nil || len(consts) == 0 {
			return false, false
		}
		for _, b := range consts[1:] {
			if b != consts[0] {
				return false, false
			}
		}
		isAnd := !consts[0]
		allKnown := true
		for _, cnd := range append(conds, last) {
			b, ok := evalUnderRole(cnd, isOld, isNew, d+1)
			if !ok {
				allKnown = false
				continue
			}
			if isAnd && !b {
				return false, true
			}
			if !isAnd && b {
				return true, true
			}
		}
		if allKnown {
			return isAnd, true
		}
	}
	return false, false
}

func roleEdgesByFacts(fn *ssa.Function, isOld, isNew bool) map[core.CFGEdge]bool {
	return core.EdgesWhere(fn, func(f core.Fact) bool {
		if f.Kind != core.FCall {
			return false
		}
		n := core.CalleeName(f.X.(*ssa.Call))
		if strings.HasSuffix(n, "ReSharingParameters).IsOldCommittee") {
			return f.Bool != isOld
		}
		if strings.HasSuffix(n, "ReSharingParameters).IsNewCommittee") {
			return f.Bool != isNew
		}
		return false
	})
}

// senderCommittee: "old"/"new"/"" — under which committee predicate the type is sent.
func senderCommittee(pr *Protocol, content string) string {
	for _, r := range pr.Rounds {
		for _, s := range r.Sends {
			if s.Ctor == nil || s.Ctor.Content != content {
				continue
			}
			// where the send happens in the round step (the send, or the call of the helper that holds it)
			var at ssa.Instruction = s.Send
			if s.At != nil {
				at = s.At
			}
			fn := at.Parent()
			for _, role := range []string{"oldOnly", "newOnly"} {
				if _, ok := core.FactsAtPruned(at.Block(), roleEdges(fn, role)); !ok {
					// unreachable for this role → sent by the other committee
					if role == "oldOnly" {
						return "new"
					}
					return "old"
				}
			}
		}
	}
	return ""
}

// okStore: a store of constant `val` into element idx of an ok-array field.
type okStore struct {
	st    *ssa.Store
	array string
	idx   ssa.Value
	val   bool
}

func okStores(fn *ssa.Function) []okStore {
	var out []okStore
	for _, b := range fn.Blocks {
		for _, in := range b.Instrs {
			st, ok := in.(*ssa.Store)
			if !ok {
				continue
			}
			ia, ok := st.Addr.(*ssa.IndexAddr)
			if !ok {
				continue
			}
			sl, ok := ia.X.Type().Underlying().(*types.Slice)
			if !ok {
				continue
			}
			if bt, ok := sl.Elem().Underlying().(*types.Basic); !ok || bt.Kind() != types.Bool {
				continue
			}
			name := core.LastFields(ia.X, 1)
			if name == "" {
				continue
			}
			v, isC := core.ConstBool(core.Strip(st.Val))
			if !isC {
				out = append(out, okStore{st, name, ia.Index, true}) // non-constant: treat as possibly true
				continue
			}
			out = append(out, okStore{st, name, ia.Index, v})
		}
	}
	return out
}

// elemOfArray: v is element idx of message array → (array name, index value)
func elemOfArray(v ssa.Value) (string, ssa.Value) {
	v = core.Strip(v)
	u, ok := v.(*ssa.UnOp)
	if !ok || u.Op != token.MUL {
		return "", nil
	}
	ia, ok := u.X.(*ssa.IndexAddr)
	if !ok {
		return "", nil
	}
	return core.LastFields(ia.X, 1), ia.Index
}

func c08Accept(c *ctx, pr *Protocol) {
	const rule = "R08.2"
	for _, r := range pr.Rounds {
		// CanAccept returns exactly the channel-kind predicate
		for _, a := range r.Accepts {
			key := core.Key(rule, pr.Rel, r.Name, "CanAccept:"+a.Content)
			ok := a.Content != "" && (a.Broadcast == "IsBroadcast" || a.Broadcast == "!IsBroadcast")
			c.r.Check(ok, rule, key, c.fpos(r.Fns["CanAccept"]), "returns "+a.Broadcast+" for "+a.Content, fmt.Sprintf("CanAccept returns %q for content %q: it must return exactly msg.IsBroadcast() or its negation under a content-type test", a.Broadcast, a.Content))
		}
		up := r.Fns["Update"]
		if up == nil || len(r.Accepts) == 0 {
			continue
		}
		roles := []string{"all"}
		if isResharing(pr) {
			roles = []string{"oldOnly", "newOnly", "both"}
		}
		stores := okStores(up)
		nTrue := 0
		for _, os := range stores {
			if !os.val {
				continue
			}
			nTrue++
			key := core.Key(rule, pr.Rel, r.Name+".Update", "ok-set:"+os.array)
			bad := ""
			for _, role := range roles {
				facts, reach := core.FactsAtPruned(os.st.Block(), roleEdges(up, role))
				if !reach {
					continue
				}
				// required arrays for this role
				for _, a := range r.Accepts {
					ct := pr.ByContent[a.Content]
					if ct == nil || ct.Ctor == nil {
						continue
					}
					if role != "all" && !recipients(ct.Ctor)[role] {
						continue
					}
					arr := pr.StoreTab[a.Content]
					nonnil, accepted := false, false
					for _, f := range facts {
						switch f.Kind {
						case core.FNil:
							if an, idx := elemOfArray(f.X); an == arr && idx == os.idx && !f.Bool {
								nonnil = true
							}
						case core.FCall:
							call := f.X.(*ssa.Call)
							if f.Bool && strings.HasSuffix(core.CalleeName(call), ".CanAccept") && len(call.Call.Args) == 2 {
								if an, idx := elemOfArray(call.Call.Args[1]); an == arr && idx == os.idx {
									accepted = true
								}
							}
							// a private predicate of the round (`acceptable(msg)`: present and accepted): what all its
							// true returns establish about its parameter holds for the argument
							if h := core.Callee(call); f.Bool && core.PrivateHelper(h) && !call.Call.IsInvoke() {
								if hf, has := core.ReturnFacts(h, 0, true); has {
									for k, hp := range h.Params {
										if k >= len(call.Call.Args) {
											continue
										}
										an, idx := elemOfArray(call.Call.Args[k])
										if an != arr || idx != os.idx {
											continue
										}
										for _, g := range hf {
											if g.Kind == core.FNil && !g.Bool && core.Strip(g.X) == ssa.Value(hp) {
												nonnil = true
											}
											if g.Kind == core.FCall && g.Bool {
												if gc := g.X.(*ssa.Call); strings.HasSuffix(core.CalleeName(gc), ".CanAccept") && len(gc.Call.Args) == 2 && core.Strip(gc.Call.Args[1]) == ssa.Value(hp) {
													accepted = true
												}
											}
										}
									}
								}
							}
						}
					}
					if !nonnil || !accepted {
						bad += fmt.Sprintf("role %s: %s[j] non-nil=%v accepted=%v; ", role, arr, nonnil, accepted)
					}
					// the ok array is the sender committee's
					if isResharing(pr) {
						sc := senderCommittee(pr, a.Content)
						wantArr := map[string]string{"old": "oldOK", "new": "newOK"}[sc]
						if wantArr != "" && wantArr != os.array {
							bad += fmt.Sprintf("%s is sent by the %s committee but marks %s; ", a.Content, sc, os.array)
						}
					}
				}
			}
			c.r.Check(bad == "", rule, key, c.pos(os.st), "ok[j]=true only after every required message of peer j is present and accepted on its channel kind", "ok[j] is set although a required message of peer j may be missing or not accepted: "+bad)
		}
		if nTrue == 0 {
			c.r.Bad(rule, core.Key(rule, pr.Rel, r.Name+".Update", "ok-set"), c.fpos(up), "Update of a receiving round never marks a peer as received")
		}
	}
}

// secret-bearing payload types (fixed by type, each with the reason)
var secretPayload = map[string]string{
	"crypto/vss.Share":           "the recipient's Shamir share",
	"crypto/mta.RangeProofAlice": "MtA ciphertext proof bound to the recipient's ring-Pedersen parameters",
	"crypto/mta.ProofBob":        "MtA response proof for one recipient",
	"crypto/mta.ProofBobWC":      "MtA response proof for one recipient",
	"crypto/facproof.ProofFac":   "factorisation proof bound to the recipient's ring-Pedersen parameters",
}

func c08Secrets(c *ctx, pr *Protocol) {
	const rule = "R08.3"
	for _, ct := range pr.Contents {
		if ct.Ctor == nil {
			continue
		}
		secretParams := []int{}
		for i, prm := range ct.Ctor.Fn.Params {
			if why := secretPayload[core.TypeShortOf(prm.Type())]; why != "" {
				secretParams = append(secretParams, i)
			}
		}
		if len(secretParams) == 0 {
			continue
		}
		key := core.Key(rule, pr.Rel, ct.Name, "p2p-one-recipient")
		ok := ct.Ctor.IsBroadcast != nil && !*ct.Ctor.IsBroadcast && strings.HasPrefix(ct.Ctor.To, "one:param:")
		c.r.Check(ok, rule, key, c.fpos(ct.Ctor.Fn), "secret-bearing message is IsBroadcast=false with To=[to]", fmt.Sprintf("message carrying %s is routed broadcast=%v to=%s; it must be point-to-point to exactly one recipient", secretPayload[core.TypeShortOf(ct.Ctor.Fn.Params[secretParams[0]].Type())], boolStr(ct.Ctor.IsBroadcast), ct.Ctor.To))
		// call sites
		for _, r := range pr.Rounds {
			for _, s := range r.Sends {
				if s.Ctor != ct.Ctor || s.Call == nil {
					continue
				}
				k2 := core.Key(rule, pr.Rel, r.Name+".Start", "send:"+ct.Name)
				bad := ""
				if s.InLoop == nil {
					bad += "not inside a loop over the recipients; "
				}
				loops := map[*core.Loop]bool{}
				toArg := s.Call.Call.Args[0]
				collectLoops(toArg, loops)
				if d := descr(toArg); !strings.HasSuffix(d, "[peer]") {
					bad += "recipient is " + d + ", expected the loop's party; "
				}
				for _, pi := range secretParams {
					a := s.Call.Call.Args[pi]
					d := descr(a)
					if !strings.Contains(d, "[peer]") && !payloadFromPeerCall(a, s.InLoop) {
						bad += fmt.Sprintf("payload #%d is %s, not indexed by the loop peer; ", pi, d)
					}
					collectLoops(a, loops)
				}
				if len(loops) > 1 {
					bad += "recipient and payload are indexed by different loops; "
				}
				// skipped for self (only when addressing the sender's own committee)
				c.r.Check(bad == "", rule, k2, c.pos(s.Send), "to=Ps[j] with payload[j] of the same loop", bad)
			}
		}
	}
}

func boolStr(b *bool) string {
	if b == nil {
		return "?"
	}
	return fmt.Sprint(*b)
}

// payloadFromPeerCall: the payload is computed inside the loop body from per-peer values (e.g. facproof.NewProof(…NTildej[j]…)).
func payloadFromPeerCall(v ssa.Value, l *core.Loop) bool {
	if l == nil {
		return false
	}
	v = core.Strip(v)
	if p, ok := v.(*ssa.Phi); ok {
		for _, e := range p.Edges {
			if payloadFromPeerCall(e, l) {
				return true
			}
		}
		return false
	}
	if ex, ok := v.(*ssa.Extract); ok {
		v = ex.Tuple
	}
	call, ok := v.(*ssa.Call)
	if !ok || !l.In[call.Block()] {
		return false
	}
	for _, a := range call.Call.Args {
		if strings.Contains(descr(a), "[peer]") {
			return true
		}
	}
	// a private helper that is handed the loop's peer index and whose result depends on it
	if h := core.Callee(call); core.PrivateHelper(h) && !call.Call.IsInvoke() {
		var res []ssa.Value
		for _, ret := range core.Returns(h) {
			res = append(res, ret.Results...)
		}
		d := core.DepsOf(h, false, res...)
		for k, a := range call.Call.Args {
			if core.Strip(a) == l.Idx && d[fmt.Sprintf("param:%d", k)] {
				return true
			}
		}
	}
	return false
}

// collectLoops: the counted loops whose index is used inside v's defining expression.
func collectLoops(v ssa.Value, out map[*core.Loop]bool) {
	seen := map[ssa.Value]bool{}
	var walk func(v ssa.Value, d int)
	walk = func(v ssa.Value, d int) {
		if v == nil || seen[v] || d > 12 {
			return
		}
		seen[v] = true
		v = core.Strip(v)
		if l := loopIdx(v); l != nil {
			out[l] = true
			return
		}
		if in, ok := v.(ssa.Instruction); ok {
			if _, isPhi := v.(*ssa.Phi); isPhi {
				return
			}
			for _, op := range in.Operands(nil) {
				if *op != nil {
					walk(*op, d+1)
				}
			}
		}
	}
	walk(v, 0)
}

// long-term secret fields (by owning type and field name)
var longTermSecrets = map[string]bool{
	"ecdsa/keygen.LocalSecrets.Xi": true, "eddsa/keygen.LocalSecrets.Xi": true,
	"crypto/paillier.PrivateKey.LambdaN": true, "crypto/paillier.PrivateKey.PhiN": true,
	"crypto/paillier.PrivateKey.P": true, "crypto/paillier.PrivateKey.Q": true,
	"ecdsa/keygen.LocalPreParams.Alpha": true, "ecdsa/keygen.LocalPreParams.Beta": true,
	"ecdsa/keygen.LocalPreParams.P": true, "ecdsa/keygen.LocalPreParams.Q": true,
	"ecdsa/keygen.localTempData.ui": true, "eddsa/keygen.localTempData.ui": true,
	"ecdsa/signing.localTempData.k": true, "ecdsa/signing.localTempData.w": true, "ecdsa/signing.localTempData.gamma": true,
	"eddsa/signing.localTempData.wi": true, "eddsa/signing.localTempData.ri": true,
}

// directSecret: v is a copy (loads, Bytes(), Set, conversions only) of a long-term secret field.
func directSecret(v ssa.Value, d int) string {
	if d > 10 {
		return ""
	}
	v = core.Strip(v)
	if fr := core.AsFieldLoad(v); fr != nil {
		k := fr.String()
		if longTermSecrets[k] {
			return k
		}
		return ""
	}
	switch x := v.(type) {
	case *ssa.Call:
		n := core.CalleeName(x)
		switch n {
		case "(*math/big.Int).Bytes", "(*math/big.Int).Set", "(*math/big.Int).SetBytes", "(*math/big.Int).String", "(*math/big.Int).Text":
			for _, a := range x.Call.Args {
				if s := directSecret(a, d+1); s != "" {
					return s
				}
			}
		}
	case *ssa.Phi:
		for _, e := range x.Edges {
			if s := directSecret(e, d+1); s != "" {
				return s
			}
		}
	case *ssa.Convert:
		return directSecret(x.X, d+1)
	case *ssa.Slice:
		return directSecret(x.X, d+1)
	}
	return ""
}

func c08NoSecretArgs(c *ctx, pr *Protocol) {
	const rule = "R08.4"
	for _, r := range pr.Rounds {
		for _, s := range r.Sends {
			if s.Call == nil || s.Ctor == nil {
				continue
			}
			key := core.Key(rule, pr.Rel, r.Name+".Start", "args:"+s.Ctor.Content)
			leak := ""
			for i, a := range s.Call.Call.Args {
				if sec := directSecret(a, 0); sec != "" {
					leak += fmt.Sprintf("argument %d is a direct copy of %s; ", i, sec)
				}
			}
			if leak == "" {
				c.r.Triv(rule, key, c.pos(s.Send), "no constructor argument is a direct copy of a long-term secret field")
			} else {
				c.r.Bad(rule, key, c.pos(s.Send), "outgoing message contains a long-term secret: "+leak)
			}
		}
	}
	// inside constructors: content fields filled only from parameters
	for _, ct := range pr.Contents {
		if ct.Ctor == nil {
			continue
		}
		key := core.Key(rule, pr.Rel, ct.Name, "fields-from-params")
		bad := ""
		var names []string
		for n := range ct.Ctor.Fields {
			names = append(names, n)
		}
		sort.Strings(names)
		for _, n := range names {
			if sec := directSecret(ct.Ctor.Fields[n], 0); sec != "" {
				bad += n + " copies " + sec + "; "
			}
		}
		if bad == "" {
			c.r.Triv(rule, key, c.fpos(ct.Ctor.Fn), "content fields are filled from constructor parameters")
		} else {
			c.r.Bad(rule, key, c.fpos(ct.Ctor.Fn), bad)
		}
	}
}

func c08Waiting(c *ctx, pr *Protocol) {
	const rule = "R08.5"
	// (i) WaitingFor: appends Ps[j] exactly for ok[j] == false over the whole array
	if wf := pr.BaseFns["WaitingFor"]; wf != nil {
		key := fkey(rule, wf, "lists-exactly-missing")
		okArrays := map[string]bool{}
		bad := ""
		n := 0
		for _, l := range core.Loops(wf) {
			ht := core.TermOf(l.Hi)
			if !(ht.Op == "call:len" && l.Lo == 0 && !l.HiIncl) {
				continue
			}
			arr, _ := ht.Args[0].Field()
			if arr == "" {
				continue
			}
			// in the body: the element test; the "record" edge must be the ok==false edge
			for b := range l.In {
				for _, in := range b.Instrs {
					var recorded ssa.Value // Ps[j] value recorded (append or map update)
					switch x := in.(type) {
					case *ssa.Call:
						if bi, ok := x.Call.Value.(*ssa.Builtin); ok && bi.Name() == "append" {
							if segs, ok := core.SeqOf(x.Call.Args[1]); ok && len(segs) == 1 && segs[0].Kind == "elem" {
								recorded = segs[0].V
							}
						}
					case *ssa.MapUpdate:
						recorded = x.Key
					}
					if recorded == nil {
						continue
					}
					rt := core.TermOf(recorded)
					if rt.Op != "[]" || rt.Args[1].Key() != core.TermOf(l.Idx).Key() {
						bad += "the party recorded is not Ps[j] of the loop index; "
						continue
					}
					// facts at this block: ok[j] is false
					isFalse := false
					for _, f := range core.FactsAt(b) {
						if f.Kind == core.FBool && !f.Bool {
							ft := core.TermOf(f.X)
							if ft.Op == "[]" && ft.Args[1].Key() == core.TermOf(l.Idx).Key() {
								if an, _ := ft.Args[0].Field(); an == arr {
									isFalse = true
								}
							}
						}
					}
					if !isFalse {
						bad += "a party is recorded although its ok flag is not known to be false; "
					}
					// the party list must belong to the same committee as the ok array
					pl := descr(core.Strip(recorded))
					switch arr {
					case "oldOK":
						if !strings.Contains(pl, "OldParties") {
							bad += "oldOK indexes " + pl + "; "
						}
					case "newOK":
						if !strings.Contains(pl, "NewParties") {
							bad += "newOK indexes " + pl + "; "
						}
					}
					okArrays[arr] = true
					n++
				}
			}
		}
		want := 1
		if isResharing(pr) {
			want = 2
		}
		if len(okArrays) != want {
			bad += fmt.Sprintf("covers %d ok arrays, expected %d; ", len(okArrays), want)
		}
		// the list is built in storage of its own: every append chain starts from a fresh make (or nil),
		// never from a slice of the shared party list (appending to Ps[:0] overwrites the party list)
		for _, cs := range core.Calls(wf) {
			call, isCall := cs.(*ssa.Call)
			if !isCall {
				continue
			}
			if bi, isB := call.Call.Value.(*ssa.Builtin); !isB || bi.Name() != "append" {
				continue
			}
			if why := appendRootFresh(call.Call.Args[0], map[ssa.Value]bool{}); why != "" {
				bad += "the result list is appended into " + why + ": the shared party list is overwritten in place; "
			}
		}
		for _, b := range wf.Blocks {
			for _, in := range b.Instrs {
				if st, isSt := in.(*ssa.Store); isSt {
					if ia, isIA := st.Addr.(*ssa.IndexAddr); isIA {
						if why := appendRootFresh(ia.X, map[ssa.Value]bool{}); why != "" {
							bad += "WaitingFor stores into " + why + "; "
						}
					}
				}
			}
		}
		c.r.Check(bad == "", rule, key, c.fpos(wf), "WaitingFor records Ps[j] exactly on the ok[j]==false edge, for every j", bad)
	} else {
		c.r.Unk(rule, core.Key(rule, pr.Rel, "base.WaitingFor", "anchor"), pr.Rel, "WaitingFor not found")
	}
	// (ii) every Update loop visits every j
	for _, r := range pr.Rounds {
		up := r.Fns["Update"]
		if up == nil || len(r.Accepts) == 0 {
			continue
		}
		key := core.Key(rule, pr.Rel, r.Name+".Update", "visits-every-peer")
		bad := ""
		nl := 0
		for _, l := range core.Loops(up) {
			nl++
			for b := range l.In {
				for si, s := range b.Succs {
					if l.In[s] || (b == l.Header && si == 1) {
						continue
					}
					// an exit edge from inside the loop: allowed only if it leads to an error return
					if !onlyErrorReturns(s) {
						bad += fmt.Sprintf("the loop is left at %s before all peers were examined (return without error): later peers' ok flags stay stale and WaitingFor over-reports; ", c.pos(b.Instrs[len(b.Instrs)-1]))
					}
				}
			}
		}
		if nl == 0 {
			bad += "no loop over the message array found; "
		}
		c.r.Check(bad == "", rule, key, c.fpos(up), "every loop over the stored messages runs to exhaustion unless an error is returned", bad)
	}
	// (iii) every Start resets the ok arrays before anything else (after the started guard)
	for _, r := range pr.Rounds {
		st := r.Fns["Start"]
		if st == nil {
			continue
		}
		key := core.Key(rule, pr.Rel, r.Name+".Start", "resets-ok")
		var resets []ssa.CallInstruction
		cover := map[string]bool{}
		isFull := map[ssa.CallInstruction]bool{}
		for _, cs := range core.Calls(st) {
			// recognised by what the callee does to the ok arrays, not by its name: clears every flag of
			// every array (resetOK), or marks one whole committee as done (allOldOK / allNewOK)
			switch flagInitKind(pr, core.Callee(cs)) {
			case "full":
				resets = append(resets, cs)
				isFull[cs] = true
				cover["old"], cover["new"], cover["all"] = true, true, true
			case "old":
				resets = append(resets, cs)
				cover["old"] = true
			case "new":
				resets = append(resets, cs)
				cover["new"] = true
			}
		}
		ok := len(resets) > 0
		if isResharing(pr) {
			ok = ok && cover["old"] && cover["new"]
		} else {
			ok = ok && cover["all"]
		}
		// the resets dominate every return except the already-started error return, and precede every send
		if ok {
			for _, s := range r.Sends {
				if s.Send.Parent() == st && !core.InstrDominates(resets[0], s.Send) {
					ok = false
				}
			}
		}
		// … and every successful return: a role that leaves Start early (`if !IsNewCommittee() { return nil }`)
		// before the reset keeps the previous round's flags, all true, and sails through this round
		why := ""
		if ok {
			var full ssa.CallInstruction
			for _, rc := range resets {
				if isFull[rc] {
					full = rc
				}
			}
			for _, ret := range core.Returns(st) {
				if len(ret.Results) != 1 || !core.IsNilConst(core.Strip(ret.Results[0])) {
					continue
				}
				dominated := false
				if full != nil {
					dominated = core.InstrDominates(full, ret)
				} else {
					// no full reset in this round (the final one): every partial re-initialisation comes first
					dominated = true
					for _, rc := range resets {
						if !core.InstrDominates(rc, ret) {
							dominated = false
						}
					}
				}
				if !dominated {
					ok = false
					why = " (the successful return at " + c.pos(ret) + " is reachable without the reset)"
				}
			}
		}
		c.r.Check(ok, rule, key, c.fpos(st), "Start re-initialises every ok flag before sending and before returning successfully", "Start does not re-initialise all ok flags before its first send / successful return"+why+": flags of the previous round leak into this round's WaitingFor/CanProceed")
	}
	// resetOK sets every element false
	ro := pr.BaseFns["resetOK"]
	if ro == nil {
		// renamed: the private method of the base type that clears every flag
		for _, f := range c.p.FuncsOfPkg(pr.Rel) {
			if f.Parent() == nil && flagInitKind(pr, f) == "full" {
				ro = f
			}
		}
	}
	if ro != nil {
		key := fkey(rule, ro, "all-false")
		okAll := true
		arrs := map[string]bool{}
		for _, os := range okStores(ro) {
			if os.val {
				okAll = false
			}
			l := loopIdx(core.Strip(os.idx))
			if l == nil || l.Lo != 0 || l.HiIncl {
				okAll = false
			}
			arrs[os.array] = true
		}
		want := 1
		if isResharing(pr) {
			want = 2
		}
		c.r.Check(okAll && len(arrs) == want, rule, key, c.fpos(ro), "resetOK stores false into every element of every ok array", "resetOK does not clear every ok flag")
	}
}

// appendRootFresh: "" when the slice value is rooted (through appends and phis) in a fresh
// make/nil/array literal; otherwise a description of the shared storage it aliases.
func appendRootFresh(v ssa.Value, seen map[ssa.Value]bool) string {
	v = core.Strip(v)
	if seen[v] {
		return ""
	}
	seen[v] = true
	switch x := v.(type) {
	case *ssa.MakeSlice, *ssa.MakeMap, *ssa.Alloc:
		return ""
	case *ssa.Const:
		return ""
	case *ssa.Phi:
		for _, e := range x.Edges {
			if why := appendRootFresh(e, seen); why != "" {
				return why
			}
		}
		return ""
	case *ssa.Call:
		if bi, ok := x.Call.Value.(*ssa.Builtin); ok && bi.Name() == "append" {
			return appendRootFresh(x.Call.Args[0], seen)
		}
		return "the result of " + core.CalleeShort(x)
	case *ssa.Slice:
		if a, ok := core.Strip(x.X).(*ssa.Alloc); ok {
			_ = a
			return "" // slice of a local array literal
		}
		return "a sub-slice of " + descr(x.X)
	}
	return descr(v)
}

// onlyErrorReturns: every return reachable from b has a non-nil last result (the *tss.Error).
func onlyErrorReturns(b *ssa.BasicBlock) bool {
	seen := map[*ssa.BasicBlock]bool{}
	st := []*ssa.BasicBlock{b}
	seen[b] = true
	for len(st) > 0 {
		x := st[len(st)-1]
		st = st[:len(st)-1]
		if len(x.Instrs) > 0 {
			if ret, ok := x.Instrs[len(x.Instrs)-1].(*ssa.Return); ok {
				// an error return: a fresh error, or a value a dominating branch established to be non-nil
				// (`if err := round.helper(msg); err != nil { return false, err }`)
				if core.MayReturnNil(ret, len(ret.Results)-1) {
					return false
				}
			}
		}
		for _, s := range x.Succs {
			if !seen[s] {
				seen[s] = true
				st = append(st, s)
			}
		}
	}
	return true
}

func c08Once(c *ctx, pr *Protocol) {
	const rule = "R08.6"
	for _, r := range pr.Rounds {
		for _, s := range r.Sends {
			name := "?"
			if s.Ctor != nil {
				name = s.Ctor.Content
			}
			key := core.Key(rule, pr.Rel, r.Name+".Start", "once:"+name)
			if !s.Sync {
				c.r.Bad(rule, key, c.pos(s.Send), "a protocol message is sent from a nested function/goroutine of Start")
				continue
			}
			if s.InLoop == nil {
				c.r.Triv(rule, key, c.pos(s.Send), "sent once per Start (outside loops)")
				continue
			}
			// in a loop: must be a range over a party list with p2p routing to the loop's party
			l := s.InLoop
			ht := core.TermOf(l.Hi)
			ok := l.Lo == 0 && !l.HiIncl && ht.Op == "call:len" && s.Ctor != nil && strings.HasPrefix(s.Ctor.To, "one:")
			c.r.Check(ok, rule, key, c.pos(s.Send), "sent once per recipient in a loop over the party list", "a message is sent inside a loop that is not a single pass over the recipient list, or a broadcast is sent repeatedly")
		}
	}
}

// flagInitKind classifies a private method of a protocol package by its effect on the ok arrays:
// "full" — stores false into every element of every ok array (a counted loop from 0 per array);
// "old" / "new" — stores true into every element of oldOK / newOK; "" otherwise.
func flagInitKind(pr *Protocol, g *ssa.Function) string {
	if g == nil || g.Blocks == nil || g.Parent() != nil || !core.PrivateHelper(g) || core.RelPkg(g) != pr.Rel {
		return ""
	}
	stores := okStores(g)
	if len(stores) == 0 {
		return ""
	}
	arrs := map[string]bool{}
	allFalse, allTrue := true, true
	for _, os := range stores {
		l := loopIdx(core.Strip(os.idx))
		if l == nil || l.Lo != 0 || l.HiIncl {
			return ""
		}
		if os.val {
			allFalse = false
		} else {
			allTrue = false
		}
		arrs[os.array] = true
	}
	want := 1
	if isResharing(pr) {
		want = 2
	}
	switch {
	case allFalse && len(arrs) == want:
		return "full"
	case allTrue && len(arrs) == 1 && arrs["oldOK"]:
		return "old"
	case allTrue && len(arrs) == 1 && arrs["newOK"]:
		return "new"
	}
	return ""
}
