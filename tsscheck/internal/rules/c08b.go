package rules

import (
	"fmt"
	"go/types"
	"sort"
	"strings"

	"golang.org/x/tools/go/ssa"

	"tsscheck/internal/core"
)

// c08RoutingAgreement (R08.7): the routing a message hands to the transport is the routing the
// protocol gave it. (a) MessageImpl.WireBytes returns the address of the message's own routing, or a
// copy that fills EVERY field of tss.MessageRouting from the field / accessor of the same name;
// (b) NewMessageWrapper copies every routing flag into the wire wrapper field of the same name.
// A copy that forgets one flag (IsToOldAndNewCommittees) makes a transport that follows the routing
// struct deliver the resharing ACKs to the new committee only: the old committee never proceeds.
func c08RoutingAgreement(c *ctx) {
	const rule = "R08.7"
	rt := c.p.NamedType("tss", "MessageRouting")
	if rt == nil {
		c.r.Unk(rule, core.Key(rule, "tss", "MessageRouting", "anchor"), "tss", "type not found")
		return
	}
	st := rt.Underlying().(*types.Struct)
	var fields []string
	for i := 0; i < st.NumFields(); i++ {
		fields = append(fields, st.Field(i).Name())
	}
	sort.Strings(fields)
	// (a)
	if fn := c.p.Method("tss", "MessageImpl", "WireBytes"); fn != nil {
		key := fkey(rule, fn, "returns-own-routing")
		bad := ""
		n := 0
		for _, ret := range core.Returns(fn) {
			if len(ret.Results) < 2 || core.IsNilConst(core.Strip(ret.Results[1])) {
				continue
			}
			n++
			v := core.Strip(ret.Results[1])
			if fr := core.AsFieldAddr(v); fr != nil && fr.Name == "MessageRouting" {
				continue // &mm.MessageRouting
			}
			al, ok := v.(*ssa.Alloc)
			if !ok {
				bad += "the routing returned at " + c.pos(ret) + " is neither the message's own routing nor a literal copy; "
				continue
			}
			got := storedFields(al)
			for _, f := range fields {
				sv, has := got[f]
				if !has {
					bad += fmt.Sprintf("the copy returned at %s leaves field %s at its zero value; ", c.pos(ret), f)
					continue
				}
				if d := descr(sv); !strings.Contains(d, f) {
					bad += fmt.Sprintf("field %s of the copy is filled from %s; ", f, d)
				}
			}
		}
		c.r.Check(bad == "" && n > 0, rule, key, c.fpos(fn), "the transport receives the message's own routing (or a complete copy of it)", bad+"a transport that follows the returned routing delivers the message to another set of parties than the protocol addressed")
	} else {
		c.r.Unk(rule, core.Key(rule, "tss", "MessageImpl.WireBytes", "anchor"), "tss", "method not found")
	}
	// (b)
	if fn := c.p.Func("tss", "NewMessageWrapper"); fn != nil {
		key := fkey(rule, fn, "wrapper-copies-every-flag")
		bad := ""
		found := false
		for _, b := range fn.Blocks {
			for _, in := range b.Instrs {
				al, ok := in.(*ssa.Alloc)
				if !ok || !strings.HasSuffix(al.Type().String(), "tss.MessageWrapper") {
					continue
				}
				found = true
				got := storedFields(al)
				for _, f := range fields {
					if f == "To" || f == "From" {
						continue // converted to the wire id type; C08 R08.1 compares recipients
					}
					sv, has := got[f]
					if !has {
						bad += "wire wrapper field " + f + " is not set; "
						continue
					}
					if d := descr(sv); !strings.HasSuffix(d, "."+f) {
						bad += fmt.Sprintf("wire wrapper field %s is filled from %s; ", f, d)
					}
				}
			}
		}
		c.r.Check(found && bad == "", rule, key, c.fpos(fn), "IsBroadcast / IsToOldCommittee / IsToOldAndNewCommittees are copied field for field", bad)
	}
	// the accessors of the parsed message return the wire flag of the same name
	for _, f := range fields {
		if !strings.HasPrefix(f, "Is") {
			continue
		}
		fn := c.p.Method("tss", "MessageImpl", f)
		if fn == nil {
			continue
		}
		key := fkey(rule, fn, "accessor")
		ok := false
		for _, ret := range core.Returns(fn) {
			if fr := core.AsFieldLoad(core.Strip(ret.Results[0])); fr != nil && fr.Name == f {
				ok = true
			}
		}
		c.r.Check(ok, rule, key, c.fpos(fn), "returns the flag it is named after", f+"() does not return the "+f+" flag")
	}
	c.r.Floor(rule, 4)
}

// c09GetterPurity (R09.4): key material and parameters are shared, without a lock, by the worker
// goroutines a round fans out to and by concurrent sessions; that is sound only while reading them
// does not write. No parameterless value-returning method of a key-data / parameter type stores
// through its receiver (a lazily filled cache field is an unsynchronised write in every reader).
func c09GetterPurity(c *ctx, rule string) {
	typesOf := map[string][]string{
		"crypto/paillier": {"PublicKey", "PrivateKey"},
		"crypto":          {"ECPoint"},
		"ecdsa/keygen":    {"LocalPartySaveData", "LocalPreParams", "LocalSecrets"},
		"eddsa/keygen":    {"LocalPartySaveData", "LocalSecrets"},
		"tss":             {"Parameters", "ReSharingParameters", "PartyID", "PeerContext", "MessageWrapper_PartyID"},
	}
	n := 0
	for rel, names := range typesOf {
		for _, tn := range names {
			nt := c.p.NamedType(rel, tn)
			if nt == nil {
				continue
			}
			for _, fn := range c.p.FuncsOfPkg(rel) {
				if fn.Signature.Recv() == nil || namedOfType(fn.Signature.Recv().Type()) != nt || fn.Blocks == nil {
					continue
				}
				if fn.Signature.Params().Len() != 0 || fn.Signature.Results().Len() == 0 {
					continue
				}
				n++
				key := fkey(rule, fn, "reads-only")
				bad := ""
				recv := fn.Params[0]
				for _, g := range core.WithClosures(fn) {
					for _, b := range g.Blocks {
						for _, in := range b.Instrs {
							st, ok := in.(*ssa.Store)
							if !ok {
								continue
							}
							if rootIsValue(st.Addr, recv, 0) {
								bad += "stores through its receiver at " + c.pos(st) + "; "
							}
						}
					}
				}
				c.r.Check(bad == "", rule, key, c.fpos(fn), "does not write its receiver", tn+"."+fn.Name()+"() "+bad+"readers run concurrently without a lock (worker goroutines of a round, parallel sessions sharing key data): an unsynchronised write in an accessor is a data race on key material")
			}
		}
	}
	c.r.Floor(rule, 20)
	_ = n
}

// rootIsValue: the address is a field / element path starting at value root (possibly captured).
func rootIsValue(addr ssa.Value, root ssa.Value, depth int) bool {
	for i := 0; i < 12 && addr != nil; i++ {
		addr = core.Strip(addr)
		if addr == root {
			return true
		}
		switch x := addr.(type) {
		case *ssa.FieldAddr:
			addr = x.X
		case *ssa.IndexAddr:
			addr = x.X
		case *ssa.UnOp:
			addr = x.X
		case *ssa.FreeVar:
			addr = core.FreeVarBinding(x)
		default:
			return false
		}
	}
	return false
}
