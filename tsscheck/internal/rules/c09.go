package rules

import (
	"fmt"
	"go/token"
	"go/types"
	"sort"
	"strings"

	"golang.org/x/tools/go/ssa"

	"tsscheck/internal/core"
)

func init() { Registry["C09"] = runC09 }

func runC09(p *core.Prog, r *core.Report) {
	c := &ctx{p, r}
	r.Explain = "Static race reasoning over a fixed set of shared locations, for all interleavings at once: (R09.1) in tss.BaseUpdate, tss.BaseStart and BaseParty.WaitingFor every path from lock() to a return passes exactly one unlock() and the recursive call is reached with the (non re-entrant) lock released — a forward lock-state analysis over the CFG with deferred calls and the unlock closure modelled; (R09.2) lockset: from each concurrent entry point (Start, Update, UpdateFromBytes, WaitingFor of the six parties) every call that reaches round code (any method of a tss.Round implementation) or a direct access to BaseParty.rnd happens with the party mutex held — the call graph is walked with the abstract lock state, interface calls resolved to the module's implementations; (R09.3) fork-join: every goroutine started under an update entry point is joined (WaitGroup.Wait balanced with Add/Done on all closure paths, or one receive per spawned sender) before the spawner reads what it wrote or returns; closures write only to elements indexed by their own per-spawn index or send on their own channel; result channels drained after the join have capacity for every send."
	r.Undec = "that a concurrent run produces the same kind of result as a sequential one (result equivalence over interleavings); data races inside dependencies."
	r.Assume = []string{"sync.Mutex and sync.WaitGroup behave as documented", "goroutines are started only by `go` statements in module code (no reflection/cgo)"}
	c09Pairing(c)
	c09Lockset(c)
	c09ForkJoin(c)
	c09GetterPurity(c, "R09.4")
}

func c09Pairing(c *ctx) {
	const rule = "R09.1"
	fns := []*ssa.Function{c.mustFunc(rule, "tss", "BaseUpdate"), c.mustFunc(rule, "tss", "BaseStart"), c.mustMethod(rule, "tss", "BaseParty", "WaitingFor")}
	for _, fn := range fns {
		if fn == nil {
			continue
		}
		ls := core.LockStates(fn, partyLockEvent, core.LsUnlocked)
		bad := ""
		nLock := 0
		for _, b := range fn.Blocks {
			for _, in := range b.Instrs {
				st := ls[in]
				if partyLockEvent(in) > 0 {
					if _, isDefer := in.(*ssa.Defer); isDefer {
						continue
					}
					nLock++
					if st != core.LsUnlocked {
						bad += fmt.Sprintf("lock() at %s with the lock %s; ", c.pos(in), st)
					}
				}
				if partyLockEvent(in) < 0 {
					if _, isDefer := in.(*ssa.Defer); isDefer {
						continue
					}
					if st != core.LsLocked {
						bad += fmt.Sprintf("unlock() at %s with the lock %s; ", c.pos(in), st)
					}
				}
				if ret, ok := in.(*ssa.Return); ok {
					if st == core.LsUnknown {
						continue // the synthetic recover block: not reachable in the CFG
					}
					if st != core.LsUnlocked {
						bad += fmt.Sprintf("return at %s with the lock %s; ", c.pos(ret), st)
					}
				}
				if call, ok := in.(*ssa.Call); ok && core.Callee(call) == fn && st != core.LsUnlocked {
					bad += fmt.Sprintf("recursive call at %s with the lock %s (the mutex is not re-entrant); ", c.pos(call), st)
				}
			}
		}
		if nLock == 0 {
			bad += "the function never takes the party lock; "
		}
		c.r.Check(bad == "", rule, fkey(rule, fn, "lock-unlock-pairing"), c.fpos(fn), "every path: lock → exactly one unlock → return; recursion with the lock released", bad)
	}
	c.r.Floor(rule, 3)
}

// ---- R09.2 lockset ------------------------------------------------------------

func derefNamed(t types.Type) (*types.Named, bool) {
	if p, ok := t.(*types.Pointer); ok {
		t = p.Elem()
	}
	n, ok := t.(*types.Named)
	return n, ok
}

type lockWalker struct {
	c          *ctx
	stateTypes map[*types.Named]bool // party temp data / message store types
	rounds     map[*types.Named]bool // tss.Round implementations of the module
	partyI     *types.Interface
	roundI     *types.Interface
	impls      map[string][]*ssa.Function // interface method full name → implementations
	visited    map[string]bool
	viol       []string
	nCalls     int
}

func (w *lockWalker) isRoundCode(f *ssa.Function) bool {
	if f == nil || f.Signature.Recv() == nil {
		return false
	}
	t := f.Signature.Recv().Type()
	if p, ok := t.(*types.Pointer); ok {
		t = p.Elem()
	}
	n, ok := t.(*types.Named)
	return ok && w.rounds[n]
}

// accessesRndUnlocked: f reads or writes BaseParty.rnd at a point where, analysed on its own
// from an unlocked entry, the lock is not held.
func (w *lockWalker) accessesRndUnlocked(f *ssa.Function) (ssa.Instruction, bool) {
	if f.Blocks == nil {
		return nil, false
	}
	ls := core.LockStates(f, partyLockEvent, core.LsUnlocked)
	for _, b := range f.Blocks {
		for _, in := range b.Instrs {
			var addr ssa.Value
			switch x := in.(type) {
			case *ssa.UnOp:
				if x.Op == token.MUL {
					addr = x.X
				}
			case *ssa.Store:
				addr = x.Addr
			}
			if addr == nil {
				continue
			}
			if fr := core.AsFieldAddr(addr); fr != nil && fr.Name == "rnd" && strings.HasSuffix(fr.String(), "tss.BaseParty.rnd") {
				if ls[in] != core.LsLocked {
					return in, true
				}
			}
			// the party's temp data / message store (shared with round code)
			if fr := core.AsFieldAddr(addr); fr != nil {
				if n, ok := derefNamed(fr.Owner); ok && w.stateTypes[n] && ls[in] != core.LsLocked {
					return in, true
				}
			}
		}
	}
	return nil, false
}

func (w *lockWalker) callees(cs ssa.CallInstruction) []*ssa.Function {
	if g := core.Callee(cs); g != nil {
		return []*ssa.Function{g}
	}
	if m := core.InvokeMethod(cs); m != nil {
		return w.impls[m.FullName()]
	}
	return nil
}

// walk f entered with lock state `entry`; chain is the call path for reports.
func (w *lockWalker) walk(f *ssa.Function, entry core.LockState, chain []string, depth int) {
	if f == nil || f.Blocks == nil || depth > 8 || !isModuleFn(f) {
		return
	}
	key := fmt.Sprintf("%p/%d", f, entry)
	if w.visited[key] {
		return
	}
	w.visited[key] = true
	ls := core.LockStates(f, partyLockEvent, entry)
	for _, g := range core.WithClosures(f) {
		var gls map[ssa.Instruction]core.LockState
		if g == f {
			gls = ls
		} else {
			// closures called synchronously inherit the state at their call site; goroutine bodies start unlocked
			gls = nil
		}
		for _, cs := range core.Calls(g) {
			if partyLockEvent(cs) != 0 {
				continue
			}
			st := core.LsUnlocked
			if gls != nil {
				st = gls[cs]
			} else {
				st = closureEntryState(g, ls)
			}
			if _, isGo := cs.(*ssa.Go); isGo {
				continue // the spawned function is analysed through R09.3
			}
			for _, callee := range w.callees(cs) {
				if callee == nil || !isModuleFn(callee) {
					continue
				}
				w.nCalls++
				name := core.FuncName(callee)
				if w.isRoundCode(callee) {
					if st != core.LsLocked {
						w.viol = append(w.viol, fmt.Sprintf("%s → %s at %s: round code entered with the party lock %s", strings.Join(chain, " → "), name, w.c.pos(cs), st))
					}
					continue
				}
				if in, bad := w.accessesRndUnlocked(callee); bad && st != core.LsLocked {
					w.viol = append(w.viol, fmt.Sprintf("%s → %s at %s: shared party state (current round / message store / temp data) is accessed at %s with the party lock %s", strings.Join(chain, " → "), name, w.c.pos(cs), w.c.pos(in), st))
					continue
				}
				if st == core.LsLocked {
					continue // everything below runs under the lock
				}
				w.walk(callee, st, append(chain, name), depth+1)
			}
		}
	}
}

// closureEntryState: the lock state at the (unique) synchronous call site of closure g in its parent.
func closureEntryState(g *ssa.Function, parentStates map[ssa.Instruction]core.LockState) core.LockState {
	st := core.LsUnknown
	for _, cs := range core.ClosureCallSites(g) {
		if _, isGo := cs.(*ssa.Go); isGo {
			return core.LsUnlocked
		}
		if d, isDefer := cs.(*ssa.Defer); isDefer {
			// runs at RunDefers, before any defer registered earlier (LIFO): the state is the one
			// at RunDefers unless an unlock was deferred after this closure
			unlockLater := false
			for _, c2 := range core.Calls(d.Parent()) {
				if d2, ok := c2.(*ssa.Defer); ok && d2 != d && partyLockEvent(d2) < 0 && core.InstrDominates(d, d2) {
					unlockLater = true
				}
			}
			if unlockLater {
				st |= core.LsUnlocked
				continue
			}
			for _, b := range d.Parent().Blocks {
				for _, in := range b.Instrs {
					if _, isRD := in.(*ssa.RunDefers); isRD {
						if s, ok := parentStates[in]; ok {
							st |= s
						}
					}
				}
			}
			continue
		}
		if s, ok := parentStates[cs]; ok {
			st |= s
		}
	}
	if st == core.LsUnknown {
		// not called directly: passed as an argument to a module function that calls it
		par := g.Parent()
		for _, cs := range core.Calls(par) {
			for _, a := range cs.Common().Args {
				isThis := false
				same := func(v ssa.Value) bool {
					v = core.Strip(v)
					if mc, ok := v.(*ssa.MakeClosure); ok && mc.Fn == g {
						return true
					}
					return v == ssa.Value(g) // a function literal that captures nothing
				}
				if same(a) {
					isThis = true
				}
				if segs, ok := core.SeqOf(a); ok {
					for _, sg := range segs {
						if same(sg.V) {
							isThis = true
						}
					}
				}
				if !isThis {
					continue
				}
				callee := core.Callee(cs)
				if callee == nil || callee.Blocks == nil {
					return core.LsUnlocked
				}
				cls := core.LockStates(callee, partyLockEvent, parentStates[cs])
				for _, c2 := range core.Calls(callee) {
					if core.Callee(c2) == nil && core.InvokeMethod(c2) == nil {
						if _, isB := c2.Common().Value.(*ssa.Builtin); !isB {
							st |= cls[c2] // a dynamic call inside the callee: may be this closure
						}
					}
				}
			}
		}
	}
	if st == core.LsUnknown {
		return core.LsUnlocked
	}
	return st
}

func c09Lockset(c *ctx) {
	const rule = "R09.2"
	w := &lockWalker{c: c, rounds: map[*types.Named]bool{}, impls: map[string][]*ssa.Function{}, visited: map[string]bool{}}
	w.partyI, w.roundI = tssIface(c.p, "Party"), tssIface(c.p, "Round")
	if w.partyI == nil || w.roundI == nil {
		c.r.Unk(rule, core.Key(rule, "tss", "-", "interfaces"), "tss", "tss.Party / tss.Round not found")
		return
	}
	// implementations
	var named []*types.Named
	for _, pk := range c.p.Pkgs {
		sc := pk.Types.Scope()
		for _, n := range sc.Names() {
			if tn, ok := sc.Lookup(n).(*types.TypeName); ok {
				if nt, ok := tn.Type().(*types.Named); ok {
					if _, isS := nt.Underlying().(*types.Struct); isS {
						named = append(named, nt)
					}
				}
			}
		}
	}
	for _, nt := range named {
		ptr := types.NewPointer(nt)
		for _, it := range []*types.Interface{w.partyI, w.roundI} {
			if !types.Implements(ptr, it) {
				continue
			}
			if it == w.roundI {
				w.rounds[nt] = true
			}
			ms := c.p.SSA.MethodSets.MethodSet(ptr)
			for i := 0; i < it.NumMethods(); i++ {
				m := it.Method(i)
				if sel := ms.Lookup(m.Pkg(), m.Name()); sel != nil {
					if f := c.p.SSA.MethodValue(sel); f != nil {
						// promoted methods come as wrappers: resolve to the declared method
						decl := f
						if f.Synthetic != "" {
							if obj, ok := sel.Obj().(*types.Func); ok {
								if d := c.p.SSA.FuncValue(obj); d != nil {
									decl = d
								}
							}
						}
						w.impls[m.FullName()] = appendUnique(w.impls[m.FullName()], decl)
					}
				}
			}
		}
	}
	// base round structs (methods declared on `base`) are round code too
	w.stateTypes = map[*types.Named]bool{}
	for _, rel := range protoRels {
		pr := ExtractProtocol(c.p, rel)
		if pr.Base != nil {
			w.rounds[pr.Base] = true
		}
		for _, n := range []string{"localTempData", "localMessageStore"} {
			if nt := c.p.NamedType(rel, n); nt != nil {
				w.stateTypes[nt] = true
			}
		}
	}
	entries := 0
	for _, rel := range protoRels {
		pr := ExtractProtocol(c.p, rel)
		for _, m := range []string{"Start", "Update", "UpdateFromBytes", "WaitingFor"} {
			fn := pr.PartyFns[m]
			if fn == nil {
				c.r.Unk(rule, core.Key(rule, rel, "LocalParty."+m, "anchor"), rel, "entry point not found")
				continue
			}
			entries++
			before := len(w.viol)
			w.visited = map[string]bool{}
			w.walk(fn, core.LsUnlocked, []string{core.FuncName(fn)}, 0)
			key := core.Key(rule, rel, "LocalParty."+m, "lock-held-for-party-state")
			if len(w.viol) == before {
				c.r.OK(rule, key, c.fpos(fn), "every path from this entry point reaches round code and BaseParty.rnd only with the party lock held")
			} else {
				vs := w.viol[before:]
				sort.Strings(vs)
				c.r.Bad(rule, key, c.fpos(fn), strings.Join(dedup(vs), " | "))
			}
		}
	}
	c.r.Stats["lockset_call_sites"] = w.nCalls
	c.r.Floor(rule, 24)
	_ = entries
}

func appendUnique(fs []*ssa.Function, f *ssa.Function) []*ssa.Function {
	for _, x := range fs {
		if x == f {
			return fs
		}
	}
	return append(fs, f)
}

func dedup(xs []string) []string {
	var out []string
	for i, x := range xs {
		if i == 0 || x != xs[i-1] {
			out = append(out, x)
		}
	}
	return out
}
