package rules

import (
	"fmt"
	"go/token"
	"go/types"
	"strings"

	"golang.org/x/tools/go/ssa"

	"tsscheck/internal/core"
)

// resolveObj follows closure captures and single-store locals to the defining value.
func resolveObj(v ssa.Value) ssa.Value {
	for i := 0; i < 12; i++ {
		v = core.Strip(v)
		switch x := v.(type) {
		case *ssa.FreeVar:
			b := core.FreeVarBinding(x)
			if b == nil {
				return v
			}
			v = b
		case *ssa.Parameter:
			if bindableParam(x) {
				if a := closureArg(x); a != nil {
					v = a
					continue
				}
			}
			return v
		default:
			return v
		}
	}
	return v
}

// callsOnAllPaths: every path from g's entry to a return executes a call matching pred
// exactly once (directly, or through a deferred call / deferred closure).
func callsOnAllPaths(g *ssa.Function, pred func(cs ssa.CallInstruction) bool) (bool, string) {
	// deferred: counts once for every return
	deferred := 0
	for _, cs := range core.Calls(g) {
		d, ok := cs.(*ssa.Defer)
		if !ok {
			continue
		}
		if pred(d) {
			deferred++
			continue
		}
		if cl := core.Callee(d); cl != nil && cl.Parent() == g {
			for _, c2 := range core.Calls(cl) {
				if pred(c2) {
					deferred++
				}
			}
		}
	}
	// direct calls: count along paths with a forward max/min analysis
	type mm struct{ lo, hi int }
	in := map[*ssa.BasicBlock]mm{}
	seen := map[*ssa.BasicBlock]bool{}
	if len(g.Blocks) == 0 {
		return false, "no body"
	}
	work := []*ssa.BasicBlock{g.Blocks[0]}
	in[g.Blocks[0]] = mm{0, 0}
	seen[g.Blocks[0]] = true
	iters := 0
	retLo, retHi := 1<<30, -1
	for len(work) > 0 && iters < 10000 {
		iters++
		b := work[0]
		work = work[1:]
		cur := in[b]
		for _, i := range b.Instrs {
			if cs, ok := i.(ssa.CallInstruction); ok {
				if _, isDefer := i.(*ssa.Defer); isDefer {
					continue
				}
				if _, isGo := i.(*ssa.Go); isGo {
					continue
				}
				if pred(cs) {
					cur.lo++
					cur.hi++
				}
			}
			if _, ok := i.(*ssa.Return); ok {
				if cur.lo < retLo {
					retLo = cur.lo
				}
				if cur.hi > retHi {
					retHi = cur.hi
				}
			}
		}
		for _, s := range b.Succs {
			n := cur
			if seen[s] {
				o := in[s]
				if o.lo < n.lo {
					n.lo = o.lo
				}
				if o.hi > n.hi {
					n.hi = o.hi
				}
				if n.hi > 3 {
					n.hi = 3
				}
				if n == o {
					continue
				}
			}
			seen[s] = true
			in[s] = n
			work = append(work, s)
		}
	}
	lo, hi := retLo+deferred, retHi+deferred
	if retHi < 0 {
		return false, "no return reached"
	}
	if lo == 1 && hi == 1 {
		return true, ""
	}
	return false, fmt.Sprintf("between %d and %d occurrences per execution", lo, hi)
}

type goSite struct {
	g    *ssa.Go
	cl   *ssa.Function
	fn   *ssa.Function // spawner
	loop *core.Loop
}

func goSitesOf(p *core.Prog, rels ...string) []*goSite {
	var out []*goSite
	for _, rel := range rels {
		for _, fn := range p.FuncsOfPkg(rel) {
			for _, b := range fn.Blocks {
				for _, in := range b.Instrs {
					g, ok := in.(*ssa.Go)
					if !ok {
						continue
					}
					s := &goSite{g: g, fn: fn}
					if mc, ok := core.Strip(g.Call.Value).(*ssa.MakeClosure); ok {
						s.cl = mc.Fn.(*ssa.Function)
					} else if f := core.Callee(g); f != nil {
						s.cl = f
					}
					for _, l := range loopsOf(fn) {
						if l.In[b] {
							s.loop = l
						}
					}
					out = append(out, s)
				}
			}
		}
	}
	return out
}

func isWG(cs ssa.CallInstruction, method string) bool {
	return core.CallIs(cs, "(*sync.WaitGroup)."+method)
}

func c09ForkJoin(c *ctx) {
	const rule = "R09.3"
	rels := []string{"ecdsa/keygen", "ecdsa/signing", "ecdsa/resharing", "eddsa/keygen", "eddsa/signing", "eddsa/resharing", "crypto/modproof", "crypto/paillier"}
	n := 0
	for _, s := range goSitesOf(c.p, rels...) {
		top := core.Outermost(s.fn)
		if strings.HasSuffix(c.p.Pos(s.g.Pos()), "prepare.go:74") || strings.Contains(c.p.Pos(s.g.Pos()), "ecdsa/keygen/prepare.go") {
			continue // pre-parameter generation: decided under C19 (R19.2)
		}
		n++
		key := fkey(rule, top, "go:"+goLabel(s))
		if s.cl == nil {
			c.r.Unk(rule, key, c.pos(s.g), "goroutine body not resolved")
			continue
		}
		bad := ""
		joinDesc := ""
		var join ssa.Instruction
		// --- what does the goroutine signal with?
		doneWG := wgDoneTarget(s.cl)
		sendCh := ownChannelSend(s)
		cb, cbLocal := callbackParamCalled(s)
		switch {
		case doneWG != nil:
			if ok, why := callsOnAllPaths(s.cl, func(cs ssa.CallInstruction) bool {
				return isWG(cs, "Done") && resolveObj(cs.Common().Args[0]) == doneWG
			}); !ok {
				bad += "WaitGroup.Done is not called exactly once on every path of the goroutine (" + why + "); "
			}
			join = wgWait(s.fn, doneWG)
			joinDesc = "WaitGroup.Wait"
			if join == nil {
				bad += "the spawner never waits on the goroutine's WaitGroup; "
			} else {
				bad += wgAddBalanced(c, s, doneWG)
				bad += sharedChanCapacity(c, s, doneWG, join)
			}
		case s.loop != nil && parallelJoinOK(s.fn, s.cl):
			// K goroutines each send exactly one bool on a buffered channel; the spawner receives K values
			joinDesc = "counted receive loop over the shared result channel"
			if mk := boolResultChan(s.cl); mk == nil || !bufferedFor(mk, s) {
				bad += "the shared result channel is not buffered for every sender: goroutines still running after an early return would block forever; "
			}
		case sendCh != nil && selectJoinOK(s.fn):
			joinDesc = "select loop receiving once from each producer channel"
			if n, ok := core.ConstInt(sendCh.Size); !ok || n < 1 {
				bad += "producer channel is unbuffered although the consumer may return early; "
			}
			if ok, why := callsOnAllPathsSend(s.cl, sendCh); !ok {
				bad += "the producer does not send exactly once on every path (" + why + "); "
			}
		case sendCh != nil:
			if ok, why := callsOnAllPathsSend(s.cl, sendCh); !ok {
				bad += "the goroutine does not send exactly once on its result channel on every path (" + why + "); "
			}
			join, joinDesc = channelJoin(s, sendCh)
			if join == nil {
				bad += "the spawner does not receive once from every spawned goroutine's channel before returning; "
			}
		case cb != nil:
			// completion is signalled through a callback parameter of the enclosing function (dln verifier):
			// the callback must be invoked exactly once on every path; the registrations are checked at the callers
			if ok, why := callsOnAllPaths(s.cl, func(cs ssa.CallInstruction) bool {
				return !cs.Common().IsInvoke() && (resolveObj(cs.Common().Value) == ssa.Value(cb) || cbLocal != nil && core.Strip(cs.Common().Value) == cbLocal)
			}); !ok {
				bad += "the completion callback is not invoked exactly once on every path of the goroutine (" + why + "); "
			}
			bad += callbackRegistrations(c, top, cb)
			joinDesc = "completion callback → caller's WaitGroup"
		default:
			bad += "the goroutine signals completion neither through a WaitGroup, a channel of its own nor a callback; "
		}
		// --- what does the goroutine write?
		bad += closureWrites(s)
		// --- join before reads of what it wrote and before every return
		if join != nil {
			for _, ret := range core.Returns(s.fn) {
				if core.InstrReaches(s.g, ret) && !core.InstrDominates(join, ret) && !errorOnlyReturn(ret) && reachesAvoiding(s.g.Block(), join.Block(), ret.Block()) {
					bad += "the spawner can return at " + c.pos(ret) + " without joining the goroutine; "
				}
			}
			for _, w := range closureWrittenContainers(s.cl) {
				for _, rd := range readsOf(s.fn, w) {
					if core.InstrReaches(s.g, rd) && !core.InstrDominates(join, rd) && !inLoopBefore(s, rd) {
						bad += "the spawner reads " + descr(w) + " at " + c.pos(rd) + " before the join; "
					}
				}
			}
		}
		c.r.Check(bad == "", rule, key, c.pos(s.g), "joined by "+joinDesc+"; writes only its own slot / channel", bad)
	}
	c.r.Floor(rule, 15)
}

// boolResultChan: the channel on which the closure sends constant booleans.
func boolResultChan(cl *ssa.Function) *ssa.MakeChan {
	_, ch := trueSendBlocks(cl)
	if ch == nil {
		return nil
	}
	return core.ChanMake(ch)
}

// bufferedFor: capacity of mk is the constant K1 × (go sites in the spawn loop sending on it).
func bufferedFor(mk *ssa.MakeChan, s *goSite) bool {
	capK, ok := core.ConstInt(mk.Size)
	if !ok || s.loop == nil {
		return false
	}
	k1, ok := core.ConstInt(s.loop.Hi)
	if !ok {
		return false
	}
	sites := 0
	for b := range s.loop.In {
		for _, in := range b.Instrs {
			if g, ok := in.(*ssa.Go); ok {
				if mc, ok := core.Strip(g.Call.Value).(*ssa.MakeClosure); ok {
					if boolResultChan(mc.Fn.(*ssa.Function)) == mk {
						sites++
					}
				}
			}
		}
	}
	return capK >= k1*int64(sites)
}

// sharedChanCapacity: a goroutine joined by a WaitGroup that also sends on a shared channel which
// is only drained after Wait() must never block: the channel's capacity has to equal the number of
// goroutines (the WaitGroup.Add argument) and each goroutine sends at most once.
func sharedChanCapacity(c *ctx, s *goSite, wg ssa.Value, wait ssa.Instruction) string {
	bad := ""
	seen := map[*ssa.MakeChan]bool{}
	for _, b := range s.cl.Blocks {
		for _, in := range b.Instrs {
			snd, ok := in.(*ssa.Send)
			if !ok {
				continue
			}
			mk := core.ChanMake(snd.Chan)
			if mk == nil || seen[mk] {
				continue
			}
			seen[mk] = true
			// at most one send per execution
			if ok, why := callsOnAllPathsSend(s.cl, mk); !ok && !strings.Contains(why, "between 0 and 1") {
				bad += "the goroutine may send more than once on the shared channel (" + why + "); "
			}
			// is the channel received from before the Wait? then no capacity requirement
			drainedEarly := false
			for _, bb := range s.fn.Blocks {
				for _, i2 := range bb.Instrs {
					if u, ok := i2.(*ssa.UnOp); ok && u.Op == token.ARROW && core.ChanMake(u.X) == mk && !core.InstrDominates(wait, u) {
						drainedEarly = true
					}
					if rg, ok := i2.(*ssa.Range); ok && core.ChanMake(rg.X) == mk && !core.InstrDominates(wait, rg) {
						drainedEarly = true
					}
				}
			}
			if drainedEarly {
				continue
			}
			var add ssa.CallInstruction
			for _, cs := range core.Calls(s.fn) {
				if isWG(cs, "Add") && resolveObj(cs.Common().Args[0]) == wg {
					add = cs
				}
			}
			if add == nil {
				continue
			}
			if core.TermOf(mk.Size).Key() != core.TermOf(add.Common().Args[1]).Key() {
				bad += fmt.Sprintf("the shared channel made at %s has capacity %s but %s goroutines may each send before it is drained (after Wait): a surplus sender blocks forever and Wait never returns; ", c.pos(mk), core.TermOf(mk.Size), core.TermOf(add.Common().Args[1]))
			}
		}
	}
	return bad
}

func goLabel(s *goSite) string {
	// label by what the goroutine calls (semantic, not positional)
	var names []string
	for _, cs := range core.Calls(s.cl) {
		n := core.CalleeShort(cs)
		if strings.Contains(n, "mta.") || strings.Contains(n, "Verify") || strings.Contains(n, "GenerateXs") || strings.Contains(n, "SHA512") {
			if !contains(names, n) {
				names = append(names, n)
			}
		}
	}
	if len(names) == 0 {
		return s.cl.Name()
	}
	return strings.Join(names, "+")
}

func wgDoneTarget(cl *ssa.Function) ssa.Value {
	for _, g := range core.WithClosures(cl) {
		for _, cs := range core.Calls(g) {
			if isWG(cs, "Done") {
				return resolveObj(cs.Common().Args[0])
			}
		}
	}
	return nil
}

func wgWait(fn *ssa.Function, wg ssa.Value) ssa.Instruction {
	for _, cs := range core.Calls(fn) {
		if isWG(cs, "Wait") && resolveObj(cs.Common().Args[0]) == wg {
			return cs
		}
	}
	return nil
}

// wgAddBalanced: Add(n) with n = iterations × go sites per iteration, in one of the two idioms:
// Add(k) inside the loop body next to k registrations, or Add((len-1)*k) before a loop that skips self.
func wgAddBalanced(c *ctx, s *goSite, wg ssa.Value) string {
	var adds []ssa.CallInstruction
	for _, cs := range core.Calls(s.fn) {
		if isWG(cs, "Add") && resolveObj(cs.Common().Args[0]) == wg {
			adds = append(adds, cs)
		}
	}
	if len(adds) != 1 {
		return fmt.Sprintf("expected one WaitGroup.Add, found %d; ", len(adds))
	}
	add := adds[0]
	// number of goroutines (and callback registrations) signalling this wg per loop iteration
	perIter := 0
	var spawnBlocks []*ssa.BasicBlock // where the signalling goroutines / callbacks are started
	if s.loop != nil {
		for b := range s.loop.In {
			for _, in := range b.Instrs {
				switch x := in.(type) {
				case *ssa.Go:
					// a closure or a named function / method started by the go statement
					if cf := goBody(x); cf != nil {
						if wgDoneTarget(cf) == wg {
							perIter++
							spawnBlocks = append(spawnBlocks, b)
						}
					}
				case *ssa.Call:
					for _, a := range x.Call.Args {
						if mc, ok := core.Strip(a).(*ssa.MakeClosure); ok {
							if wgDoneTarget(mc.Fn.(*ssa.Function)) == wg {
								perIter++
								spawnBlocks = append(spawnBlocks, b)
							}
						}
					}
				}
			}
		}
	}
	if s.loop == nil {
		return ""
	}
	at := core.TermOf(add.Common().Args[1])
	if s.loop.In[add.Block()] {
		if k, ok := core.TermInt(at); ok && int(k) == perIter {
			return ""
		}
		return fmt.Sprintf("WaitGroup.Add(%s) inside the loop but %d goroutines signal per iteration; ", at, perIter)
	}
	// before the loop: (len(list)-1)*k with the loop skipping self
	if at.Op == "bin*" {
		for i := 0; i < 2; i++ {
			if k, ok := core.TermInt(at.Args[i]); ok && int(k) == perIter {
				o := at.Args[1-i]
				ht := core.TermOf(s.loop.Hi)
				if o.Op == "bin-" && constIs(o.Args[1], 1) && o.Args[0].Key() == ht.Key() && skipsSelfOnly(s.loop) {
					// every signalling goroutine is started in every iteration but the party's own: an
					// iteration that leaves early (continue / error path) before a `go` leaves Done calls
					// missing and Wait blocks for ever
					for _, sb := range spawnBlocks {
						if cv := coverage(s.loop, sb); cv != "all-but-self" {
							return fmt.Sprintf("WaitGroup.Add(%s) counts every peer, but a goroutine that signals it is started only in %s iterations (an early `continue` skips it): Wait never returns; ", at, cv)
						}
					}
					return ""
				}
			}
		}
	}
	return fmt.Sprintf("WaitGroup.Add(%s) does not equal (iterations) × %d goroutines per iteration; ", at, perIter)
}

// skipsSelfOnly: the loop body `continue`s exactly when idx == own index.
func skipsSelfOnly(l *core.Loop) bool {
	// the loop has a block that runs for exactly the indices ≠ self: its body after the skip test
	for b := range l.In {
		if coverage(l, b) == "all-but-self" {
			return true
		}
	}
	return false
}

// coverage: for which indices of counted loop l block b executes: "all", "all-but-self"
// (guarded only by idx != own index) or "some" (any other in-loop condition).
func coverage(l *core.Loop, b *ssa.BasicBlock) string {
	res := "all"
	for _, f := range core.FactsAt(b) {
		if f.If == nil || !l.In[f.If.Block()] || f.If.Block() == l.Header {
			continue
		}
		if f.Kind == core.FInt && f.Ord == (core.LT|core.GT) && ((core.Strip(f.X) == l.Idx && isSelfIndex(f.Y)) || (core.Strip(f.Y) == l.Idx && isSelfIndex(f.X))) {
			res = "all-but-self"
			continue
		}
		return "some"
	}
	return res
}

// ownChannelSend: the channel the goroutine sends on when it is passed as an argument (chs[j]) or
// a per-goroutine local; nil for shared error channels.
func ownChannelSend(s *goSite) *ssa.MakeChan {
	var mk *ssa.MakeChan
	for _, b := range s.cl.Blocks {
		for _, in := range b.Instrs {
			if snd, ok := in.(*ssa.Send); ok {
				if _, isParam := core.Strip(snd.Chan).(*ssa.Parameter); isParam {
					if m := core.ChanMake(snd.Chan); m != nil {
						mk = m
					}
				} else if m := core.ChanMake(snd.Chan); m != nil && isPerIndexChan(snd.Chan) {
					mk = m
				}
			}
		}
	}
	return mk
}

func isPerIndexChan(v ssa.Value) bool {
	v = core.Strip(v)
	if u, ok := v.(*ssa.UnOp); ok && u.Op == token.MUL {
		_, isIA := u.X.(*ssa.IndexAddr)
		return isIA
	}
	return false
}

var sendHelperBusy = map[*ssa.Function]bool{}

func callsOnAllPathsSend(cl *ssa.Function, mk *ssa.MakeChan) (bool, string) {
	// reuse the path counter with a pseudo-call predicate over Send instructions
	type mm struct{ lo, hi int }
	in := map[*ssa.BasicBlock]mm{cl.Blocks[0]: {0, 0}}
	seen := map[*ssa.BasicBlock]bool{cl.Blocks[0]: true}
	work := []*ssa.BasicBlock{cl.Blocks[0]}
	retLo, retHi := 1<<30, -1
	for it := 0; len(work) > 0 && it < 10000; it++ {
		b := work[0]
		work = work[1:]
		cur := in[b]
		for _, i := range b.Instrs {
			if snd, ok := i.(*ssa.Send); ok && core.ChanMake(snd.Chan) == mk {
				cur.lo++
				cur.hi++
			}
			// a local helper closure that itself sends exactly once on the channel (fail := func(…){ ch <- … })
			if call, ok := i.(*ssa.Call); ok {
				if g := core.Callee(call); g != nil && g.Parent() != nil && g != cl && core.Outermost(g) == core.Outermost(cl) && !sendHelperBusy[g] {
					sendHelperBusy[g] = true
					if once, _ := callsOnAllPathsSend(g, mk); once {
						cur.lo++
						cur.hi++
					}
					delete(sendHelperBusy, g)
				}
			}
			if _, ok := i.(*ssa.Return); ok {
				if cur.lo < retLo {
					retLo = cur.lo
				}
				if cur.hi > retHi {
					retHi = cur.hi
				}
			}
		}
		for _, s := range b.Succs {
			n := cur
			if seen[s] {
				o := in[s]
				if o.lo < n.lo {
					n.lo = o.lo
				}
				if o.hi > n.hi {
					n.hi = o.hi
				}
				if n.hi > 3 {
					n.hi = 3
				}
				if n == o {
					continue
				}
			}
			seen[s] = true
			in[s] = n
			work = append(work, s)
		}
	}
	if retHi < 0 {
		return false, "no return"
	}
	if retLo == 1 && retHi == 1 {
		return true, ""
	}
	return false, fmt.Sprintf("between %d and %d sends per execution", retLo, retHi)
}

// channelJoin: the spawner receives from the goroutines' channels in a later loop over the same
// index range with the same skip condition (or, for a loop over the channel slice, from every element).
func channelJoin(s *goSite, mk *ssa.MakeChan) (ssa.Instruction, string) {
	for _, l := range loopsOf(s.fn) {
		if l == s.loop {
			continue
		}
		for b := range l.In {
			for _, in := range b.Instrs {
				u, ok := in.(*ssa.UnOp)
				if !ok || u.Op != token.ARROW || core.ChanMake(u.X) != mk {
					continue
				}
				if !core.InstrReaches(s.g, u) {
					continue
				}
				// same coverage: both loops start at 0 and run to the same bound, and skip self alike
				if s.loop != nil {
					if l.Lo != s.loop.Lo || l.HiIncl != s.loop.HiIncl {
						continue
					}
					h1, h2 := core.TermOf(l.Hi), core.TermOf(s.loop.Hi)
					if !sameLenTerm(h1, h2) {
						continue
					}
					cr, cg := coverage(l, b), coverage(s.loop, s.g.Block())
					if cr == "some" || cg == "some" || cr != cg {
						continue
					}
				}
				if len(l.Done.Instrs) > 0 {
					return l.Done.Instrs[0], "one receive per spawned goroutine"
				}
				return u, "one receive per spawned goroutine"
			}
		}
	}
	return nil, ""
}

func sameLenTerm(a, b *T) bool {
	if a.Key() == b.Key() {
		return true
	}
	// len(x) of slices: equal when both are lengths of party-indexed tables, or len(make(n)) vs n
	if a.Op == "call:len" && b.Op == "call:len" {
		return true
	}
	for _, p := range [][2]*T{{a, b}, {b, a}} {
		if p[0].Op == "call:len" {
			if mk, ok := p[0].Args[0].V.(*ssa.MakeSlice); ok && core.TermOf(mk.Len).Key() == p[1].Key() {
				return true
			}
		}
	}
	return false
}

func allReceivesGuardedAlike(a, b *core.Loop) bool { return false }

// callbackParamCalled: the goroutine calls a function-typed parameter of its enclosing function — captured
// by the closure, or handed to a named goroutine body as an argument of the go statement (then `local`
// is the body's own parameter through which it is called).
func callbackParamCalled(s *goSite) (cb *ssa.Parameter, local ssa.Value) {
	cl := s.cl
	for _, cs := range core.Calls(cl) {
		if cs.Common().IsInvoke() {
			continue
		}
		if cl.Parent() == nil {
			q, ok := core.Strip(cs.Common().Value).(*ssa.Parameter)
			if !ok || q.Parent() != cl {
				continue
			}
			if _, isFn := q.Type().Underlying().(*types.Signature); !isFn {
				continue
			}
			for k, qq := range cl.Params {
				if qq == q && k < len(s.g.Call.Args) {
					if p, isP := core.Strip(s.g.Call.Args[k]).(*ssa.Parameter); isP && p.Parent() == s.fn {
						// only a callback that reports a result (func(bool)), not an accessor handed in
						if sig := q.Type().Underlying().(*types.Signature); sig.Results().Len() == 0 {
							return p, q
						}
					}
				}
			}
			continue
		}
		if p, ok := resolveObj(cs.Common().Value).(*ssa.Parameter); ok && p.Parent() == cl.Parent() {
			return p, nil
		}
	}
	return nil, nil
}

// callbackRegistrations: at every call site of `top` (which starts a goroutine that invokes callback cb
// once), the callback argument is a closure that calls WaitGroup.Done exactly once, an Add precedes the
// registration and a Wait on the same WaitGroup dominates the caller's later returns.
func callbackRegistrations(c *ctx, top *ssa.Function, cb *ssa.Parameter) string {
	idx := -1
	for i, p := range top.Params {
		if p == cb {
			idx = i
		}
	}
	bad := ""
	n := 0
	for _, rel := range protoRels {
		for _, f := range c.p.FuncsOfPkg(rel) {
			for _, cs := range core.Calls(f) {
				if core.Callee(cs) != top {
					continue
				}
				n++
				arg := cs.Common().Args[idx]
				mc, ok := core.Strip(arg).(*ssa.MakeClosure)
				if !ok {
					bad += fmt.Sprintf("callback at %s is not a closure (%T %s, idx %d of %d args); ", c.pos(cs), core.Strip(arg), arg.Name(), idx, len(cs.Common().Args))
					continue
				}
				cbf := mc.Fn.(*ssa.Function)
				wg := wgDoneTarget(cbf)
				if wg == nil {
					bad += "callback at " + c.pos(cs) + " does not signal a WaitGroup; "
					continue
				}
				if ok, why := callsOnAllPaths(cbf, func(x ssa.CallInstruction) bool { return isWG(x, "Done") && resolveObj(x.Common().Args[0]) == wg }); !ok {
					bad += "callback at " + c.pos(cs) + ": Done not exactly once (" + why + "); "
				}
				wait := wgWait(f, wg)
				if wait == nil {
					bad += "caller at " + c.pos(cs) + " never waits; "
					continue
				}
				for _, ret := range core.Returns(f) {
					if core.InstrReaches(cs, ret) && !core.InstrDominates(wait, ret) && !errorOnlyReturn(ret) {
						bad += "caller can return at " + c.pos(ret) + " without waiting; "
					}
				}
				// writes of the callback: own slot only
				for _, b := range cbf.Blocks {
					for _, in := range b.Instrs {
						if st, ok := in.(*ssa.Store); ok {
							if ia, ok := st.Addr.(*ssa.IndexAddr); ok {
								if isLocalTo(ia.X, cbf) {
									continue
								}
								if cls := indexClass(resolveObj(ia.Index)); cls != "peer" && !singleAssignedLoopCopy(ia.Index) {
									bad += "callback at " + c.pos(cs) + " writes a shared slot not indexed by its own peer; "
								}
							} else if _, isFV := st.Addr.(*ssa.FreeVar); isFV {
								bad += "callback at " + c.pos(cs) + " writes a captured variable; "
							}
						}
					}
				}
			}
		}
	}
	if n == 0 {
		bad += "no registration site found; "
	}
	return bad
}

// singleAssignedLoopCopy: idx is a captured per-iteration copy (_j := j) of a loop index.
func singleAssignedLoopCopy(idx ssa.Value) bool {
	v := resolveObj(idx)
	if u, ok := v.(*ssa.UnOp); ok && u.Op == token.MUL {
		v = u.X
		if fv, ok := v.(*ssa.FreeVar); ok {
			if b := core.FreeVarBinding(fv); b != nil {
				v = b
			}
		}
	}
	a, ok := v.(*ssa.Alloc)
	if !ok {
		return false
	}
	// allocated inside the loop body (fresh per iteration) and stored once with the loop index
	n := 0
	okIdx := false
	if refs := a.Referrers(); refs != nil {
		for _, in := range *refs {
			if st, ok := in.(*ssa.Store); ok && st.Addr == a {
				n++
				if loopIdx(core.Strip(st.Val)) != nil {
					okIdx = true
				}
			}
		}
	}
	if n != 1 || !okIdx {
		return false
	}
	for _, l := range loopsOf(a.Parent()) {
		if l.In[a.Block()] {
			return true
		}
	}
	return false
}

// errorOnlyReturn: the return hands back a non-nil error (abort path; leaked goroutines there only
// touch their own slots).
func errorOnlyReturn(ret *ssa.Return) bool {
	if len(ret.Results) == 0 {
		return false
	}
	return definitelyNonNil(core.Strip(ret.Results[len(ret.Results)-1]))
}

// closureWrites: every store of the goroutine to captured state targets an element indexed by its
// own per-spawn index; no captured scalar is written; sends go to its own channel or a shared
// buffered channel.
func closureWrites(s *goSite) string {
	bad := ""
	for _, g := range core.WithClosures(s.cl) {
		for _, b := range g.Blocks {
			for _, in := range b.Instrs {
				st, ok := in.(*ssa.Store)
				if !ok {
					continue
				}
				switch a := st.Addr.(type) {
				case *ssa.FreeVar:
					bad += "writes captured variable " + a.Name() + "; "
				case *ssa.IndexAddr:
					if isLocalTo(a.X, s.cl) {
						continue
					}
					if cls := indexClass(resolveObj(a.Index)); cls != "peer" {
						bad += "writes " + descr(a.X) + " at an index that is not its own per-spawn index; "
					}
				case *ssa.FieldAddr:
					if !isLocalTo(a.X, s.cl) {
						bad += "writes field " + core.AsFieldAddr(a).String() + " of shared state; "
					}
				}
			}
		}
	}
	return bad
}

// nestedIn: f is a closure defined (transitively) inside cl — what it allocates is private to one run of cl.
func nestedIn(f, cl *ssa.Function) bool {
	for g := f; g != nil; g = g.Parent() {
		if g == cl {
			return true
		}
	}
	return false
}

func isLocalTo(v ssa.Value, cl *ssa.Function) bool {
	v = core.Strip(v)
	switch x := v.(type) {
	case *ssa.Alloc:
		return x.Parent() == cl || nestedIn(x.Parent(), cl)
	case *ssa.MakeSlice:
		return x.Parent() == cl || nestedIn(x.Parent(), cl)
	case *ssa.FieldAddr:
		return isLocalTo(x.X, cl)
	case *ssa.IndexAddr:
		return isLocalTo(x.X, cl)
	}
	return false
}

func closureWrittenContainers(cl *ssa.Function) []ssa.Value {
	var out []ssa.Value
	seen := map[ssa.Value]bool{}
	for _, b := range cl.Blocks {
		for _, in := range b.Instrs {
			if st, ok := in.(*ssa.Store); ok {
				if ia, ok := st.Addr.(*ssa.IndexAddr); ok && !isLocalTo(ia.X, cl) {
					r := resolveObj(ia.X)
					if !seen[r] {
						seen[r] = true
						out = append(out, r)
					}
				}
			}
		}
	}
	return out
}

// readsOf: loads of elements of container w in fn (not its closures).
func readsOf(fn *ssa.Function, w ssa.Value) []ssa.Instruction {
	var out []ssa.Instruction
	wk := core.TermOf(w).Key()
	for _, b := range fn.Blocks {
		for _, in := range b.Instrs {
			if u, ok := in.(*ssa.UnOp); ok && u.Op == token.MUL {
				if ia, ok := u.X.(*ssa.IndexAddr); ok {
					if resolveObj(ia.X) == w || core.TermOf(ia.X).Key() == wk {
						out = append(out, u)
					}
				}
			}
		}
	}
	return out
}

func inLoopBefore(s *goSite, rd ssa.Instruction) bool { return false }

// reachesAvoiding: is there a path from `from` to `to` that does not enter block `via`?
func reachesAvoiding(from, via, to *ssa.BasicBlock) bool {
	if from == via {
		return false
	}
	seen := map[*ssa.BasicBlock]bool{from: true}
	st := []*ssa.BasicBlock{from}
	for len(st) > 0 {
		b := st[len(st)-1]
		st = st[:len(st)-1]
		for _, s := range b.Succs {
			if s == via || seen[s] {
				continue
			}
			if s == to {
				return true
			}
			seen[s] = true
			st = append(st, s)
		}
	}
	return false
}
