package rules

import (
	"fmt"
	"go/constant"
	"go/types"
	"sort"
	"strings"

	"golang.org/x/tools/go/ssa"

	"tsscheck/internal/core"
)

func init() { Registry["C10"] = runC10 }

func runC10(p *core.Prog, r *core.Report) {
	c := &ctx{p, r}
	r.Explain = "Completeness of honest proofs, structural part: (R10.1) transcript agreement — for each of the nine proof systems the prover's and the verifier's Fiat–Shamir challenge calls use the same hash function (or the same hashing helper), their flattened argument sequences are equal role by role (session tag, statement parameters mapped by API position, curve generator, proof fields — on the prover side the local value later stored in that field), and the challenge is reduced with the same modulus role; (R10.2) codec tables — for every proof with a byte codec, Bytes() position k ↔ field and FromBytes field ↔ bzs[k] are inverse permutations, the array length of Bytes(), the *BytesParts constant and the count enforced by the decoder agree, message constructors put proof.Bytes() into the field the message's Unmarshal* reads back with the matching decoder, ValidateBasic states the same count where it states one; commit/open arities agree three ways (secrets committed + 1 = ValidateBasic count of the decommitment = length tested after DeCommit)."
	r.Undec = "algebraic completeness at witness extremes and the range slack (whether e·m+alpha <= q^3 with overwhelming probability is numeric); components whose encoding is empty because the value is 0 (probability about 1/q per proof); panics of the prover itself on degenerate witnesses."
	r.Assume = []string{"positions of exported function signatures identify statement parameters"}
	c10Transcripts(c)
	c10Codecs(c)
	c10Messages(c)
	c10Commitments(c)
	c10ProverTotality(c)
	c10HashTotality(c)
	c10NoProofMutation(c)
	c10WitnessDomain(c)
}

func c10Transcripts(c *ctx) {
	const rule = "R10.1"
	table := []string{}
	for i := range proofSystems {
		ps := &proofSystems[i]
		pf, vf := ps.proverFn(c, rule), ps.verifyFn(c, rule)
		if pf == nil || vf == nil {
			continue
		}
		key := core.Key(rule, ps.rel, ps.typ, "transcript-agreement")
		pc, vc := challengeCalls(pf), challengeCalls(vf)
		if len(pc) == 0 || len(pc) != len(vc) {
			c.r.Bad(rule, key, c.fpos(vf), fmt.Sprintf("prover has %d challenge computation(s), verifier %d", len(pc), len(vc)))
			continue
		}
		prole, vrole := makeRole(ps, pf, true), makeRole(ps, vf, false)
		bad := ""
		for k := range pc {
			if core.CalleeName(pc[k]) != core.CalleeName(vc[k]) {
				bad += fmt.Sprintf("challenge %d: prover hashes with %s, verifier with %s; ", k, core.CalleeShort(pc[k]), core.CalleeShort(vc[k]))
				continue
			}
			ps1, ex1 := roleSeq(pf, pc[k], prole)
			vs1, ex2 := roleSeq(vf, vc[k], vrole)
			if !ex1 || !ex2 {
				bad += fmt.Sprintf("challenge %d: argument list is not straight-line on one side; ", k)
			}
			table = append(table, fmt.Sprintf("%s #%d %s: %s", ps.name, k, core.CalleeShort(pc[k]), strings.Join(vs1, ", ")))
			if strings.Join(ps1, "|") != strings.Join(vs1, "|") {
				bad += fmt.Sprintf("challenge %d: prover hashes [%s] but verifier hashes [%s]; ", k, strings.Join(ps1, ", "), strings.Join(vs1, ", "))
			}
			// reduction of the challenge
			pr, vr := challengeReduction(pc[k], prole), challengeReduction(vc[k], vrole)
			if pr != vr {
				bad += fmt.Sprintf("challenge %d: reduced as %s by the prover, %s by the verifier; ", k, pr, vr)
			}
		}
		c.r.Check(bad == "", rule, key, c.fpos(vf), "prover and verifier derive the challenge from the same ordered inputs", bad+"an honest proof is rejected (or only verifies by accident)")
	}
	sort.Strings(table)
	c.r.Tables["transcripts"] = table
	c.r.Floor(rule, 8)
}

// challengeReduction: how the hash result is turned into the challenge: "Mod(<role of modulus>)", "bits", or "raw".
func challengeReduction(call *ssa.Call, role func(ssa.Value) string) string {
	refs := call.Referrers()
	if refs == nil {
		return "raw"
	}
	for _, in := range *refs {
		if cs, ok := in.(*ssa.Call); ok {
			if core.CallIs(cs, "~/common.RejectionSample") {
				return "Mod(" + modRole(cs.Call.Args[0], role) + ")"
			}
			if core.CallIs(cs, "(*math/big.Int).Bit") {
				return "bits"
			}
		}
		if _, ok := in.(*ssa.Return); ok {
			return "returned"
		}
	}
	return "raw"
}

func modRole(v ssa.Value, role func(ssa.Value) string) string {
	t := core.TermOf(v)
	if core.IsCurveOrder(t) {
		return "curve-order"
	}
	return role(v)
}

// ---- R10.2 proof codecs -------------------------------------------------------

type codec struct {
	rel, typ, decoder, constName string
}

var codecs = []codec{
	{"crypto/mta", "RangeProofAlice", "RangeProofAliceFromBytes", "RangeProofAliceBytesParts"},
	{"crypto/mta", "ProofBob", "ProofBobFromBytes", "ProofBobBytesParts"},
	{"crypto/mta", "ProofBobWC", "ProofBobWCFromBytes", "ProofBobWCBytesParts"},
	{"crypto/facproof", "ProofFac", "NewProofFromBytes", "ProofFacBytesParts"},
	{"crypto/modproof", "ProofMod", "NewProofFromBytes", "ProofModBytesParts"},
}

func c10Codecs(c *ctx) {
	const rule = "R10.2"
	for _, cd := range codecs {
		enc := c.mustMethod(rule, cd.rel, cd.typ, "Bytes")
		dec := c.mustFunc(rule, cd.rel, cd.decoder)
		if enc == nil || dec == nil {
			continue
		}
		key := core.Key(rule, cd.rel, cd.typ, "codec-agreement")
		k := iterConst(c, cd.rel, cd.constName)
		bad := ""
		// array length of Bytes()
		if arr, ok := enc.Signature.Results().At(0).Type().Underlying().(*types.Array); !ok || arr.Len() != k {
			bad += fmt.Sprintf("Bytes() returns %s but %s = %d; ", enc.Signature.Results().At(0).Type(), cd.constName, k)
		}
		encTab := encoderTable(enc)
		decTab, decCount := decoderTable(dec)
		if decCount != nil {
			okCount := false
			for _, n := range decCount {
				if n == k {
					okCount = true
				}
			}
			if !okCount {
				bad += fmt.Sprintf("the decoder enforces part counts %v, not %d; ", decCount, k)
			}
		} else {
			bad += "the decoder does not enforce a part count; "
		}
		// inverse permutations on the fields both tables know
		var fields []string
		for f := range decTab {
			fields = append(fields, f)
		}
		sort.Strings(fields)
		for _, f := range fields {
			if e, ok := encTab[f]; !ok {
				bad += "field " + f + " is decoded but never encoded; "
			} else if e != decTab[f] {
				bad += fmt.Sprintf("field %s is encoded at %s but decoded from %s; ", f, e, decTab[f])
			}
		}
		for f := range encTab {
			if _, ok := decTab[f]; !ok {
				bad += "field " + f + " is encoded but never decoded; "
			}
		}
		if len(fields) == 0 {
			bad += "decoder table empty; "
		}
		// number of struct fields encoded
		c.r.Check(bad == "", rule, key, c.fpos(dec), fmt.Sprintf("%d parts; position ↔ field agree for %d fields", k, len(fields)), bad)
	}
	// dln proof: Serialize parts = Unmarshal expectations
	ser := c.mustMethod(rule, "crypto/dlnproof", "Proof", "Serialize")
	un := c.mustFunc(rule, "crypto/dlnproof", "UnmarshalDLNProof")
	if ser != nil && un != nil {
		bad := ""
		// Serialize: AddPart(Alpha[:]) then AddPart(T[:])
		var order []string
		for _, cs := range core.Calls(ser) {
			if core.CallIs(cs, "(*~/crypto/commitments.builder).AddPart") {
				order = append(order, descr(cs.Common().Args[1]))
			}
		}
		if strings.Join(order, ",") != "Alpha,T" {
			bad += fmt.Sprintf("Serialize adds parts %v, expected [Alpha T]; ", order)
		}
		// Unmarshal: copy(pf.Alpha[:], parsed[0]); copy(pf.T[:], parsed[1]); len(parsed)==2; copied == Iterations
		var copies []string
		for _, cs := range core.Calls(un) {
			if call, ok := cs.(*ssa.Call); ok {
				if bi, isB := call.Call.Value.(*ssa.Builtin); isB && bi.Name() == "copy" {
					copies = append(copies, descr(call.Call.Args[0])+"<-"+descr(call.Call.Args[1]))
				}
			}
		}
		want := []string{"local:new.Alpha<-ParseSecrets(make)#0[0]", "local:new.T<-ParseSecrets(make)#0[1]"}
		if len(copies) != 2 || !strings.Contains(copies[0], "Alpha") || !strings.HasSuffix(copies[0], "[0]") || !strings.Contains(copies[1], ".T") || !strings.HasSuffix(copies[1], "[1]") {
			bad += fmt.Sprintf("UnmarshalDLNProof copies %v, expected Alpha<-part 0 and T<-part 1 (%v); ", copies, want)
		}
		c.r.Check(bad == "", rule, core.Key(rule, "crypto/dlnproof", "Proof", "codec-agreement"), c.fpos(un), "Serialize = [Alpha…, T…] as two length-prefixed parts; Unmarshal reads part 0 into Alpha, part 1 into T", bad)
	}
	c.r.Floor(rule, 6)
}

// encoderTable: field → "bz[k]" from a Bytes() method that returns an array literal / filled array.
func encoderTable(enc *ssa.Function) map[string]string {
	out := map[string]string{}
	for _, b := range enc.Blocks {
		for _, in := range b.Instrs {
			st, ok := in.(*ssa.Store)
			if !ok {
				continue
			}
			ia, ok := st.Addr.(*ssa.IndexAddr)
			if !ok {
				continue
			}
			call, ok := core.IsCallTo(core.Strip(st.Val), "(*math/big.Int).Bytes")
			if !ok {
				continue
			}
			t := core.TermOf(call.Call.Args[0])
			f := fieldPathName(t)
			if f == "" {
				continue
			}
			out[f] = posExpr(ia.Index)
		}
	}
	// ProofBobWC.Bytes: append(bobBzs[:], U.X().Bytes()), append(…, U.Y().Bytes()) then copy → positions 10, 11 after the embedded 10
	if len(out) == 0 {
		n := int64(0)
		for _, cs := range core.Calls(enc) {
			if call, ok := cs.(*ssa.Call); ok {
				if g := core.Callee(call); g != nil && g.Name() == "Bytes" && isModuleFn(g) {
					if arr, ok := g.Signature.Results().At(0).Type().Underlying().(*types.Array); ok {
						n = arr.Len()
						out["ProofBob"] = fmt.Sprintf("bz[0:%d]", n)
					}
				}
			}
		}
		k := n
		for _, cs := range core.Calls(enc) {
			call, ok := cs.(*ssa.Call)
			if !ok {
				continue
			}
			if bi, isB := call.Call.Value.(*ssa.Builtin); isB && bi.Name() == "append" {
				if segs, ok := core.SeqOf(call.Call.Args[1]); ok && len(segs) == 1 && segs[0].Kind == "elem" {
					if bc, ok := core.IsCallTo(core.Strip(segs[0].V), "(*math/big.Int).Bytes"); ok {
						d := descr(bc.Call.Args[0])
						out[d] = fmt.Sprintf("bz[%d]", k)
						k++
					}
				}
			}
		}
	}
	return out
}

// fieldPathName: "Z", "X[i]" … for a field (element) of the receiver.
func fieldPathName(t *T) string {
	if t.Op == "[]" {
		if n, _ := t.Args[0].Field(); n != "" {
			return n + "[i]"
		}
		return ""
	}
	n, _ := t.Field()
	return n
}

func posExpr(idx ssa.Value) string {
	if k, ok := core.ConstInt(idx); ok {
		return fmt.Sprintf("bz[%d]", k)
	}
	// k + i
	t := core.TermOf(idx)
	if t.Op == "bin+" {
		for i := 0; i < 2; i++ {
			if k, ok := core.TermInt(t.Args[i]); ok {
				return fmt.Sprintf("bz[%d+i]", k)
			}
		}
	}
	return "bz[" + t.Key() + "]"
}

// decoderTable: field → "bz[k]" from a FromBytes function, and the part counts it enforces.
func decoderTable(dec *ssa.Function) (map[string]string, []int64) {
	out := map[string]string{}
	var counts []int64
	for _, cs := range core.Calls(dec) {
		if core.CallIs(cs, "~/common.NonEmptyMultiBytes") {
			if segs, ok := core.SeqOf(cs.Common().Args[1]); ok && len(segs) == 1 {
				if k, isK := core.ConstInt(segs[0].V); isK {
					counts = append(counts, k)
				}
			}
		}
	}
	for _, ret := range core.Returns(dec) {
		if len(ret.Results) == 0 || core.IsNilConst(core.Strip(ret.Results[0])) {
			continue
		}
		for f, v := range storedFields(ret.Results[0]) {
			sv := core.Strip(v)
			// SetBytes(bzs[k])
			if call, ok := core.IsCallTo(sv, "(*math/big.Int).SetBytes"); ok {
				t := core.TermOf(call.Call.Args[1])
				if t.Op == "[]" {
					if k, isK := core.TermInt(t.Args[1]); isK {
						out[f] = fmt.Sprintf("bz[%d]", k)
					}
				}
				continue
			}
			// bis[k] of a converted table
			t := core.TermOf(sv)
			if t.Op == "[]" {
				if k, isK := core.TermInt(t.Args[1]); isK {
					out[f] = fmt.Sprintf("bz[%d]", k)
					continue
				}
			}
			// nested proof from a sibling decoder over the same parts
			if ex, ok := sv.(*ssa.Extract); ok {
				if call, ok := ex.Tuple.(*ssa.Call); ok && core.Callee(call) != nil && isModuleFn(core.Callee(call)) {
					if g := core.Callee(call); strings.HasSuffix(g.Name(), "FromBytes") {
						_, sub := decoderTable(g)
						if len(sub) > 0 {
							out[f] = fmt.Sprintf("bz[0:%d]", sub[0])
						}
						continue
					}
					// point from two coordinates
					if core.CallIs(call, "~/crypto.NewECPoint") {
						for i, suffix := range []string{".X()", ".Y()"} {
							if sb, ok := core.IsCallTo(core.Strip(call.Call.Args[1+i]), "(*math/big.Int).SetBytes"); ok {
								t := core.TermOf(sb.Call.Args[1])
								if t.Op == "[]" {
									if k, isK := core.TermInt(t.Args[1]); isK {
										out[f+suffix] = fmt.Sprintf("bz[%d]", k)
									}
								}
							}
						}
					}
				}
			}
			// array copied from a sub-range: copy(X[:], bis[a:b])
			if u, ok := sv.(*ssa.UnOp); ok {
				if a, isA := u.X.(*ssa.Alloc); isA {
					for _, cs := range core.Calls(dec) {
						if call, ok := cs.(*ssa.Call); ok {
							if bi, isB := call.Call.Value.(*ssa.Builtin); isB && bi.Name() == "copy" {
								if sl, ok := core.Strip(call.Call.Args[0]).(*ssa.Slice); ok && core.Strip(sl.X) == ssa.Value(a) {
									if src, ok := core.Strip(call.Call.Args[1]).(*ssa.Slice); ok && src.Low != nil {
										if k, isK := core.ConstInt(src.Low); isK {
											out[f+"[i]"] = fmt.Sprintf("bz[%d+i]", k)
										}
									}
								}
							}
						}
					}
				}
			}
		}
	}
	return out, counts
}

// ---- message ↔ proof codec wiring ------------------------------------------------

func c10Messages(c *ctx) {
	const rule = "R10.3"
	// encoder/decoder pairs that must be used together
	pairs := map[string]string{
		"(*" + mod + "/crypto/mta.RangeProofAlice).Bytes": mod + "/crypto/mta.RangeProofAliceFromBytes",
		"(*" + mod + "/crypto/mta.ProofBob).Bytes":        mod + "/crypto/mta.ProofBobFromBytes",
		"(*" + mod + "/crypto/mta.ProofBobWC).Bytes":      mod + "/crypto/mta.ProofBobWCFromBytes",
		"(*" + mod + "/crypto/facproof.ProofFac).Bytes":   mod + "/crypto/facproof.NewProofFromBytes",
		"(*" + mod + "/crypto/modproof.ProofMod).Bytes":   mod + "/crypto/modproof.NewProofFromBytes",
		"(*" + mod + "/crypto/dlnproof.Proof).Serialize":  mod + "/crypto/dlnproof.UnmarshalDLNProof",
	}
	partsOf := map[string]int64{
		mod + "/crypto/mta.RangeProofAliceFromBytes": iterConst(c, "crypto/mta", "RangeProofAliceBytesParts"),
		mod + "/crypto/mta.ProofBobFromBytes":        iterConst(c, "crypto/mta", "ProofBobBytesParts"),
		mod + "/crypto/mta.ProofBobWCFromBytes":      iterConst(c, "crypto/mta", "ProofBobWCBytesParts"),
		mod + "/crypto/facproof.NewProofFromBytes":   iterConst(c, "crypto/facproof", "ProofFacBytesParts"),
		mod + "/crypto/modproof.NewProofFromBytes":   iterConst(c, "crypto/modproof", "ProofModBytesParts"),
		mod + "/crypto/dlnproof.UnmarshalDLNProof":   2 + 2*iterConst(c, "crypto/dlnproof", "Iterations"),
	}
	n := 0
	for _, rel := range protoRels {
		pr := ExtractProtocol(c.p, rel)
		for _, ct := range pr.Contents {
			if ct.Ctor == nil {
				continue
			}
			// which encoder fills which field
			var fnames []string
			for f := range ct.Ctor.Fields {
				fnames = append(fnames, f)
			}
			sort.Strings(fnames)
			for _, f := range fnames {
				encName := encoderFeeding(ct.Ctor.Fn, ct.Ctor.Fields[f])
				wantDec, isProof := pairs[encName]
				if !isProof {
					continue
				}
				n++
				key := core.Key(rule, rel, ct.Name, "proof-field:"+f)
				// the Unmarshal method reading this field
				got := ""
				for _, um := range ct.Unmarsh {
					for _, cs := range core.Calls(um) {
						callee := core.CalleeName(cs)
						if _, known := partsOf[callee]; !known {
							continue
						}
						for _, a := range cs.Common().Args {
							if readsField(a, f) {
								got = callee
							}
						}
					}
				}
				bad := ""
				if got == "" {
					bad = "no Unmarshal method decodes field " + f
				} else if got != wantDec {
					bad = fmt.Sprintf("field %s is written with %s but read back with %s", f, shortName(encName), shortName(got))
				}
				// ValidateBasic count where stated
				if ct.Validate != nil && got != "" {
					for _, cs := range core.Calls(ct.Validate) {
						if core.CallIs(cs, "~/common.NonEmptyMultiBytes") && readsField(cs.Common().Args[0], f) {
							if segs, ok := core.SeqOf(cs.Common().Args[1]); ok && len(segs) == 1 {
								if k, isK := core.ConstInt(segs[0].V); isK && k != partsOf[got] {
									bad += fmt.Sprintf("; ValidateBasic demands %d parts for %s but the codec has %d", k, f, partsOf[got])
								}
							}
						}
					}
				}
				c.r.Check(bad == "", rule, key, c.fpos(ct.Ctor.Fn), "written with "+shortName(encName)+", read back with the matching decoder; ValidateBasic count (if stated) agrees", bad)
			}
		}
	}
	c.r.Floor(rule, 11)
	_ = n
}

// encoderFeeding: the full name of the proof encoder whose result flows (through [:] slicing) into v.
func encoderFeeding(fn *ssa.Function, v ssa.Value) string {
	w := core.NewDepWalker(fn, false)
	w.Walk(v)
	for s := range w.SeenSet() {
		if call, ok := s.(*ssa.Call); ok {
			n := core.CalleeName(call)
			if strings.HasSuffix(n, ").Bytes") && strings.Contains(n, mod+"/crypto/") || strings.HasSuffix(n, "dlnproof.Proof).Serialize") {
				return n
			}
		}
	}
	return ""
}

// readsField: v is a load of (or getter for) protobuf field f of the receiver.
func readsField(v ssa.Value, f string) bool {
	v = core.Strip(v)
	if fr := core.AsFieldLoad(v); fr != nil && fr.Name == f {
		return true
	}
	if call, ok := v.(*ssa.Call); ok {
		n := core.CalleeName(call)
		if strings.HasSuffix(n, ").Get"+f) {
			return true
		}
	}
	return false
}

// ---- commit/open arities -------------------------------------------------------------

func c10Commitments(c *ctx) {
	const rule = "R10.4"
	// for every NewHashCommitment call in round code: number of secrets committed; the decommitment is sent in a
	// message whose ValidateBasic count must be secrets+1; the receiving round tests len(opened) == secrets
	type commit struct {
		rel     string
		call    *ssa.Call
		secrets int64
		varLen  bool
	}
	n := 0
	for _, rel := range protoRels {
		pr := ExtractProtocol(c.p, rel)
		for _, rd := range pr.Rounds {
			st := rd.Fns["Start"]
			if st == nil {
				continue
			}
			// the round step and the private helpers it calls synchronously
			var unit []*ssa.Function
			for g := range syncUnit(st) {
				unit = append(unit, g)
			}
			sort.Slice(unit, func(i, j int) bool { return unit[i].Pos() < unit[j].Pos() })
			var cmtCalls []ssa.CallInstruction
			for _, g := range unit {
				cmtCalls = append(cmtCalls, core.CallsTo(g, "~/crypto/commitments.NewHashCommitment")...)
			}
			for _, cs := range cmtCalls {
				call := cs.(*ssa.Call)
				k, okLen := core.LenOf(call.Call.Args[1])
				if !okLen {
					continue // variable-length commitments (VSS coefficient lists): arity is data-dependent
				}
				n++
				// where does cmt.D go? a temp field; find the constructor field it is later sent in and its ValidateBasic count
				dField := ""
				var unitBlocks []*ssa.BasicBlock
				for _, g := range unit {
					unitBlocks = append(unitBlocks, g.Blocks...)
				}
				for _, b := range unitBlocks {
					for _, in := range b.Instrs {
						if s, ok := in.(*ssa.Store); ok {
							if fr := core.AsFieldLoad(s.Val); fr != nil && fr.Name == "D" {
								if fa := core.AsFieldAddr(s.Addr); fa != nil {
									dField = fa.Name
								}
							}
						}
					}
				}
				key := core.Key(rule, rel, rd.Name+".Start", "commit-arity:"+dField)
				bad := ""
				vbCount, openLens := int64(-1), []int64{}
				for _, ct := range pr.Contents {
					if ct.Ctor == nil || ct.Validate == nil {
						continue
					}
					// a send site passing temp.<dField> to this constructor
					uses := false
					for _, r2 := range pr.Rounds {
						for _, s := range r2.Sends {
							if s.Ctor == ct.Ctor && s.Call != nil {
								for _, a := range s.Call.Call.Args {
									if d := descr(a); d == "temp."+dField {
										uses = true
									}
								}
							}
						}
					}
					if !uses {
						continue
					}
					for _, vc := range core.Calls(ct.Validate) {
						if core.CallIs(vc, "~/common.NonEmptyMultiBytes") {
							if d := descr(vc.Common().Args[0]); strings.Contains(d, "DeCommitment") {
								if segs, ok := core.SeqOf(vc.Common().Args[1]); ok && len(segs) == 1 {
									if kk, isK := core.ConstInt(segs[0].V); isK {
										vbCount = kk
									}
								}
							}
						}
					}
					// receiving side: len(values) compared after DeCommit on this message's decommitment
					for _, r2 := range pr.Rounds {
						st2 := r2.Fns["Start"]
						if st2 == nil {
							continue
						}
						for _, g := range core.WithClosures(st2) {
							for _, dc := range core.CallsTo(g, "(*~/crypto/commitments.HashCommitDecommit).DeCommit") {
								dcall := dc.(*ssa.Call)
								sf := storedFields(dcall.Call.Args[0])
								if sf["D"] == nil || !strings.Contains(descr(sf["D"]), pr.StoreTab[ct.Name]) {
									continue
								}
								vals := extractOf(dcall, 1)
								for _, b := range g.Blocks {
									if len(b.Instrs) == 0 {
										continue
									}
									if iff, ok := b.Instrs[len(b.Instrs)-1].(*ssa.If); ok {
										for _, f := range core.CondFacts(iff.Cond, true, iff) {
											if f.Kind == core.FInt {
												for _, pr2 := range [][2]ssa.Value{{f.X, f.Y}, {f.Y, f.X}} {
													if la, ok := lenArg(pr2[0]); ok && core.Strip(la) == vals {
														if kk, isK := core.ConstInt(pr2[1]); isK {
															openLens = append(openLens, kk)
														}
													}
												}
											}
										}
									}
								}
							}
						}
					}
				}
				if vbCount >= 0 && vbCount != k+1 {
					bad += fmt.Sprintf("%d secrets are committed (opening has %d elements) but ValidateBasic demands %d; ", k, k+1, vbCount)
				}
				for _, ol := range openLens {
					if ol != k {
						bad += fmt.Sprintf("%d secrets are committed but the receiver expects %d opened values; ", k, ol)
					}
				}
				if vbCount < 0 && len(openLens) == 0 {
					bad += "neither a ValidateBasic count nor a receiver-side arity test was found for this commitment; "
				}
				c.r.Check(bad == "", rule, key, c.pos(call), fmt.Sprintf("%d secrets committed; ValidateBasic=%d; receiver tests %v", k, vbCount, openLens), bad)
			}
		}
	}
	c.r.Floor(rule, 4)
	_ = constant.MakeInt64
}
