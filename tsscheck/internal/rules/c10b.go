package rules

import (
	"strings"

	"golang.org/x/tools/go/ssa"

	"tsscheck/internal/core"
)

// c10ProverTotality (R10.5): honest provers must not fail on admissible extreme witnesses.
// The curve wrappers ScalarMult/ScalarBaseMult panic when the product is the identity, i.e. when
// the scalar is 0 mod the group order; a witness may legitimately be 0. Every scalar a prover
// multiplies a point by must therefore be blinded: data-dependent on a value sampled inside the
// prover (or be the challenge-derived response, which is blinded by such a sample).
func c10ProverTotality(c *ctx) {
	const rule = "R10.5"
	n := 0
	for i := range proofSystems {
		ps := &proofSystems[i]
		fn := ps.proverFn(c, rule)
		if fn == nil {
			continue
		}
		for _, cs := range core.Calls(fn) {
			var scalar ssa.Value
			switch {
			case core.CallIs(cs, "(*~/crypto.ECPoint).ScalarMult"):
				scalar = cs.Common().Args[1]
			case core.CallIs(cs, "~/crypto.ScalarBaseMult"):
				scalar = cs.Common().Args[1]
			default:
				continue
			}
			n++
			key := fkey(rule, fn, "blinded-scalar:"+core.CalleeShort(cs))
			w := core.NewDepWalker(fn, true)
			w.Walk(scalar)
			sampled := false
			for v := range w.SeenSet() {
				if call, ok := v.(*ssa.Call); ok && strings.Contains(core.CalleeName(call), "common.GetRandom") {
					sampled = true
				}
			}
			c.r.Check(sampled, rule, key, c.pos(cs), "the scalar is (blinded by) a value sampled inside the prover", "the prover multiplies a point by "+descr(scalar)+", which is not blinded by a fresh sample: for the admissible witness value 0 (mod the group order) the curve wrapper panics and no proof is produced")
		}
	}
	c.r.Stats["prover_scalar_mults"] = n
	c.r.Floor(rule, 4)
}

// c10HashTotality (R10.6): the multi-input hash functions return nil only when they are given
// no inputs (or the underlying Write fails); in particular never because of the tag's content.
// A nil challenge makes every prover and verifier that uses it crash in RejectionSample.
func c10HashTotality(c *ctx) {
	const rule = "R10.6"
	for _, name := range []string{"SHA512_256", "SHA512_256i", "SHA512_256i_TAGGED"} {
		fn := c.mustFunc(rule, "common", name)
		if fn == nil {
			continue
		}
		in := fn.Params[len(fn.Params)-1]
		bad := ""
		for _, ret := range core.Returns(fn) {
			if !core.IsNilConst(core.Strip(ret.Results[0])) {
				continue
			}
			facts := core.TFactsAt(ret.Block(), 0)
			empty := core.PossibleIntCmp(facts, func(t *T) bool { return t.Op == "call:len" && t.Args[0].Key() == core.TermOf(in).Key() }, 0) == core.EQ
			writeErr := false
			for _, f := range facts {
				if f.Kind == core.FNil && !f.Bool && f.X != nil && f.X.Op == "extract" {
					writeErr = true
				}
			}
			if !empty && !writeErr {
				bad += "nil is returned at " + c.pos(ret) + " although inputs were given and no write failed; "
			}
		}
		c.r.Check(bad == "", rule, fkey(rule, fn, "nil-only-for-no-input"), c.fpos(fn), "nil only when called with no inputs or on a hash write error", bad+"callers dereference the result (RejectionSample): proving and verifying panic for such inputs (e.g. an empty session tag)")
	}
	c.r.Floor(rule, 3)
}
