package rules

import (
	"fmt"

	"golang.org/x/tools/go/ssa"

	"tsscheck/internal/core"
)

// zeroAdmissibleWitness: prover → indices of witness parameters for which 0 (and every other
// element of Z_q) is an admissible value. Randomisers of Paillier encryptions (units) and prime
// factors are not listed: 0 is not admissible for them.
var zeroAdmissibleWitness = map[string][]int{
	"crypto/schnorr.NewZKProof":  {1},    // x
	"crypto/schnorr.NewZKVProof": {3, 4}, // s, l
	"crypto/mta.ProveRangeAlice": {6},    // m
	"crypto/mta.ProveBobWC":      {8, 9}, // x (Bob's multiplier b), y (beta')
	"crypto/mta.ProveBob":        {8, 9},
}

// c10WitnessDomain (R10.8): an honest prover does not refuse an admissible witness. No error return
// of a prover is guarded by a sign / comparison-with-zero test of a witness parameter whose
// rejecting edge includes the value 0 (`m.Sign() != 1`, `x.Cmp(zero) <= 0`, …): for the true
// statement with witness 0 no proof would be produced (and, in signing, the MtA with b = 0 aborts).
func c10WitnessDomain(c *ctx) {
	const rule = "R10.8"
	for name, idxs := range zeroAdmissibleWitness {
		i := len(name) - 1
		for i >= 0 && name[i] != '.' {
			i--
		}
		fn := c.mustFunc(rule, name[:i], name[i+1:])
		if fn == nil {
			continue
		}
		guards := abortGuards(fn)
		for _, wi := range idxs {
			if wi >= len(fn.Params) {
				c.r.Unk(rule, fkey(rule, fn, fmt.Sprintf("witness#%d", wi)), c.fpos(fn), "parameter index out of range: the prover's signature changed")
				continue
			}
			w := fn.Params[wi]
			key := fkey(rule, fn, "accepts-zero-witness:"+w.Name())
			wt := core.KeyIs(core.TermOf(w))
			bad := ""
			for _, g := range guards {
				b := g.iff.Block()
				facts := core.ExpandFacts(core.CondFacts(g.iff.Cond, g.failing == 0, g.iff), 1)
				constrained := false
				for _, f := range facts {
					if (f.Kind == core.FSign && f.X != nil && wt(f.X)) || (f.Kind == core.FCmp && f.X != nil && f.Y != nil && (wt(f.X) && core.IsZeroTerm(f.Y) || wt(f.Y) && core.IsZeroTerm(f.X))) {
						constrained = true
					}
				}
				if !constrained {
					continue
				}
				if core.PossibleSign(facts, wt)&core.EQ != 0 {
					bad += fmt.Sprintf("the error return guarded at %s is taken for %s = 0; ", c.pos(b.Instrs[len(b.Instrs)-1]), w.Name())
				}
			}
			c.r.Check(bad == "", rule, key, c.fpos(fn), "no error return excludes the witness value 0", bad+"0 is an admissible witness (a true statement): the honest prover must produce a proof for it")
		}
	}
	c.r.Floor(rule, 8)
}

// c10NoProofMutation (R10.7): verifying or encoding a proof does not change it — "accepted, and still
// accepted after serialisation" needs the accepted object to be the one that is serialised. No
// function of the proof packages overwrites a *big.Int it did not allocate (shared effect analysis).
func c10NoProofMutation(c *ctx) {
	noArgMutation(c, "R10.7", "crypto/mta", "crypto/schnorr", "crypto/dlnproof", "crypto/modproof", "crypto/facproof")
	c.r.Floor("R10.7", 30)
}

var _ = ssa.Value(nil)
