package rules

import (
	"fmt"
	"go/constant"
	"go/types"
	"strings"

	"golang.org/x/tools/go/ssa"

	"tsscheck/internal/core"
)

func init() { Registry["C11"] = runC11 }

// reqGuard is one entry of the required-guard inventory of a verifier: the
// orderings in `reject` of Cmp(x,y) (or of Sign(x) when y==nil) must be
// impossible at every accepting return.
type reqGuard struct {
	name   string
	x, y   M
	reject core.Ord
	why    string
}

func inInterval(name string, x, bound M, why string) []reqGuard {
	return []reqGuard{
		{name + "<bound", x, bound, core.EQ | core.GT, why},
		{name + ">=0", x, nil, core.LT, why},
	}
}

func runC11(p *core.Prog, r *core.Report) {
	c := &ctx{p, r}
	r.Explain = "Required-guard inventory of every zero-knowledge verifier and Paillier operation: for each guard named by the property (range bounds q^3/q^7/q^3*sqrt(N0), unit/gcd tests, parity and compositeness of N, trial division, domain guards) the check computes, on the SSA form of /repo's current source, the set of orderings of the guarded comparison still possible at every accepting return (facts from all branch edges every path must traverse, helpers such as IsInInterval/ValidateBasic looked through, counted loops lifted to for-all facts) and requires it to exclude the orderings that must be rejected; every proof field must additionally flow into a rejecting equation or the challenge hash; security constants are read from the type checker."
	r.Undec = "soundness itself (that these guards suffice to reject every false statement) — the inventory is the protocol specification's; the check decides that no guard is missing, weakened, placed after acceptance or compares the wrong value."
	r.Assume = []string{"go/types, go/ssa and go/packages (x/tools v0.29.0) model the program faithfully", "math/big comparison and arithmetic semantics are as documented"}
	c11Guards(c)
	c11Equations(c)
	c11Constants(c)
	c11Paillier(c)
	aliasedInPlaceUpdates(c, "RA.1", "crypto/mta", "crypto/schnorr", "crypto/dlnproof", "crypto/modproof", "crypto/facproof", "crypto/paillier", "common")
}

func checkGuards(c *ctx, rule string, fn *ssa.Function, ri int, guards []reqGuard) {
	if fn == nil {
		return
	}
	blocks := acceptBlocks(fn, ri, true)
	if len(blocks) == 0 {
		c.r.Unk(rule, fkey(rule, fn, "accept-returns"), c.fpos(fn), "no accepting return found")
		return
	}
	for _, g := range guards {
		key := fkey(rule, fn, "guard:"+g.name)
		ok := true
		wit := ""
		for _, b := range blocks {
			facts := core.TFactsAt(b, 3)
			// a returned conjunction contributes its own facts
			ret := b.Instrs[len(b.Instrs)-1].(*ssa.Return)
			if _, isC := core.ConstBool(core.Strip(ret.Results[ri])); !isC {
				facts = append(facts, core.ExpandFacts(core.CondFacts(ret.Results[ri], true, nil), 3)...)
			}
			var possible core.Ord
			if g.y == nil {
				possible = core.PossibleSign(facts, g.x)
			} else {
				possible = core.PossibleCmp(facts, g.x, g.y)
			}
			// for-all facts from counted loops
			if possible&g.reject != 0 {
				for _, ff := range core.ForallFactsAt(b, 3) {
					fs := []core.TFact{ff.TFact}
					var ps core.Ord
					if g.y == nil {
						ps = core.PossibleSign(fs, g.x)
					} else {
						ps = core.PossibleCmp(fs, g.x, g.y)
					}
					if ps != core.Any && loopCoversAll(ff.Loop) {
						possible &= ps
					}
				}
			}
			if possible&g.reject != 0 {
				ok = false
				wit = fmt.Sprintf("at the accepting return %s the orderings %s are still possible; %s must be rejected (%s)", c.pos(ret), possible, g.reject, g.why)
				break
			}
			wit = fmt.Sprintf("possible orderings at accept: %s", possible)
		}
		c.r.Check(ok, rule, key, c.fpos(fn), wit, wit)
	}
}

// loopCoversAll: the loop runs idx from 0 to len(array)/constant bound without skipping.
func loopCoversAll(l *core.Loop) bool {
	return l.Lo == 0 && !l.HiIncl
}

func c11Guards(c *ctx) {
	const rule = "R11.1"
	// --- RangeProofAlice.Verify(pf, ec, pk, NTilde, h1, h2, c)
	if fn := c.mustMethod(rule, "crypto/mta", "RangeProofAlice", "Verify"); fn != nil {
		f := func(n string) M { return fieldOfParam(fn, 0, n) }
		pk, nt := paramIs(fn, 2), paramIs(fn, 3)
		var gs []reqGuard
		gs = append(gs, inInterval("Z", f("Z"), nt, "commitment Z must be a residue mod NTilde")...)
		gs = append(gs, inInterval("U", f("U"), nSquareOf(pk), "U must be a residue mod N^2")...)
		gs = append(gs, inInterval("W", f("W"), nt, "W must be a residue mod NTilde")...)
		gs = append(gs, inInterval("S", f("S"), fieldNOf(pk), "S must be a residue mod N")...)
		gs = append(gs,
			reqGuard{"gcd(Z,NTilde)=1", gcdOf(f("Z"), nt), isOne, core.LT | core.GT, "Z must be a unit mod NTilde"},
			reqGuard{"gcd(U,N^2)=1", gcdOf(f("U"), nSquareOf(pk)), isOne, core.LT | core.GT, "U must be a unit mod N^2"},
			reqGuard{"gcd(W,NTilde)=1", gcdOf(f("W"), nt), isOne, core.LT | core.GT, "W must be a unit mod NTilde"},
			reqGuard{"S1<=q^3", f("S1"), curveOrderPow(3), core.GT, "a plaintext beyond q^3 must be rejected"},
		)
		checkGuards(c, rule, fn, 0, gs)
	}
	// --- ProofBobWC.Verify(pf, Session, ec, pk, NTilde, h1, h2, c1, c2, X)
	if fn := c.mustMethod(rule, "crypto/mta", "ProofBobWC", "Verify"); fn != nil {
		f := func(n string) M { return fieldOfParam(fn, 0, n) }
		pk, nt := paramIs(fn, 3), paramIs(fn, 4)
		var gs []reqGuard
		for _, n := range []string{"Z", "ZPrm", "T", "W"} {
			gs = append(gs, inInterval(n, f(n), nt, n+" must be a residue mod NTilde")...)
			gs = append(gs, reqGuard{"gcd(" + n + ",NTilde)=1", gcdOf(f(n), nt), isOne, core.LT | core.GT, n + " must be a unit mod NTilde"})
		}
		gs = append(gs, inInterval("V", f("V"), nSquareOf(pk), "V must be a residue mod N^2")...)
		gs = append(gs, inInterval("S", f("S"), fieldNOf(pk), "S must be a residue mod N")...)
		gs = append(gs,
			reqGuard{"gcd(V,N^2)=1", gcdOf(f("V"), nSquareOf(pk)), isOne, core.LT | core.GT, "V must be a unit mod N^2"},
			reqGuard{"S!=0", f("S"), isZero, core.EQ, "S must be non-zero"},
			reqGuard{"V!=0", f("V"), isZero, core.EQ, "V must be non-zero"},
			reqGuard{"gcd(S,N)=1", gcdOf(f("S"), fieldNOf(pk)), isOne, core.LT | core.GT, "S must be a unit mod N"},
			reqGuard{"gcd(V,N)=1", gcdOf(f("V"), fieldNOf(pk)), isOne, core.LT | core.GT, "V must be a unit mod N"},
			reqGuard{"S1<=q^3", f("S1"), curveOrderPow(3), core.GT, "a multiplier beyond q^3 must be rejected"},
			reqGuard{"T1<=q^7", f("T1"), curveOrderPow(7), core.GT, "a mask beyond q^7 must be rejected"},
		)
		checkGuards(c, rule, fn, 0, gs)
	}
	// --- ProofBob.Verify delegates to ProofBobWC.Verify
	if fn := c.mustMethod(rule, "crypto/mta", "ProofBob", "Verify"); fn != nil {
		checkDelegation(c, rule, fn, "(*~/crypto/mta.ProofBobWC).Verify")
	}
	// --- ProofFac.Verify(pf, Session, ec, N0, NCap, s, t)
	if fn := c.mustMethod(rule, "crypto/facproof", "ProofFac", "Verify"); fn != nil {
		f := func(n string) M { return fieldOfParam(fn, 0, n) }
		n0 := paramIs(fn, 3)
		bound := func(t *T) bool { // q^3 * floor(sqrt(N0))
			if t.Op != "Mul" || len(t.Args) != 4 {
				return false
			}
			nq, ns := 0, 0
			for _, a := range t.Args {
				if core.IsCurveOrder(a) {
					nq++
				} else if a.Op == "Sqrt" && n0(a.Args[0]) {
					ns++
				}
			}
			return nq == 3 && ns == 1
		}
		gs := []reqGuard{{"N0>0", n0, nil, core.LT | core.EQ, "modulus must be positive"}}
		gs = append(gs, inInterval("Z1", f("Z1"), bound, "a factor far below sqrt(N0) must be rejected: z1 in [0, q^3*sqrt(N0))")...)
		gs = append(gs, inInterval("Z2", f("Z2"), bound, "a factor far below sqrt(N0) must be rejected: z2 in [0, q^3*sqrt(N0))")...)
		checkGuards(c, rule, fn, 0, gs)
	}
	// --- ProofMod.Verify(pf, Session, N)
	if fn := c.mustMethod(rule, "crypto/modproof", "ProofMod", "Verify"); fn != nil {
		f := func(n string) M { return fieldOfParam(fn, 0, n) }
		N := paramIs(fn, 2)
		anyIdx := M(nil)
		gs := []reqGuard{
			{"W>0", f("W"), nil, core.LT | core.EQ, "W in (0,N)"},
			{"W<N", f("W"), N, core.EQ | core.GT, "W in (0,N)"},
			{"gcd(W,N)=1", gcdOf(f("W"), N), isOne, core.LT | core.GT, "W must be a unit"},
			{"Z[i]>0", elemOf(f("Z"), anyIdx), nil, core.LT | core.EQ, "every Z_i in (0,N)"},
			{"Z[i]<N", elemOf(f("Z"), anyIdx), N, core.EQ | core.GT, "every Z_i in (0,N)"},
			{"X[i]>0", elemOf(f("X"), anyIdx), nil, core.LT | core.EQ, "every X_i in (0,N)"},
			{"X[i]<N", elemOf(f("X"), anyIdx), N, core.EQ | core.GT, "every X_i in (0,N)"},
		}
		checkGuards(c, rule, fn, 0, gs)
		checkIntGuards(c, rule, fn, []intGuard{
			{"Jacobi(W,N)!=1", func(t *T) bool { return t.Op == "call:Jacobi" && f("W")(t.Args[0]) && N(t.Args[1]) }, 1, core.EQ, "W must be a quadratic non-residue (Jacobi symbol not 1)"},
			{"bitlen(A)=Iterations+1", func(t *T) bool { return t.Op == "call:BitLen" && f("A")(t.Args[0]) }, iterConst(c, "crypto/modproof", "Iterations") + 1, core.LT | core.GT, "A carries exactly Iterations bits below a fixed top bit"},
			{"bitlen(B)=Iterations+1", func(t *T) bool { return t.Op == "call:BitLen" && f("B")(t.Args[0]) }, iterConst(c, "crypto/modproof", "Iterations") + 1, core.LT | core.GT, "B carries exactly Iterations bits below a fixed top bit"},
			{"N odd", func(t *T) bool { return t.Op == "call:Bit" && N(t.Args[0]) && core.IsZeroTerm(t.Args[1]) }, 0, core.EQ, "an even modulus must be rejected"},
		})
		// N composite: ProbablyPrime(N) must be false at accept
		checkBoolTerm(c, rule, fn, "N not prime", func(t *T) bool { return t.Op == "call:ProbablyPrime" && N(t.Args[0]) }, false, "a prime modulus must be rejected")
	}
	// --- dlnproof.Proof.Verify(p, h1, h2, N)
	if fn := c.mustMethod(rule, "crypto/dlnproof", "Proof", "Verify"); fn != nil {
		f := func(n string) M { return fieldOfParam(fn, 0, n) }
		h1, h2, N := paramIs(fn, 1), paramIs(fn, 2), paramIs(fn, 3)
		gs := []reqGuard{
			{"N>0", N, nil, core.LT | core.EQ, "modulus must be positive"},
			{"h1 mod N>1", modOf(h1, N), isOne, core.LT | core.EQ, "h1 must not be 0 or 1 mod N"},
			{"h2 mod N>1", modOf(h2, N), isOne, core.LT | core.EQ, "h2 must not be 0 or 1 mod N"},
			{"h1!=h2", modOf(h1, N), modOf(h2, N), core.EQ, "h1 and h2 must differ mod N"},
			{"T[i] mod N>1", modOf(elemOf(f("T"), nil), N), isOne, core.LT | core.EQ, "every t_i must not be 0 or 1 mod N"},
			{"Alpha[i] mod N>1", modOf(elemOf(f("Alpha"), nil), N), isOne, core.LT | core.EQ, "every alpha_i must not be 0 or 1 mod N"},
		}
		checkGuards(c, rule, fn, 0, gs)
	}
	c.r.Floor(rule, 59)
}

type intGuard struct {
	name   string
	x      M
	k      int64
	reject core.Ord
	why    string
}

func iterConst(c *ctx, rel, name string) int64 {
	sp := c.p.Pkg(rel)
	if sp == nil {
		return -1
	}
	if k, ok := sp.Members[name].(*ssa.NamedConst); ok {
		if v, ok := constant.Int64Val(k.Value.Value); ok {
			return v
		}
	}
	return -1
}

// checkIntGuards: machine-integer facts x ? k at every accepting return.
func checkIntGuards(c *ctx, rule string, fn *ssa.Function, gs []intGuard) {
	blocks := acceptBlocks(fn, 0, true)
	for _, g := range gs {
		key := fkey(rule, fn, "guard:"+g.name)
		ok := len(blocks) > 0
		why := ""
		for _, b := range blocks {
			possible := core.Any
			for _, f := range core.TFactsAt(b, 3) {
				if f.Kind != core.FInt || f.X == nil || f.Y == nil {
					continue
				}
				if g.x(f.X) {
					if k, isK := core.TermInt(f.Y); isK && k == g.k {
						possible &= f.Ord
					}
				} else if g.x(f.Y) {
					if k, isK := core.TermInt(f.X); isK && k == g.k {
						possible &= f.Ord.Flip()
					}
				}
			}
			if possible&g.reject != 0 {
				ok = false
				why = fmt.Sprintf("at the accepting return in block %d orderings %s (vs %d) remain possible; %s must be rejected (%s)", b.Index, possible, g.k, g.reject, g.why)
			}
		}
		c.r.Check(ok, rule, key, c.fpos(fn), "integer guard dominates every accepting return", why)
	}
}

// checkBoolTerm: a call-valued boolean (e.g. N.ProbablyPrime(30)) must have value want at accept.
func checkBoolTerm(c *ctx, rule string, fn *ssa.Function, name string, m M, want bool, why string) {
	key := fkey(rule, fn, "guard:"+name)
	ok := false
	blocks := acceptBlocks(fn, 0, true)
	for _, b := range blocks {
		ok = false
		for _, f := range core.FactsAt(b) {
			if f.Kind == core.FCall && f.Bool == want {
				if m(core.TermOf(f.X)) {
					ok = true
				}
			}
		}
		if !ok {
			break
		}
	}
	c.r.Check(ok, rule, key, c.fpos(fn), "boolean guard dominates every accepting return", "no dominating guard: "+why)
}

// checkDelegation: every accepting return of fn is dominated by (or returns) a true result of the named verifier.
func checkDelegation(c *ctx, rule string, fn *ssa.Function, callee string) {
	key := fkey(rule, fn, "delegates:"+callee)
	ok := true
	n := 0
	for _, ret := range core.Returns(fn) {
		res := core.Strip(ret.Results[0])
		if b, isC := core.ConstBool(res); isC {
			if b {
				ok = false
			}
			continue
		}
		n++
		if _, is := core.IsCallTo(res, callee); !is {
			if _, has := core.HasCallFact(core.TFactsAt(ret.Block(), 0), true, callee); !has {
				ok = false
			}
		}
	}
	c.r.Check(ok && n > 0, rule, key, c.fpos(fn), "result is the callee's result", "an accepting return is not the result of "+callee)
}

// ---- R11.2 equations --------------------------------------------------------

// equation: an equality guard whose both sides' term dependency set must cover `need`.
type eqSpec struct {
	name string
	need []string // field names of the receiver / "param:<i>" / "challenge"
}

func c11Equations(c *ctx) {
	const rule = "R11.2"
	type vspec struct {
		rel, typ string
		eqs      []eqSpec
		fields   []string // every proof field must be covered by some equation or the challenge hash
	}
	specs := []vspec{
		{"crypto/mta", "RangeProofAlice", []eqSpec{
			{"u=Gamma^s1*s^N*c^-e", []string{"U", "S", "S1", "challenge", "param:6"}},
			{"w=h1^s1*h2^s2*z^-e", []string{"W", "Z", "S1", "S2", "challenge", "param:4", "param:5", "param:3"}},
		}, []string{"Z", "U", "W", "S", "S1", "S2"}},
		{"crypto/mta", "ProofBobWC", []eqSpec{
			{"h1^s1*h2^s2=z^e*z'", []string{"Z", "ZPrm", "S1", "S2", "challenge"}},
			{"h1^t1*h2^t2=t^e*w", []string{"T", "W", "T1", "T2", "challenge"}},
			{"c1^s1*s^N*Gamma^t1=c2^e*v", []string{"V", "S", "S1", "T1", "challenge", "param:7", "param:8"}},
		}, []string{"Z", "ZPrm", "T", "V", "W", "S", "S1", "S2", "T1", "T2", "U"}},
		{"crypto/facproof", "ProofFac", []eqSpec{
			{"s^z1*t^w1=A*P^e", []string{"P", "A", "Z1", "W1", "challenge"}},
			{"s^z2*t^w2=B*Q^e", []string{"Q", "B", "Z2", "W2", "challenge"}},
			{"Q^z1*t^v=T*R^e", []string{"Q", "T", "Z1", "V", "Sigma", "challenge", "param:3"}},
		}, []string{"P", "Q", "A", "B", "T", "Sigma", "Z1", "Z2", "W1", "W2", "V"}},
		{"crypto/schnorr", "ZKProof", []eqSpec{
			{"t*G=alpha+c*X", []string{"Alpha", "T", "challenge", "param:2"}},
		}, []string{"Alpha", "T"}},
		{"crypto/schnorr", "ZKVProof", []eqSpec{
			{"t*R+u*G=alpha+c*V", []string{"Alpha", "T", "U", "challenge", "param:2", "param:3"}},
		}, []string{"Alpha", "T", "U"}},
		{"crypto/dlnproof", "Proof", []eqSpec{
			{"h1^t_i=alpha_i*h2^c_i", []string{"T", "Alpha", "challenge", "param:1", "param:2"}},
		}, []string{"Alpha", "T"}},
		{"crypto/modproof", "ProofMod", []eqSpec{
			{"z_i^N=y_i", []string{"Z", "challenge", "param:2"}},
			{"x_i^4=(-1)^a*w^b*y_i", []string{"X", "A", "B", "W", "challenge"}},
		}, []string{"W", "X", "A", "B", "Z"}},
	}
	for _, s := range specs {
		fn := c.mustMethod(rule, s.rel, s.typ, "Verify")
		if fn == nil {
			continue
		}
		eqs := collectEquations(c, fn)
		covered := map[string]bool{}
		for _, e := range eqs {
			for d := range e.deps {
				covered[d] = true
			}
		}
		for _, spec := range s.eqs {
			key := fkey(rule, fn, "equation:"+spec.name)
			found := false
			var best string
			for _, e := range eqs {
				if e.strength == "conditional" {
					continue
				}
				missing := ""
				for _, n := range spec.need {
					if !e.deps[n] {
						missing += " " + n
					}
				}
				if missing == "" {
					found = true
					best = fmt.Sprintf("%s equality guard at %s depends on %v", e.strength, c.p.Pos(e.pos), keys(e.deps))
					break
				}
			}
			seen := ""
			for _, e := range eqs {
				seen += fmt.Sprintf(" [%s %v]", e.strength, keys(e.deps))
			}
			c.r.Check(found, rule, key, c.fpos(fn), best, fmt.Sprintf("no rejecting equality guard dominating acceptance depends on all of %v (equations found: %d:%s)", spec.need, len(eqs), seen))
		}
		// every field constrained by an equation (or hashed into the challenge, which the equations use)
		hashed := challengeInputs(fn)
		for _, fld := range s.fields {
			key := fkey(rule, fn, "field-constrained:"+fld)
			ok := covered[fld] || (hashed[fld] && covered["challenge"])
			c.r.Check(ok, rule, key, c.fpos(fn), "field reaches an equation guard or the challenge", "proof field "+fld+" reaches neither an equation guard nor the challenge hash: it is unconstrained (malleable)")
		}
	}
	// paillier.Proof.Verify: y_i^N = x_i mod N for all i, x from GenerateXs(…, pkN, …)
	if fn := c.mustMethod(rule, "crypto/paillier", "Proof", "Verify"); fn != nil {
		c11PaillierProofEq(c, rule, fn)
	}
	c.r.Floor(rule, 56)
}

func keys(m map[string]bool) []string {
	var out []string
	for k := range m {
		out = append(out, k)
	}
	sortStrings(out)
	return out
}

// paillier.Proof.Verify(pf, pkN, k, ecdsaPub)
func c11PaillierProofEq(c *ctx, rule string, fn *ssa.Function) {
	eqs := collectEquations(c, fn)
	// the N-th root equation: depends on the proof elements (receiver), pkN (param 1) and the
	// challenge values derived from (k, pkN, ecdsaPub)
	found := false
	wit := ""
	for _, e := range eqs {
		d := core.DepsOf(fn, false, e.x, e.y)
		if d["param:0"] && d["param:1"] && d["param:2"] && d["param:3"] {
			found = true
			wit = fmt.Sprintf("equality guard at %s depends on proof, pkN, k, ecdsaPub", c.p.Pos(e.pos))
		}
	}
	seenDeps := ""
	for _, e := range eqs {
		seenDeps += fmt.Sprintf(" %v", keys(core.DepsOf(fn, false, e.x, e.y)))
	}
	c.r.Check(found, rule, fkey(rule, fn, "equation:y_i^N=x_i mod N"), c.fpos(fn), wit, "no rejecting equality guard depends on the proof elements, pkN and the derived challenges; equality guards found depend on:"+seenDeps)
	// trial division: a closure sends false when pkN mod prm == 0 for prm over primes.Until(verifyPrimesUntil)
	td := false
	for _, g := range unitFuncs(fn) {
		if g == fn {
			continue
		}
		for _, b := range g.Blocks {
			if len(b.Instrs) == 0 {
				continue
			}
			iff, ok := b.Instrs[len(b.Instrs)-1].(*ssa.If)
			if !ok {
				continue
			}
			for _, f := range core.CondFacts(iff.Cond, true, iff) {
				if f.Kind == core.FCmp && f.Ord == core.EQ {
					x, y := core.TermOf(f.X), core.TermOf(f.Y)
					if x.Op == "Mod" && core.IsZeroTerm(y) {
						d := core.DepsOf(fn, false, f.X)
						// true edge must send false
						sendsFalse := false
						for _, in := range b.Succs[0].Instrs {
							if s, ok := in.(*ssa.Send); ok {
								if v, isC := core.ConstBool(core.Strip(s.X)); isC && !v {
									sendsFalse = true
								}
							}
						}
						// the divisors are the primes below the bound, as produced by the primes library
						fromLib := false
						w := core.NewDepWalker(fn, false)
						w.Walk(f.X)
						for v := range w.SeenSet() {
							if call, isC := v.(*ssa.Call); isC && strings.HasSuffix(core.CalleeName(call), "otiai10/primes.Until") {
								if k, isK := core.ConstInt(core.Strip(call.Call.Args[0])); isK && k >= 1000 {
									fromLib = true
								}
							}
						}
						if d["param:1"] && sendsFalse && fromLib {
							td = true
						}
					}
				}
			}
		}
	}
	c.r.Check(td, rule, fkey(rule, fn, "trial-division"), c.fpos(fn), "divisibility by a small prime makes the trial-division goroutine report false", "no trial-division guard `pkN mod prm == 0 → reject` over primes.Until(bound >= 1000) found: the modulus is not tried against every prime below the bound (a hand-written prime list cannot be judged here and is reported)")
	// the consumer rejects on a false from the trial-division channel and compares every x_i
	c.r.Check(selectJoinOK(fn), rule, fkey(rule, fn, "select-join"), c.fpos(fn), "the accepting return is reached only after one receive per producer channel", "the select loop does not receive once per producer channel before accepting")
}

// selectJoinOK: fn's accept is dominated by the exit of a counted loop with K
// iterations whose body is a select over K distinct channels, each of which has
// exactly one producer goroutine sending exactly once.
func selectJoinOK(fn *ssa.Function) bool {
	accept := acceptBlocks(fn, 0, true)
	for _, l := range core.Loops(fn) {
		k, ok := core.ConstInt(l.Hi)
		if !ok || l.Lo != 0 || l.HiIncl {
			continue
		}
		dom := true
		for _, t := range accept {
			if !core.EdgeDominates(l.Header, 1, t) {
				dom = false
			}
		}
		if !dom {
			continue
		}
		for b := range l.In {
			for _, in := range b.Instrs {
				if sel, ok := in.(*ssa.Select); ok && sel.Blocking {
					chans := map[*ssa.MakeChan]bool{}
					for _, st := range sel.States {
						if mk := core.ChanMake(st.Chan); mk != nil {
							chans[mk] = true
						}
					}
					if int64(len(chans)) == k && len(sel.States) == len(chans) {
						// each channel: exactly one go closure sending on it, once per path
						okAll := true
						for mk := range chans {
							if countProducers(fn, mk) != 1 {
								okAll = false
							}
						}
						if okAll {
							return true
						}
					}
				}
			}
		}
	}
	return false
}

func countProducers(fn *ssa.Function, mk *ssa.MakeChan) int {
	n := 0
	for _, g := range unitFuncs(fn) {
		if g == fn {
			continue
		}
		sends := 0
		for _, b := range g.Blocks {
			for _, in := range b.Instrs {
				if s, ok := in.(*ssa.Send); ok && core.ChanMake(s.Chan) == mk {
					sends++
					if _, isRet := b.Instrs[len(b.Instrs)-1].(*ssa.Return); !isRet {
						// a send not followed by return in the same block: accept only if it is the last instruction before fallthrough to return
						if len(b.Succs) != 1 || len(b.Succs[0].Instrs) != 1 {
							return 99
						}
					}
				}
			}
		}
		if sends > 0 {
			n++
		}
	}
	return n
}

// ---- R11.3 constants --------------------------------------------------------

func c11Constants(c *ctx) {
	const rule = "R11.3"
	type kc struct {
		rel, name string
		min       int64
		why       string
	}
	for _, k := range []kc{
		{"crypto/modproof", "Iterations", 80, "soundness error 2^-80 of the Paillier-Blum proof"},
		{"crypto/dlnproof", "Iterations", 128, "soundness error 2^-128 of the discrete-log proof"},
		{"crypto/paillier", "ProofIters", 13, "GG18 Paillier key proof iterations"},
		{"crypto/paillier", "verifyPrimesUntil", 1000, "trial division bound of the Paillier key proof"},
		{"ecdsa/keygen", "paillierModulusLen", 2048, "Paillier modulus length required of peers"},
	} {
		v := iterConst(c, k.rel, k.name)
		key := core.Key(rule, k.rel, "const", k.name)
		c.r.Check(v >= k.min, rule, key, k.rel, fmt.Sprintf("%s = %d ≥ %d", k.name, v, k.min), fmt.Sprintf("%s = %d, required ≥ %d (%s)", k.name, v, k.min, k.why))
	}
	// the proof array lengths are the iteration constants (type facts)
	for _, a := range []struct{ rel, typ, field, konst string }{
		{"crypto/modproof", "ProofMod", "X", "Iterations"}, {"crypto/modproof", "ProofMod", "Z", "Iterations"},
		{"crypto/dlnproof", "Proof", "Alpha", "Iterations"}, {"crypto/dlnproof", "Proof", "T", "Iterations"},
	} {
		key := core.Key(rule, a.rel, a.typ, "len("+a.field+")="+a.konst)
		nt := c.p.NamedType(a.rel, a.typ)
		ok := false
		if nt != nil {
			if st, isS := nt.Underlying().(*types.Struct); isS {
				for i := 0; i < st.NumFields(); i++ {
					if st.Field(i).Name() == a.field {
						if arr, isA := st.Field(i).Type().(*types.Array); isA && arr.Len() == iterConst(c, a.rel, a.konst) {
							ok = true
						}
					}
				}
			}
		}
		c.r.Check(ok, rule, key, a.rel, "array length equals the iteration constant", "the repeated part's array length is not the iteration constant")
	}
	// the verifiers' loops run over all iterations: dln equation loop bound and modproof spawn loop bound
	if fn := c.p.Method("crypto/dlnproof", "Proof", "Verify"); fn != nil {
		ok := false
		for _, e := range collectEquations(c, fn) {
			if e.strength == "forall" {
				for _, l := range core.Loops(fn) {
					if l.In[e.iff.Block()] {
						if k, isK := core.ConstInt(l.Hi); isK && k == iterConst(c, "crypto/dlnproof", "Iterations") && l.Lo == 0 {
							ok = true
						}
					}
				}
			}
		}
		c.r.Check(ok, rule, fkey(rule, fn, "equation-loop-bound"), c.fpos(fn), "the equation loop covers [0,Iterations)", "the equation loop does not cover all Iterations rounds")
	}
	if fn := c.p.Method("crypto/modproof", "ProofMod", "Verify"); fn != nil {
		ok := false
		for _, l := range core.Loops(fn) {
			hasGo := false
			for b := range l.In {
				for _, in := range b.Instrs {
					if _, isGo := in.(*ssa.Go); isGo {
						hasGo = true
					}
				}
			}
			if hasGo {
				if k, isK := core.ConstInt(l.Hi); isK && k == iterConst(c, "crypto/modproof", "Iterations") && l.Lo == 0 && !l.HiIncl {
					ok = true
				}
			}
		}
		c.r.Check(ok, rule, fkey(rule, fn, "spawn-loop-bound"), c.fpos(fn), "the per-iteration checks are spawned for [0,Iterations)", "the per-iteration checks do not cover all Iterations rounds")
	}
	c.r.Floor(rule, 11)
}

// ---- R11.4 Paillier domain guards --------------------------------------------

func c11Paillier(c *ctx) {
	const rule = "R11.4"
	type spec struct {
		method string
		typ    string
		errIdx int
		guards func(fn *ssa.Function) []reqGuard
	}
	pkOf := func(fn *ssa.Function) M {
		recv := paramTerm(fn, 0)
		return func(t *T) bool {
			// publicKey itself, or privateKey.PublicKey (embedded value)
			if t.Key() == recv.Key() {
				return true
			}
			n, b := t.Field()
			return n == "PublicKey" && b.Key() == recv.Key()
		}
	}
	nOf := func(fn *ssa.Function) M {
		recv := paramTerm(fn, 0)
		return func(t *T) bool { return core.IsFieldOf(t, recv, "N") }
	}
	specs := []spec{
		{"EncryptAndReturnRandomness", "PublicKey", 2, func(fn *ssa.Function) []reqGuard {
			return inInterval("m", paramIs(fn, 2), nOf(fn), "plaintext must be in [0,N)")
		}},
		{"HomoMult", "PublicKey", 1, func(fn *ssa.Function) []reqGuard {
			g := inInterval("m", paramIs(fn, 1), nOf(fn), "scalar must be in [0,N)")
			return append(g, inInterval("c1", paramIs(fn, 2), nSquareOf(pkOf(fn)), "ciphertext must be in [0,N^2)")...)
		}},
		{"HomoAdd", "PublicKey", 1, func(fn *ssa.Function) []reqGuard {
			g := inInterval("c1", paramIs(fn, 1), nSquareOf(pkOf(fn)), "ciphertext must be in [0,N^2)")
			return append(g, inInterval("c2", paramIs(fn, 2), nSquareOf(pkOf(fn)), "ciphertext must be in [0,N^2)")...)
		}},
		{"Decrypt", "PrivateKey", 1, func(fn *ssa.Function) []reqGuard {
			g := inInterval("c", paramIs(fn, 1), nSquareOf(pkOf(fn)), "ciphertext must be in [0,N^2)")
			return append(g, reqGuard{"gcd(c,N^2)<=1", gcdOf(paramIs(fn, 1), nSquareOf(pkOf(fn))), isOne, core.GT, "a ciphertext sharing a factor with N must be refused"})
		}},
	}
	for _, s := range specs {
		fn := c.mustMethod(rule, "crypto/paillier", s.typ, s.method)
		if fn == nil {
			continue
		}
		blocks := nilErrReturnBlocks(fn, s.errIdx)
		for _, g := range s.guards(fn) {
			key := fkey(rule, fn, "guard:"+g.name)
			ok := len(blocks) > 0
			why := ""
			for _, b := range blocks {
				facts := core.TFactsAt(b, 3)
				var possible core.Ord
				if g.y == nil {
					possible = core.PossibleSign(facts, g.x)
				} else {
					possible = core.PossibleCmp(facts, g.x, g.y)
				}
				if possible&g.reject != 0 {
					ok = false
					why = fmt.Sprintf("a non-error return is reachable with orderings %s; %s must be refused (%s)", possible, g.reject, g.why)
				}
			}
			c.r.Check(ok, rule, key, c.fpos(fn), "domain guard dominates every non-error return", why)
		}
	}
	c.r.Floor(rule, 13)
}
