package rules

import (
	"fmt"
	"strings"

	"golang.org/x/tools/go/ssa"

	"tsscheck/internal/core"
)

func init() { Registry["C12"] = runC12 }

func runC12(p *core.Prog, r *core.Report) {
	c := &ctx{p, r}
	r.Explain = "Fiat–Shamir binding of the nine proof systems: (R12.1) in every prover each field of the returned proof that is not data-dependent on the challenge is a first-move commitment and must flow into the challenge hash (directly or through a hashing helper); (R12.2) in every verifier the challenge feeding the equation guards comes from a hash call, and that hash receives every commitment field and every statement parameter (frozen, reasoned exemptions only); (R12.3) provers/verifiers with a session parameter pass exactly it as the tag of the tagged hash and use no untagged hash; (R12.4) every prover/verifier call in round code receives ssid‖index with a role-consistent index, and getSSID hashes the party key list, round number and nonce; (R12.5) no proof field is ignored by its verifier; (R12.6) no hash-input buffer is built with a statically truncating copy; (R16.3, shared) the tagged hash writes H(tag) twice ahead of the framed data."
	r.Undec = "collision resistance of SHA-512/256 and the random-oracle argument that turns hashed commitments into non-malleability; algebraic equivalence of components inside the group they live in."
	r.Assume = []string{"data dependence is computed on go/ssa with library hash calls treated as depending on all their arguments"}
	c12Provers(c, 40)
	c12Verifiers(c, 40)
	c12Tags(c)
	c12Contexts(c)
	c12NoTruncation(c)
	c16Tagged(c, "R16.3")
}

func c12Provers(c *ctx, floor int, only ...string) {
	const rule = "R12.1"
	for i := range proofSystems {
		ps := &proofSystems[i]
		if !psSelected(ps, only) {
			continue
		}
		fn := ps.proverFn(c, rule)
		if fn == nil {
			continue
		}
		fields := proofFieldValues(fn)
		if len(fields) == 0 {
			c.r.Unk(rule, fkey(rule, fn, "proof-fields"), c.fpos(fn), "cannot find the fields of the returned proof")
			continue
		}
		hw := core.HashInputWalker(fn, 3)
		for _, name := range keysV(fields) {
			v := fields[name]
			key := fkey(rule, fn, "field:"+name)
			d := core.DepsOf(fn, true, v)
			if d["challenge"] {
				c.r.Triv(rule, key, c.fpos(fn), "response: depends on the challenge")
				continue
			}
			// first-move commitment: must reach the hash
			cv := coreValue(v)
			if hw.Seen(cv) || hw.Seen(core.Strip(v)) {
				c.r.OK(rule, key, c.fpos(fn), "commitment: flows into the challenge hash")
				continue
			}
			if ps.name == "bob-wc" && name == "U" && proveBobDiscardsU(c) {
				// handled below: only reachable when the hash includes it
			}
			c.r.Bad(rule, key, c.fpos(fn), "first-move commitment "+name+" (independent of the challenge) does not flow into the challenge hash: the prover can choose it after seeing the challenge, and shifting it together with a response goes unnoticed")
		}
	}
	c.r.Floor(rule, floor)
}

func psSelected(ps *proofSys, only []string) bool {
	if len(only) == 0 {
		return true
	}
	for _, n := range only {
		if n == ps.name {
			return true
		}
	}
	return false
}

func keysV(m map[string]ssa.Value) []string {
	var out []string
	for k := range m {
		out = append(out, k)
	}
	sortStrings(out)
	return out
}

// proveBobDiscardsU: ProveBob returns only the embedded ProofBob of ProveBobWC(…, X=nil, …).
func proveBobDiscardsU(c *ctx) bool {
	fn := c.p.Func("crypto/mta", "ProveBob")
	if fn == nil {
		return false
	}
	calls := core.CallsTo(fn, "~/crypto/mta.ProveBobWC")
	if len(calls) != 1 {
		return false
	}
	return core.IsNilConst(core.Strip(calls[0].Common().Args[11]))
}

func c12Verifiers(c *ctx, floor int, only ...string) {
	const rule = "R12.2"
	for i := range proofSystems {
		ps := &proofSystems[i]
		if !psSelected(ps, only) {
			continue
		}
		vf := ps.verifyFn(c, rule)
		pf := ps.proverFn(c, rule)
		if vf == nil || pf == nil {
			continue
		}
		hashed := core.HashInputs(vf, 3)
		// commitments as classified on the prover side
		fields := proofFieldValues(pf)
		for _, name := range keysV(fields) {
			if core.DepsOf(pf, true, fields[name])["challenge"] {
				continue
			}
			key := fkey(rule, vf, "hashes-commitment:"+name)
			want := name
			if name == "[]" {
				want = "param:0"
			}
			c.r.Check(hashed[want], rule, key, c.fpos(vf), "the verifier's challenge hash receives commitment "+name, "the verifier's challenge hash does not receive commitment "+name+" (hash inputs: "+fmt.Sprint(keys(hashed))+")")
		}
		// paillier.Proof: all elements are responses; statement only
		for _, sp := range ps.verStmt {
			key := fkey(rule, vf, fmt.Sprintf("hashes-statement:param%d", sp))
			c.r.Check(hashed[fmt.Sprintf("param:%d", sp)], rule, key, c.fpos(vf), fmt.Sprintf("statement parameter #%d (%s) is hashed", sp, vf.Params[sp].Name()), fmt.Sprintf("statement parameter #%d (%s) does not flow into the challenge hash: a proof for one statement verifies for another", sp, vf.Params[sp].Name()))
		}
		for sp, why := range ps.exempt {
			c.r.Note("%s.Verify parameter #%d is not required in the hash: %s", ps.typ, sp, why)
		}
		// the challenge used by the equations is recomputed: equation guards depend on "challenge"
		// and never on a proof field named like a challenge; covered by R11.2 equation specs (shared run)
		eqs := collectEquations(c, vf)
		n := 0
		for _, e := range eqs {
			// paillier.Proof.Verify joins its two producers through a select loop (decided by R11.2 select-join)
			if (e.strength != "conditional" || ps.name == "paillier-key") && e.deps["challenge"] {
				n++
			}
		}
		c.r.Check(n > 0, rule, fkey(rule, vf, "challenge-recomputed"), c.fpos(vf), fmt.Sprintf("%d unconditional equation guards use a challenge recomputed by hashing", n), "no unconditional equation guard uses a recomputed challenge")
	}
	// ProofBob.Verify / ProveBob delegate (no separate transcript)
	if fn := c.mustMethod(rule, "crypto/mta", "ProofBob", "Verify"); fn != nil {
		checkDelegation(c, rule, fn, "(*~/crypto/mta.ProofBobWC).Verify")
	}
	c.r.Floor(rule, floor)
}

// tagOK: every tagged hash call reachable from fn (depth 2) has as tag exactly fn's session parameter.
func c12Tags(c *ctx) {
	const rule = "R12.3"
	for i := range proofSystems {
		ps := &proofSystems[i]
		for side, fn := range map[string]*ssa.Function{"prover": ps.proverFn(c, rule), "verifier": ps.verifyFn(c, rule)} {
			if fn == nil {
				continue
			}
			sess := ps.proverSess
			if side == "verifier" {
				sess = ps.verSess
			}
			key := fkey(rule, fn, "session-is-tag")
			if sess < 0 {
				c.r.Note("%s %s has no session parameter at API level: prover binding comes from the hashed statement (own modulus / key), R12.2", ps.name, side)
				continue
			}
			tagged, untagged, bad := 0, 0, ""
			var visit func(g *ssa.Function, bind map[int]ssa.Value, depth int)
			visit = func(g *ssa.Function, bind map[int]ssa.Value, depth int) {
				for _, h := range core.WithClosures(g) {
					for _, cs := range core.Calls(h) {
						if core.CallIs(cs, "~/common.SHA512_256i_TAGGED") {
							tagged++
							d := core.DepsOf(g, false, cs.Common().Args[0])
							// translate to fn's frame
							okTag := false
							if g == fn {
								okTag = len(d) == 1 && d[fmt.Sprintf("param:%d", sess)]
							} else {
								okTag = len(d) == 1
								for k := range d {
									var pi int
									if _, err := fmt.Sscanf(k, "param:%d", &pi); err != nil || bind[pi] == nil {
										okTag = false
										continue
									}
									dd := core.DepsOf(fn, false, bind[pi])
									if !(len(dd) == 1 && dd[fmt.Sprintf("param:%d", sess)]) {
										okTag = false
									}
								}
							}
							if !okTag {
								bad += fmt.Sprintf("tag of the hash at %s is not exactly the session parameter; ", c.pos(cs))
							}
						} else if core.CallIs(cs, "~/common.SHA512_256i", "~/common.SHA512_256", "~/common.SHA512_256iOne") {
							untagged++
							bad += fmt.Sprintf("untagged hash at %s in a session-bound proof; ", c.pos(cs))
						} else if depth < 2 {
							if callee := core.Callee(cs); callee != nil && callee.Blocks != nil && callee.Parent() == nil && isModuleFn(callee) && len(core.HashInputs(callee, 1)) > 0 && !strings.HasSuffix(core.FullName(callee), "RejectionSample") {
								b := map[int]ssa.Value{}
								for ai, a := range cs.Common().Args {
									b[ai] = a
								}
								if g != fn {
									// nested helpers: give up precision, require direct param passing
									bad += fmt.Sprintf("hash helper nesting deeper than one level at %s; ", c.pos(cs))
								} else {
									visit(callee, b, depth+1)
								}
							}
						}
					}
				}
			}
			visit(fn, nil, 0)
			c.r.Check(bad == "" && tagged > 0, rule, key, c.fpos(fn), fmt.Sprintf("%d tagged hash call(s), tag = session parameter", tagged), bad+fmt.Sprintf("(tagged=%d untagged=%d)", tagged, untagged))
		}
	}
	c.r.Floor(rule, 10)
}

func c12NoTruncation(c *ctx) {
	const rule = "R12.6"
	n := 0
	for i := range proofSystems {
		ps := &proofSystems[i]
		for _, fn := range []*ssa.Function{ps.proverFn(c, rule), ps.verifyFn(c, rule)} {
			if fn == nil {
				continue
			}
			fns := []*ssa.Function{fn}
			for _, cc := range challengeCalls(fn) {
				if g := core.Callee(cc); g != nil && g.Blocks != nil && isModuleFn(g) && !core.CallIs(cc, core.HashFuncs...) {
					fns = append(fns, g)
				}
			}
			for _, g := range fns {
				n++
				key := fkey(rule, g, "no-truncating-copy")
				tc := core.TruncatingCopies(g)
				if len(tc) == 0 {
					c.r.Triv(rule, key, c.fpos(g), "no copy with a statically shorter destination")
				} else {
					c.r.Bad(rule, key, c.pos(tc[0]), "copy into a destination statically shorter than its source silently drops elements of a challenge-hash input")
				}
			}
		}
	}
	c.r.Floor(rule, 16)
}
