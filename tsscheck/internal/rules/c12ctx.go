package rules

import (
	"fmt"
	"strings"

	"golang.org/x/tools/go/ssa"

	"tsscheck/internal/core"
)

// sessionCallees: functions of crypto/* taking a session/context as first explicit argument.
// value = index of the session argument in call.Args (receiver counts as 0 for methods).
var sessionCallees = map[string]int{
	"~/crypto/schnorr.NewZKProof":          0,
	"~/crypto/schnorr.NewZKVProof":         0,
	"(*~/crypto/schnorr.ZKProof).Verify":   1,
	"(*~/crypto/schnorr.ZKVProof).Verify":  1,
	"~/crypto/modproof.NewProof":           0,
	"(*~/crypto/modproof.ProofMod).Verify": 1,
	"~/crypto/facproof.NewProof":           0,
	"(*~/crypto/facproof.ProofFac).Verify": 1,
	"~/crypto/mta.BobMid":                  0,
	"~/crypto/mta.BobMidWC":                0,
	"~/crypto/mta.AliceEnd":                0,
	"~/crypto/mta.AliceEndWC":              0,
	"~/crypto/mta.ProveBob":                0,
	"~/crypto/mta.ProveBobWC":              0,
	"(*~/crypto/mta.ProofBob).Verify":      1,
	"(*~/crypto/mta.ProofBobWC).Verify":    1,
}

// contextClass: v is ssid‖bytes(index): append(temp.ssid, X.Bytes()...) or
// common.AppendBigIntToBytesSlice(temp.ssid, X) with X an integer built from a party
// index. Returns the index class ("self"/"peer"/…) or "" with a reason.
func contextClass(v ssa.Value) (string, string) {
	v = core.Strip(v)
	// the context handed to a closure or a private helper: what its call site passes
	for i := 0; i < 4; i++ {
		p, isP := v.(*ssa.Parameter)
		if !isP || !bindableParam(p) {
			break
		}
		a := closureArg(p)
		if a == nil {
			break
		}
		v = core.Strip(a)
	}
	c, ok := v.(*ssa.Call)
	if !ok {
		return "", "not ssid‖index: " + descr(v)
	}
	var base, idxInt ssa.Value
	if b, isB := c.Call.Value.(*ssa.Builtin); isB && b.Name() == "append" && len(c.Call.Args) == 2 {
		base = c.Call.Args[0]
		// second arg: X.Bytes()
		bc, ok := core.IsCallTo(core.Strip(c.Call.Args[1]), "(*math/big.Int).Bytes")
		if !ok {
			return "", "appended value is not big.Int bytes"
		}
		idxInt = bc.Call.Args[0]
	} else if core.CallIs(c, "~/common.AppendBigIntToBytesSlice") {
		base, idxInt = c.Call.Args[0], c.Call.Args[1]
	} else {
		return "", "not ssid‖index: " + descr(v)
	}
	if d := descr(base); d != "temp.ssid" {
		return "", "prefix is " + d + ", expected temp.ssid"
	}
	// idxInt: big.NewInt(int64(idx)) or new(big.Int).SetUint64(uint64(idx))
	t := core.TermOf(idxInt)
	if t.Op != "int" || len(t.Args) != 1 {
		return "", "index integer is " + t.Key()
	}
	iv := t.Args[0].V
	if iv == nil {
		return "", "index integer is " + t.Key()
	}
	cls := indexClass(iv)
	if cls == "" {
		return "", "index is " + descr(iv) + " (neither the party's own index nor a peer loop index)"
	}
	return cls, ""
}

func c12Contexts(c *ctx) {
	const rule = "R12.4"
	// expected index role per (package, callee): "self" = the caller's own index, "peer" = the loop peer's index
	type ek struct{ rel, callee string }
	expected := map[ek]string{}
	for _, rel := range []string{"ecdsa/keygen", "ecdsa/signing", "ecdsa/resharing", "eddsa/keygen", "eddsa/signing", "eddsa/resharing"} {
		for callee := range sessionCallees {
			role := "self"
			if strings.HasSuffix(callee, ".Verify") || strings.Contains(callee, "AliceEnd") {
				role = "peer" // verify under the sender's context (AliceEnd verifies Bob's proof)
			}
			expected[ek{rel, callee}] = role
		}
	}
	// the no-small-factor proof of ECDSA resharing is addressed: the prover binds it to the
	// recipient's index and the recipient verifies under its own index (same party on both sides)
	expected[ek{"ecdsa/resharing", "~/crypto/facproof.NewProof"}] = "peer"
	expected[ek{"ecdsa/resharing", "(*~/crypto/facproof.ProofFac).Verify"}] = "self"
	// keygen: same addressed convention for the fac proof sent point-to-point in round 2 / verified in round 3
	n := 0
	table := []string{}
	for _, rel := range []string{"ecdsa/keygen", "ecdsa/signing", "ecdsa/resharing", "eddsa/keygen", "eddsa/signing", "eddsa/resharing"} {
		for _, fn := range c.p.FuncsOfPkg(rel) {
			for _, cs := range core.Calls(fn) {
				for callee, ai := range sessionCallees {
					if !core.CallIs(cs, callee) {
						continue
					}
					n++
					arg := cs.Common().Args[ai]
					cls, why := contextClass(arg)
					want := expected[ek{rel, callee}]
					key := fkey(rule, core.Outermost(fn), "context:"+shortName(callee))
					table = append(table, fmt.Sprintf("%s %s %s → ssid‖%s", rel, core.FuncName(core.Outermost(fn)), shortName(callee), cls))
					if cls == "" {
						c.r.Bad(rule, key, c.pos(cs), "session context "+why)
					} else {
						c.r.Check(cls == want, rule, key, c.pos(cs), "context = ssid‖"+cls+" index", fmt.Sprintf("context is built from the %s index, expected the %s index: prover and verifier would name different parties (or a replay by another participant would verify)", cls, want))
					}
				}
			}
		}
	}
	c.r.Tables["session_contexts"] = table
	// getSSID: hashes party keys, round number and nonce
	for _, rel := range []string{"ecdsa/keygen", "ecdsa/signing", "ecdsa/resharing", "eddsa/keygen", "eddsa/signing", "eddsa/resharing"} {
		fn := c.p.Method(rel, "base", "getSSID")
		var hs []ssa.CallInstruction
		inlined := false
		if fn == nil {
			if rel == "eddsa/resharing" {
				continue // no session-bound proofs in this protocol
			}
			// the helper inlined (or renamed): anchor on the store into the ssid field and the hash its value derives from
			for _, f := range c.p.FuncsOfPkg(rel) {
				for _, b := range f.Blocks {
					for _, in := range b.Instrs {
						st, isSt := in.(*ssa.Store)
						if !isSt {
							continue
						}
						if fr := core.AsFieldAddr(st.Addr); fr == nil || fr.Name != "ssid" {
							continue
						}
						w := core.NewDepWalker(core.Outermost(f), false)
						w.Walk(st.Val)
						for v := range w.SeenSet() {
							if call, isC := v.(*ssa.Call); isC && core.CallIs(call, "~/common.SHA512_256i") {
								fn, inlined = call.Parent(), true
								hs = append(hs, call)
							}
						}
					}
				}
			}
			if fn == nil {
				c.r.Unk(rule, core.Key(rule, rel, "getSSID", "anchor"), "-", "getSSID not found")
				continue
			}
		} else {
			hs = core.CallsTo(fn, "~/common.SHA512_256i")
		}
		key := core.Key(rule, rel, "(*base).getSSID", "ssid-inputs")
		ok := len(hs) == 1
		why := ""
		if ok {
			w := core.NewDepWalker(fn, false)
			for _, a := range hs[0].Common().Args {
				w.Walk(a)
			}
			var sawKeys, sawNumber, sawNonce bool
			for v := range wSeen(w) {
				if call, isC := v.(*ssa.Call); isC && strings.HasSuffix(core.CalleeName(call), "SortedPartyIDs).Keys") {
					sawKeys = true
				}
				if fr := core.AsFieldLoad(v); fr != nil {
					if fr.Name == "number" {
						sawNumber = true
					}
					if fr.Name == "ssidNonce" {
						sawNonce = true
					}
				}
			}
			if !sawKeys || !sawNumber || !sawNonce {
				ok = false
				why = fmt.Sprintf("ssid hash inputs: party keys=%v round number=%v nonce=%v", sawKeys, sawNumber, sawNonce)
			}
			// returned ssid is the hash (by construction when the value stored was traced back to the hash)
			for _, ret := range core.Returns(fn) {
				if inlined {
					break
				}
				if core.IsNilConst(core.Strip(ret.Results[0])) {
					continue
				}
				d := core.NewDepWalker(fn, false)
				d.Walk(ret.Results[0])
				if !d.Seen(hs[0].(*ssa.Call)) {
					ok = false
					why += " returned ssid is not the hash"
				}
			}
		} else {
			why = fmt.Sprintf("expected one hash call, found %d", len(hs))
		}
		c.r.Check(ok, rule, key, c.fpos(fn), "ssid = H(curve, party keys, …, round number, nonce)", why)
	}
	c.r.Floor(rule, 27)
}

func wSeen(w *core.DepWalker) map[ssa.Value]bool { return w.SeenSet() }
