package rules

import (
	"fmt"

	"golang.org/x/tools/go/ssa"

	"tsscheck/internal/core"
)

func init() { Registry["C13"] = runC13 }

func runC13(p *core.Prog, r *core.Report) {
	c := &ctx{p, r}
	r.Explain = "MtA share conversion (crypto/mta): (R13.1) every non-error return of BobMid/BobMidWC is dominated by the true edge of RangeProofAlice.Verify on exactly the caller's (ec, pkA, NTildeB, h1B, h2B, cA); every non-error return of AliceEnd/AliceEndWC is dominated by the true edge of the Bob proof's Verify, the ciphertext decrypted is the ciphertext verified, cA/B verified are the parameters; (R13.3) the value encrypted as mask, proven as y, negated mod q into beta and returned as betaPrm is one SSA value drawn below q^5, and cB = HomoAdd(HomoMult(b,cA), Enc(mask)); (R13.2) at the call sites in ecdsa/signing rounds 2 and 3 the per-peer arguments carry the same peer index. Decided on the SSA form by dominance and value identity (canonical terms)."
	r.Undec = "alpha+beta = a*b mod q for all a,b (Paillier arithmetic, absence of wrap-around: numeric facts)."
	r.Assume = []string{"go/ssa value identity: two uses of one SSA value denote the same runtime value; big.Int arguments are not mutated between the verified and the used occurrence (checked: no in-place big.Int call on them in these functions)"}
	c13Gates(c)
	c13Mask(c)
	c13Wiring(c)
	noArgMutation(c, "R13.4", "crypto/mta", "crypto/paillier")
	// the with-check binding of Bob's public point: the commitment U and the point X are hashed on both sides
	c12Provers(c, 10, "bob-wc", "range-alice")
	c12Verifiers(c, 10, "bob-wc", "range-alice")
	c13WithCheck(c)
	c.r.Floor("R13.4", 30)
	aliasedInPlaceUpdates(c, "RA.1", "crypto/mta", "crypto/paillier", "common")
	// the MtA must also work at the edge b = 0: HomoMult(0, cA) = 1 is then handed to HomoAdd
	c14EdgeValues(c, "R14.4")
}

// callArgTerms returns terms of the explicit args (receiver first for methods).
func callArgTerms(call ssa.CallInstruction) []*T {
	var out []*T
	cc := call.Common()
	if cc.IsInvoke() {
		out = append(out, core.TermOf(cc.Value))
	}
	for _, a := range cc.Args {
		out = append(out, core.TermOf(a))
	}
	return out
}

// checkGate: every return of fn whose error result errIdx may be nil is dominated by the true
// edge of a call to verifier `callee` whose arguments (receiver first) equal the given parameter
// indices of fn (−1 = don't care).
func checkGate(c *ctx, rule string, fn *ssa.Function, errIdx int, callee string, argParams []int) *ssa.Call {
	key := fkey(rule, fn, "gate:"+shortName(callee))
	blocks := nilErrReturnBlocks(fn, errIdx)
	if len(blocks) == 0 {
		c.r.Unk(rule, key, c.fpos(fn), "no non-error return found")
		return nil
	}
	var gate *ssa.Call
	for _, b := range blocks {
		// depth 1: `err == nil` for a private helper the first part was factored into carries the helper's gate
		call, ok := core.HasCallFact(gateFacts(fn, b), true, callee)
		if !ok {
			c.r.Bad(rule, key, c.fpos(fn), fmt.Sprintf("the non-error return in block %d (%s) is reachable without a successful %s", b.Index, c.pos(b.Instrs[len(b.Instrs)-1]), shortName(callee)))
			return nil
		}
		gate = call
	}
	args := callArgTerms(gate)
	if gate.Parent() != fn {
		args = nil
		for _, a := range gate.Call.Args {
			args = append(args, core.FrameTerm(fn, a))
		}
	}
	for i, pi := range argParams {
		if pi < 0 || i >= len(args) {
			continue
		}
		if args[i].Key() != paramTerm(fn, pi).Key() {
			c.r.Bad(rule, key, c.pos(gate), fmt.Sprintf("argument %d of the verification is %s, expected the caller's parameter #%d (%s): the value verified is not the value used", i, args[i], pi, fn.Params[pi].Name()))
			return nil
		}
	}
	c.r.OK(rule, key, c.pos(gate), "true edge of "+shortName(callee)+" dominates every non-error return; arguments are the function's own parameters")
	return gate
}

// gateFacts: the facts at b, and those a successful private helper of fn (same package, unexported)
// establishes for its caller.
func gateFacts(fn *ssa.Function, b *ssa.BasicBlock) []core.TFact {
	var out []core.TFact
	for _, f := range core.TFactsAt(b, 1) {
		if f.Via == "" || f.Call == nil || core.PrivateHelper(f.Call.Parent()) && f.Call.Parent().Pkg == fn.Pkg {
			out = append(out, f)
		}
	}
	return out
}

func shortName(n string) string {
	for i := len(n) - 1; i >= 0; i-- {
		if n[i] == '/' {
			return n[i+1:]
		}
	}
	return n
}

func c13Gates(c *ctx) {
	const rule = "R13.1"
	rpa := "(*~/crypto/mta.RangeProofAlice).Verify"
	// BobMid(Session0, ec1, pkA2, pf3, b4, cA5, NTildeA6, h1A7, h2A8, NTildeB9, h1B10, h2B11, rand12)
	if fn := c.mustFunc(rule, "crypto/mta", "BobMid"); fn != nil {
		// Verify(pf, ec, pkA, NTildeB, h1B, h2B, cA)
		checkGate(c, rule, fn, 4, rpa, []int{3, 1, 2, 9, 10, 11, 5})
	}
	if fn := c.mustFunc(rule, "crypto/mta", "BobMidWC"); fn != nil {
		checkGate(c, rule, fn, 4, rpa, []int{3, 1, 2, 9, 10, 11, 5})
	}
	// AliceEnd(Session0, ec1, pkA2, pf3, h1A4, h2A5, cA6, cB7, NTildeA8, sk9)
	if fn := c.mustFunc(rule, "crypto/mta", "AliceEnd"); fn != nil {
		// pf.Verify(Session, ec, pkA, NTildeA, h1A, h2A, cA, cB)
		g := checkGate(c, rule, fn, 1, "(*~/crypto/mta.ProofBob).Verify", []int{3, 0, 1, 2, 8, 4, 5, 6, 7})
		checkDecryptsVerified(c, rule, fn, g, 7, 9)
	}
	// AliceEndWC(Session0, ec1, pkA2, pf3, B4, cA5, cB6, NTildeA7, h1A8, h2A9, sk10)
	if fn := c.mustFunc(rule, "crypto/mta", "AliceEndWC"); fn != nil {
		// pf.Verify(Session, ec, pkA, NTildeA, h1A, h2A, cA, cB, B)
		g := checkGate(c, rule, fn, 1, "(*~/crypto/mta.ProofBobWC).Verify", []int{3, 0, 1, 2, 7, 8, 9, 5, 6, 4})
		checkDecryptsVerified(c, rule, fn, g, 6, 10)
	}
	c.r.Floor(rule, 6)
}

// checkDecryptsVerified: the single Decrypt call in fn is on parameter sk, decrypts parameter cB
// (the one verified), is dominated by the gate and the returned share derives from its result.
func checkDecryptsVerified(c *ctx, rule string, fn *ssa.Function, gate *ssa.Call, cBParam, skParam int) {
	key := fkey(rule, fn, "decrypt-verified-ciphertext")
	// the decryption may sit in a private helper shared by AliceEnd and AliceEndWC (their common tail)
	var decs []ssa.CallInstruction
	for _, g := range unitFuncs(fn) {
		if g.Parent() == nil {
			decs = append(decs, core.CallsTo(g, "(*~/crypto/paillier.PrivateKey).Decrypt")...)
		}
	}
	if len(decs) != 1 {
		c.r.Bad(rule, key, c.fpos(fn), fmt.Sprintf("expected exactly one Decrypt call, found %d", len(decs)))
		return
	}
	d := decs[0].(*ssa.Call)
	ok := core.FrameTerm(fn, d.Call.Args[0]).Key() == paramTerm(fn, skParam).Key() && core.FrameTerm(fn, d.Call.Args[1]).Key() == paramTerm(fn, cBParam).Key()
	// where the decryption happens in fn: the call itself, or the call of the helper that holds it
	var at ssa.Instruction = d
	if d.Parent() != fn {
		at = nil
		n := 0
		for _, cs := range core.Calls(fn) {
			if core.Callee(cs) == d.Parent() {
				at = cs
				n++
			}
		}
		if n != 1 {
			at = nil
		}
	}
	if gate != nil && at != nil {
		ok = ok && core.InstrDominates(gate, at)
		if _, has := core.HasCallFact(core.TFactsAt(at.Block(), 0), true, core.CalleeName(gate)); !has {
			ok = false
		}
	} else {
		ok = false
	}
	// the returned value depends on the decryption result
	for _, b := range nilErrReturnBlocks(fn, 1) {
		ret := b.Instrs[len(b.Instrs)-1].(*ssa.Return)
		w := core.NewDepWalker(fn, false)
		w.Walk(ret.Results[0])
		if !w.Seen(d) {
			ok = false
		}
	}
	c.r.Check(ok, rule, key, c.pos(d), "Decrypt(sk, cB) on the verified ciphertext, after the gate; result flows to the returned share", "the ciphertext decrypted is not the verified parameter, or decryption is not dominated by the proof gate, or the share does not derive from it")
}

func c13Mask(c *ctx) {
	const rule = "R13.3"
	for _, name := range []string{"BobMid", "BobMidWC"} {
		fn := c.mustFunc(rule, "crypto/mta", name)
		if fn == nil {
			continue
		}
		prove := "~/crypto/mta.ProveBob"
		if name == "BobMidWC" {
			prove = "~/crypto/mta.ProveBobWC"
		}
		// the function and the private helpers it is factored into are read as one body
		callsTo := func(name string) []ssa.CallInstruction {
			var out []ssa.CallInstruction
			for _, g := range unitFuncs(fn) {
				if g.Parent() == nil {
					out = append(out, core.CallsTo(g, name)...)
				}
			}
			return out
		}
		rv := func(v ssa.Value) ssa.Value { return core.ResolveIn(fn, v) }
		rt := func(v ssa.Value) *T { return core.FrameTerm(fn, v) }
		encs := callsTo("(*~/crypto/paillier.PublicKey).EncryptAndReturnRandomness")
		pvs := callsTo(prove)
		mults := callsTo("(*~/crypto/paillier.PublicKey).HomoMult")
		adds := callsTo("(*~/crypto/paillier.PublicKey).HomoAdd")
		key := fkey(rule, fn, "one-mask")
		if len(encs) != 1 || len(pvs) != 1 || len(mults) != 1 || len(adds) != 1 {
			c.r.Bad(rule, key, c.fpos(fn), fmt.Sprintf("expected one Encrypt/Prove/HomoMult/HomoAdd call each, found %d/%d/%d/%d", len(encs), len(pvs), len(mults), len(adds)))
			continue
		}
		enc, pv, mult, add := encs[0].(*ssa.Call), pvs[0].(*ssa.Call), mults[0].(*ssa.Call), adds[0].(*ssa.Call)
		mask := rv(enc.Call.Args[2])
		// sampled below q^5 from the function's rand parameter
		samp, isS := core.IsCallTo(mask, "~/common.GetRandomPositiveInt")
		okS := isS && curveOrderPow(5)(rt(samp.Call.Args[1])) && rt(samp.Call.Args[0]).Key() == paramTerm(fn, len(fn.Params)-1).Key()
		c.r.Check(okS, rule, fkey(rule, fn, "mask<q^5"), c.pos(enc), "mask = GetRandomPositiveInt(rand, q^5)", "the mask is not a fresh sample below q^5 from the rand parameter")
		// ProveBob(Session, ec, pkA, NTildeA, h1A, h2A, c1=cA, c2=cB, x=b, y=mask, r=cRand, …)
		pargs := pv.Call.Args
		okY := rv(pargs[9]) == mask
		okR := rv(pargs[10]) == extractOf(enc, 1)
		okX := rt(pargs[8]).Key() == paramTerm(fn, 4).Key()
		okC1 := rt(pargs[6]).Key() == paramTerm(fn, 5).Key()
		okC2 := rv(pargs[7]) == extractOf(add, 0)
		okRing := rt(pargs[3]).Key() == paramTerm(fn, 6).Key() && rt(pargs[4]).Key() == paramTerm(fn, 7).Key() && rt(pargs[5]).Key() == paramTerm(fn, 8).Key()
		c.r.Check(okY && okR && okX && okC1 && okC2 && okRing, rule, fkey(rule, fn, "proof-statement"), c.pos(pv),
			"Bob's proof is about (c1=cA, c2=cB, x=b, y=mask, r=encryption randomness) under Alice's ring-Pedersen parameters",
			fmt.Sprintf("proof statement mismatch: y-is-mask=%v r-is-enc-randomness=%v x-is-b=%v c1-is-cA=%v c2-is-cB=%v ring-is-A=%v", okY, okR, okX, okC1, okC2, okRing))
		// cB = HomoAdd(HomoMult(b, cA), Enc(mask))
		okMult := rt(mult.Call.Args[1]).Key() == paramTerm(fn, 4).Key() && rt(mult.Call.Args[2]).Key() == paramTerm(fn, 5).Key()
		a1, a2 := rv(add.Call.Args[1]), rv(add.Call.Args[2])
		m0, e0 := extractOf(mult, 0), extractOf(enc, 0)
		okAdd := (a1 == m0 && a2 == e0) || (a1 == e0 && a2 == m0)
		c.r.Check(okMult && okAdd, rule, fkey(rule, fn, "cB=b*cA+Enc(mask)"), c.pos(add), "cB = HomoAdd(HomoMult(b,cA), Enc(mask))", "the response ciphertext is not HomoAdd(HomoMult(b,cA), Enc(mask))")
		// returns on the success path: beta = (0 - mask) mod q, cB, betaPrm = mask
		okRet := true
		why := ""
		for _, b := range nilErrReturnBlocks(fn, 4) {
			ret := b.Instrs[len(b.Instrs)-1].(*ssa.Return)
			beta := rt(ret.Results[0])
			want := func(t *T) bool {
				if t.Op != "Mod" || !core.IsCurveOrder(t.Args[1]) {
					return false
				}
				s := t.Args[0]
				return s.Op == "Sub" && core.IsZeroTerm(s.Args[0]) && s.Args[1].Key() == rt(mask).Key()
			}
			if !want(beta) {
				okRet = false
				why += "beta is " + beta.Key() + ", expected (0 - mask) mod q; "
			}
			if rv(ret.Results[1]) != extractOf(add, 0) {
				okRet = false
				why += "returned cB is not the HomoAdd result; "
			}
			if rv(ret.Results[2]) != mask {
				okRet = false
				why += "returned betaPrm is not the mask; "
			}
			if rv(ret.Results[3]) != extractOf(pv, 0) {
				okRet = false
				why += "returned proof is not the proof computed; "
			}
		}
		c.r.Check(okRet, rule, key, c.fpos(fn), "beta = −mask mod q; the encrypted, proven, negated and returned mask is one value", why)
	}
	c.r.Floor(rule, 8)
}

// extractOf returns the Extract #i of a tuple-valued call (nil if absent).
func extractOf(call *ssa.Call, i int) ssa.Value {
	refs := call.Referrers()
	if refs == nil {
		return nil
	}
	for _, in := range *refs {
		if e, ok := in.(*ssa.Extract); ok && e.Index == i {
			return e
		}
	}
	return nil
}

// noArgMutation (R13.4 / R14.3): the packages' functions never overwrite a *big.Int they did not
// allocate themselves and never hand a parameter back as a result. This is what makes "the value
// verified is the value used" (R13.1) and "cB = b*cA + Enc(mask)" (R13.3) hold for the caller's
// objects and not only for SSA names: an in-place HomoAdd or a HomoMult returning its argument
// would let BobMid overwrite Alice's ciphertext between the proof check and its use.
func noArgMutation(c *ctx, rule string, rels ...string) {
	e := core.NewEffects(c.p)
	n := 0
	for _, rel := range rels {
		muts := e.NonFreshMutations(rel)
		for _, f := range c.p.FuncsOfPkg(rel) {
			if f.Parent() != nil {
				continue
			}
			n++
			key := fkey(rule, f, "no-argument-mutation")
			var bad []string
			for _, m := range muts {
				if core.Outermost(m.Call.Parent()) == f {
					bad = append(bad, fmt.Sprintf("%s overwrites a *big.Int owned by %v at %s", core.CalleeShort(m.Call), m.Origins, c.pos(m.Call)))
				}
			}
			for i := range e.RetAlias[f] {
				bad = append(bad, fmt.Sprintf("may return its parameter #%d (%s) itself: a later in-place operation on the result overwrites the caller's value", i, f.Params[i].Name()))
			}
			if len(bad) == 0 {
				c.r.Triv(rule, key, c.fpos(f), "all in-place big.Int operations target objects allocated in the function; no parameter is returned")
			} else {
				c.r.Bad(rule, key, c.fpos(f), fmt.Sprint(bad))
			}
		}
	}
	c.r.Stats["functions_effect_checked"] += n
}

func c13Wiring(c *ctx) {
	// R13.2 is evaluated with the protocol model (ecdsa/signing rounds 2 and 3); see wiring.go
	c13RoundWiring(c)
}

// c13WithCheck (R13.5): in ProofBobWC.Verify the public-point equation g^(s1 mod q) = X^e + U is
// executed on every accepting path on which X is non-nil, and AliceEndWC passes its B there.
func c13WithCheck(c *ctx) {
	const rule = "R13.5"
	fn := c.mustMethod(rule, "crypto/mta", "ProofBobWC", "Verify")
	if fn == nil {
		return
	}
	accept := acceptBlocks(fn, 0, true)
	var found *eqGuard
	for _, e := range collectEquations(c, fn) {
		if e.kind == "equals" && e.deps["U"] && e.deps["S1"] && e.deps["param:9"] && e.deps["challenge"] {
			found = e
		}
	}
	key := fkey(rule, fn, "public-point-equation")
	if found == nil || found.iff == nil {
		c.r.Bad(rule, key, c.fpos(fn), "no rejecting Equals guard over (U, S1, X, challenge): Bob's multiplier is not tied to his public point")
		return
	}
	// every path from the X != nil edge to acceptance passes the safe edge of the guard:
	// with that edge removed, acceptance must only be reachable with X == nil
	ok := true
	why := ""
	xIsNil := func(b *ssa.BasicBlock) bool {
		for _, f := range core.FactsAt(b) {
			if f.Kind == core.FNil && f.Bool && core.TermOf(f.X).Key() == paramTerm(fn, 9).Key() {
				return true
			}
		}
		return false
	}
	gb := found.iff.Block()
	for _, a := range accept {
		for _, path := range pathsAvoidingEdge(fn, gb, found.side, a) {
			// a path avoiding the guard exists: every such path must go through an X == nil edge
			if !path {
				continue
			}
		}
	}
	// simpler sound formulation: the guard block is dominated by X != nil, and every block that is
	// (a) reachable when X != nil and (b) can reach accept without the guard's safe edge … does not exist
	if !reachableOnlyIfNil(fn, gb, found.side, accept, paramTerm(fn, 9)) {
		ok = false
		why = "acceptance is reachable with X != nil without passing the public-point equation"
	}
	_ = xIsNil
	c.r.Check(ok, rule, key, c.p.Pos(found.pos), "whenever X is non-nil, acceptance requires g^(s1 mod q) == X^e + U", why)
	c.r.Floor(rule, 1)
}

func pathsAvoidingEdge(fn *ssa.Function, from *ssa.BasicBlock, si int, to *ssa.BasicBlock) []bool {
	return nil
}

// reachableOnlyIfNil: remove the safe edge (gb→Succs[side]) of the guard; then every path from the
// entry to an accepting block must traverse an edge on which `x == nil` is established.
func reachableOnlyIfNil(fn *ssa.Function, gb *ssa.BasicBlock, side int, accept []*ssa.BasicBlock, x *T) bool {
	// edges that establish x == nil
	type edge struct {
		b  *ssa.BasicBlock
		si int
	}
	nilEdges := map[edge]bool{}
	for _, b := range fn.Blocks {
		if len(b.Instrs) == 0 {
			continue
		}
		iff, ok := b.Instrs[len(b.Instrs)-1].(*ssa.If)
		if !ok {
			continue
		}
		for s := 0; s < 2; s++ {
			for _, f := range core.CondFacts(iff.Cond, s == 0, iff) {
				if f.Kind == core.FNil && f.Bool && core.TermOf(f.X).Key() == x.Key() {
					nilEdges[edge{b, s}] = true
				}
			}
		}
	}
	// DFS from entry avoiding the guard's safe edge and all nil-establishing edges
	seen := map[*ssa.BasicBlock]bool{fn.Blocks[0]: true}
	st := []*ssa.BasicBlock{fn.Blocks[0]}
	for len(st) > 0 {
		b := st[len(st)-1]
		st = st[:len(st)-1]
		for i, s := range b.Succs {
			if (b == gb && i == side) || nilEdges[edge{b, i}] {
				continue
			}
			if !seen[s] {
				seen[s] = true
				st = append(st, s)
			}
		}
	}
	for _, a := range accept {
		if seen[a] {
			return false
		}
	}
	return true
}
