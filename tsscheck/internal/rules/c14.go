package rules

import (
	"fmt"

	"golang.org/x/tools/go/ssa"

	"tsscheck/internal/core"
)

func init() { Registry["C14"] = runC14 }

func runC14(p *core.Prog, r *core.Report) {
	c := &ctx{p, r}
	r.Explain = "Paillier (crypto/paillier): (R11.4) the seven domain guards (plaintext/scalar in [0,N), ciphertexts in [0,N^2), gcd(c,N^2)=1 on decryption) dominate every non-error return of Encrypt/HomoMult/HomoAdd/Decrypt as ordering-set facts; (R14.1) the value raised to the N-th power in encryption is a unit sampled inside the call from the function's own rand parameter, and the ciphertext has the symbolic form (N+1)^m * x^N mod N^2; (R14.2) key generation takes the SafePrime() of two distinct elements of one GetRandomSafePrimesConcurrent(bits/2, 2) result, leaves its retry loop only through the |P-Q| bit-length guard, and N, phi, lambda normalise to P*Q, (P-1)(Q-1), phi/gcd(P-1,Q-1) and are the fields of the returned key."
	r.Undec = "Dec(Enc(m)) = m, the homomorphic laws, the exact bit length of N and primality of P,Q (numeric facts); the check decides the domain guards, the freshness/shape of the randomizer and the symbolic structure of key generation."
	r.Assume = []string{"math/big arithmetic is as documented", "common.GetRandomPositiveRelativelyPrimeInt returns a unit of Z_N (its own post-condition is decided under C19 R19.4)"}
	c11Paillier(c) // R11.4 shared with C11
	c14Fresh(c)
	c14Keygen(c)
	// R14.3: Paillier operations never overwrite their operands nor return them (homomorphic ops yield new ciphertexts)
	noArgMutation(c, "R14.3", "crypto/paillier")
	c.r.Floor("R14.3", 14)
	aliasedInPlaceUpdates(c, "RA.1", "crypto/paillier", "common")
	c14EdgeValues(c, "R14.4")
}

func c14Fresh(c *ctx) {
	const rule = "R14.1"
	fn := c.mustMethod(rule, "crypto/paillier", "PublicKey", "EncryptAndReturnRandomness")
	if fn == nil {
		return
	}
	recv := paramTerm(fn, 0)
	pkN := func(t *T) bool { return core.IsFieldOf(t, recv, "N") }
	pkM := func(t *T) bool { return t.Key() == recv.Key() }
	n2 := nSquareOf(pkM)
	samplers := core.CallsTo(fn, "~/common.GetRandomPositiveRelativelyPrimeInt")
	key := fkey(rule, fn, "randomizer")
	if len(samplers) != 1 {
		c.r.Bad(rule, key, c.fpos(fn), fmt.Sprintf("expected exactly one unit sampler call per encryption, found %d", len(samplers)))
		return
	}
	s := samplers[0].(*ssa.Call)
	okS := core.TermOf(s.Call.Args[0]).Key() == paramTerm(fn, 1).Key() && pkN(core.TermOf(s.Call.Args[1]))
	// not in a loop that would reuse it, and executed on every non-error path
	for _, b := range nilErrReturnBlocks(fn, 2) {
		if !s.Block().Dominates(b) {
			okS = false
		}
	}
	c.r.Check(okS, rule, key, c.pos(s), "x = GetRandomPositiveRelativelyPrimeInt(rand, N) drawn inside the call from the rand parameter", "the randomizer is not a per-call unit sample from the function's rand parameter modulo N")
	// ciphertext shape
	okC := true
	why := ""
	for _, b := range nilErrReturnBlocks(fn, 2) {
		ret := b.Instrs[len(b.Instrs)-1].(*ssa.Return)
		ct := core.TermOf(ret.Results[0])
		// Mod(Mul(ModExp(Gamma, m, N2), ModExp(x, N, N2)), N2)
		shape := func(t *T) bool {
			if t.Op != "Mod" || !n2(t.Args[1]) || t.Args[0].Op != "Mul" || len(t.Args[0].Args) != 2 {
				return false
			}
			var gm, xn *T
			for _, a := range t.Args[0].Args {
				if a.Op != "ModExp" || !n2(a.Args[2]) {
					return false
				}
				if isGamma(a.Args[0], pkM, pkN) {
					gm = a
				} else {
					xn = a
				}
			}
			if gm == nil || xn == nil {
				return false
			}
			if gm.Args[1].Key() != paramTerm(fn, 2).Key() {
				return false
			}
			return xn.Args[0].V == ssa.Value(s) && pkN(xn.Args[1])
		}
		if !shape(ct) {
			okC = false
			why = "returned ciphertext is " + ct.Key() + ", expected ((N+1)^m mod N^2 * x^N mod N^2) mod N^2 with x the sampled unit"
		}
		if core.Strip(ret.Results[1]) != ssa.Value(s) {
			okC = false
			why += "; the returned randomness is not the sampled unit"
		}
	}
	c.r.Check(okC, rule, fkey(rule, fn, "ciphertext-shape"), c.fpos(fn), "c = (N+1)^m * x^N mod N^2; returned randomness is x", why)
	// Encrypt delegates
	if enc := c.mustMethod(rule, "crypto/paillier", "PublicKey", "Encrypt"); enc != nil {
		calls := core.CallsTo(enc, "(*~/crypto/paillier.PublicKey).EncryptAndReturnRandomness")
		ok := len(calls) == 1
		if ok {
			call := calls[0].(*ssa.Call)
			for _, ret := range core.Returns(enc) {
				if core.Strip(ret.Results[0]) != extractOf(call, 0) || core.Strip(ret.Results[1]) != extractOf(call, 2) {
					ok = false
				}
			}
			a := callArgTerms(call)
			ok = ok && a[0].Key() == paramTerm(enc, 0).Key() && a[1].Key() == paramTerm(enc, 1).Key() && a[2].Key() == paramTerm(enc, 2).Key()
		}
		c.r.Check(ok, rule, fkey(rule, enc, "delegates"), c.fpos(enc), "Encrypt returns EncryptAndReturnRandomness's ciphertext and error", "Encrypt does not return the ciphertext and error of EncryptAndReturnRandomness(rand, m)")
	}
	// Gamma() = N+1, NSquare() = N*N
	if g := c.mustMethod(rule, "crypto/paillier", "PublicKey", "Gamma"); g != nil {
		ok := true
		for _, ret := range core.Returns(g) {
			t := core.TermOf(ret.Results[0])
			r0 := paramTerm(g, 0)
			if !(t.Op == "Add" && len(t.Args) == 2 && ((core.IsFieldOf(t.Args[0], r0, "N") && isOne(t.Args[1])) || (core.IsFieldOf(t.Args[1], r0, "N") && isOne(t.Args[0])))) {
				ok = false
			}
		}
		c.r.Check(ok, rule, fkey(rule, g, "Gamma=N+1"), c.fpos(g), "Gamma() returns N+1", "Gamma() is not N+1")
	}
	if g := c.mustMethod(rule, "crypto/paillier", "PublicKey", "NSquare"); g != nil {
		ok := true
		for _, ret := range core.Returns(g) {
			t := core.TermOf(ret.Results[0])
			r0 := paramTerm(g, 0)
			b, k := core.PowerOf(t)
			if !(k == 2 && core.IsFieldOf(b, r0, "N")) {
				ok = false
			}
		}
		c.r.Check(ok, rule, fkey(rule, g, "NSquare=N*N"), c.fpos(g), "NSquare() returns N*N", "NSquare() is not N*N")
	}
	c.r.Floor(rule, 5)
}

func isGamma(t *T, pk, pkN M) bool {
	if t.Op == "call:Gamma" && pk(t.Args[0]) {
		return true
	}
	if t.Op == "Add" && len(t.Args) == 2 {
		return (pkN(t.Args[0]) && isOne(t.Args[1])) || (pkN(t.Args[1]) && isOne(t.Args[0]))
	}
	return false
}

func c14Keygen(c *ctx) {
	const rule = "R14.2"
	fn := c.mustFunc(rule, "crypto/paillier", "GenerateKeyPair")
	if fn == nil {
		return
	}
	// the function and the private helpers it is factored into are read as one body
	callsTo := func(name string) []ssa.CallInstruction {
		var out []ssa.CallInstruction
		for _, g := range unitFuncs(fn) {
			if g.Parent() == nil {
				out = append(out, core.CallsTo(g, name)...)
			}
		}
		return out
	}
	rt := func(v ssa.Value) *T { return core.FrameTerm(fn, v) }
	gens := callsTo("~/common.GetRandomSafePrimesConcurrent")
	if len(gens) != 1 {
		c.r.Bad(rule, fkey(rule, fn, "generator-call"), c.fpos(fn), fmt.Sprintf("expected one safe-prime generator call, found %d", len(gens)))
		return
	}
	gen := gens[0].(*ssa.Call)
	// GetRandomSafePrimesConcurrent(ctx, bitLen, numPrimes, concurrency, rand)
	bits := rt(gen.Call.Args[1])
	half := func(t *T) bool {
		// modulusBitLen/2 as machine integer
		return t.Op == "bin/" && t.Args[0].Key() == paramTerm(fn, 2).Key() && constIs(t.Args[1], 2)
	}
	two := constIs(core.TermOf(gen.Call.Args[2]), 2)
	okRand := rt(gen.Call.Args[4]).Key() == paramTerm(fn, 1).Key()
	c.r.Check(half(bits) && two && okRand, rule, fkey(rule, fn, "two-primes-of-half-length"), c.pos(gen),
		"GetRandomSafePrimesConcurrent(ctx, modulusBitLen/2, 2, …, rand)", fmt.Sprintf("generator called with bit length %s and count %s (need modulusBitLen/2 and 2) or not with the rand parameter", bits, core.TermOf(gen.Call.Args[2])))

	// P, Q := sgps[0].SafePrime(), sgps[1].SafePrime()
	sp := callsTo("(*~/common.GermainSafePrime).SafePrime")
	idxs := map[int64]ssa.Value{}
	for _, cs := range sp {
		call := cs.(*ssa.Call)
		t := core.TermOf(call.Call.Args[0])
		if t.Op == "[]" && t.Args[0].Op == "extract" && t.Args[0].Args[0].V == ssa.Value(gen) {
			if k, ok := core.TermInt(t.Args[1]); ok {
				idxs[k] = call
			}
		}
	}
	P, Q := idxs[0], idxs[1]
	c.r.Check(len(sp) == 2 && P != nil && Q != nil, rule, fkey(rule, fn, "P,Q=distinct-elements"), c.pos(gen), "P and Q are the SafePrime() of elements 0 and 1 of one generator result", "P and Q are not the SafePrime() of two distinct elements of the generator result")
	if P == nil || Q == nil {
		return
	}
	isP := func(t *T) bool { return t.V == P }
	isQ := func(t *T) bool { return t.V == Q }
	// loop exit guard: the code after the loop is reached only through |P-Q| bit length ≥ bits/2 − d
	// locate the non-error return; facts there must include BitLen(Sub(P,Q)) >= modulusBitLen/2 - k
	guardOK := false
	var guardW string
	for _, b := range nilErrReturnBlocks(fn, 2) {
		for _, f := range core.TFactsAt(b, 1) {
			if f.Kind != core.FInt || f.X == nil || f.Y == nil {
				continue
			}
			x, y, o := f.X, f.Y, f.Ord
			if !(x.Op == "call:BitLen") {
				x, y, o = y, x, o.Flip()
			}
			if x.Op != "call:BitLen" {
				continue
			}
			d := x.Args[0]
			if d.Op == "Sub" && ((isP(d.Args[0]) && isQ(d.Args[1])) || (isQ(d.Args[0]) && isP(d.Args[1]))) {
				// y = modulusBitLen/2 - k, k small
				if y.Op == "bin-" && half(y.Args[0]) {
					if k, ok := core.TermInt(y.Args[1]); ok && k >= 0 && k <= 8 && o&core.LT == 0 {
						guardOK = true
						guardW = f.String()
					}
				}
			}
		}
	}
	c.r.Check(guardOK, rule, fkey(rule, fn, "distance-guard"), c.fpos(fn), guardW, "the success path is not dominated by the |P-Q| bit-length guard (bitlen(P-Q) >= modulusBitLen/2 - small constant)")

	// returned keys
	ok := true
	why := ""
	mulPQ := func(t *T) bool {
		return t.Op == "Mul" && len(t.Args) == 2 && ((isP(t.Args[0]) && isQ(t.Args[1])) || (isQ(t.Args[0]) && isP(t.Args[1])))
	}
	minus1 := func(x M) M {
		return func(t *T) bool { return t.Op == "Sub" && x(t.Args[0]) && isOne(t.Args[1]) }
	}
	phi := func(t *T) bool {
		return t.Op == "Mul" && len(t.Args) == 2 && ((minus1(isP)(t.Args[0]) && minus1(isQ)(t.Args[1])) || (minus1(isQ)(t.Args[0]) && minus1(isP)(t.Args[1])))
	}
	lambda := func(t *T) bool {
		if t.Op != "Div" && t.Op != "Quo" {
			return false
		}
		return phi(t.Args[0]) && gcdOf(minus1(isP), minus1(isQ))(t.Args[1])
	}
	for _, b := range nilErrReturnBlocks(fn, 2) {
		ret := b.Instrs[len(b.Instrs)-1].(*ssa.Return)
		// (the key structs may be assembled by a private helper: newPrivateKey(P, Q, N))
		priv := storedFields(core.ResolveIn(fn, ret.Results[0]))
		pub := storedFields(core.ResolveIn(fn, ret.Results[1]))
		chk := func(name string, v ssa.Value, m M) {
			if v == nil {
				ok = false
				why += name + " is not set; "
				return
			}
			t := rt(v)
			if !m(t) {
				ok = false
				why += fmt.Sprintf("%s is %s; ", name, t.Key())
			}
		}
		chk("publicKey.N", pub["N"], mulPQ)
		chk("privateKey.LambdaN", priv["LambdaN"], lambda)
		chk("privateKey.PhiN", priv["PhiN"], phi)
		chk("privateKey.P", priv["P"], isP)
		chk("privateKey.Q", priv["Q"], isQ)
		// privateKey.PublicKey = *publicKey
		if pk := priv["PublicKey"]; pk == nil {
			ok = false
			why += "privateKey.PublicKey is not set; "
		} else if u, isU := core.Strip(pk).(*ssa.UnOp); !isU || core.ResolveParamIn(fn, u.X) != core.Strip(ret.Results[1]) {
			// accept a copy of the returned public key struct
			if !(isU && allocSame(u.X, ret.Results[1])) {
				ok = false
				why += "privateKey.PublicKey is not the returned public key; "
			}
		}
	}
	c.r.Check(ok, rule, fkey(rule, fn, "N,phi,lambda"), c.fpos(fn), "N=P*Q, phi=(P-1)(Q-1), lambda=phi/gcd(P-1,Q-1), P and Q stored; private key embeds the returned public key", why)
	c.r.Floor(rule, 4)
}

func allocSame(a, b ssa.Value) bool { return core.Strip(a) == core.Strip(b) }

func constIs(t *T, k int64) bool {
	v, ok := core.TermInt(t)
	return ok && v == k
}

// storedFields: for a pointer to a freshly allocated struct (&T{…}), the value stored into each field.
func storedFields(ptr ssa.Value) map[string]ssa.Value {
	out := map[string]ssa.Value{}
	ptr = core.Strip(ptr)
	refs := ptr.Referrers()
	if refs == nil {
		return out
	}
	for _, in := range *refs {
		fa, ok := in.(*ssa.FieldAddr)
		if !ok || fa.X != ptr {
			continue
		}
		fr := core.AsFieldAddr(fa)
		if fr == nil || fa.Referrers() == nil {
			continue
		}
		for _, u := range *fa.Referrers() {
			if st, ok := u.(*ssa.Store); ok && st.Addr == fa {
				out[fr.Name] = st.Val
			}
		}
	}
	return out
}
