package rules

import (
	"fmt"
	"strings"

	"golang.org/x/tools/go/ssa"

	"tsscheck/internal/core"
)

// c14EdgeValues (R14.4): the domain guards of the Paillier operations are not stricter than the
// domain at its lower edge. 0 and 1 are admissible plaintexts / scalars, and 1 is an admissible
// ciphertext (Enc(0; 1) = 1, and HomoMult(0, c) = c^0 = 1 is what MtA produces for the multiplier
// b = 0): no error return of a function of the package is guarded by a comparison of a *big.Int
// parameter with the constants 0 / 1 (or its sign) whose rejecting edge is satisfied by that value.
// Comparisons with non-constant bounds (N, N^2) are the upper edge and are R11.4's subject.
func c14EdgeValues(c *ctx, rule string) {
	n := 0
	for _, fn := range c.p.FuncsOfPkg("crypto/paillier") {
		if fn.Parent() != nil || fn.Blocks == nil {
			continue
		}
		// the operations on plaintexts and ciphertexts, and the unexported helpers they share
		nm := fn.Name()
		isOp := strings.HasPrefix(nm, "Encrypt") || nm == "HomoMult" || nm == "HomoAdd" || nm == "Decrypt"
		isHelper := fn.Signature.Recv() == nil && nm != "" && nm[0] >= 'a' && nm[0] <= 'z' && nm != "init"
		if !isOp && !isHelper {
			continue
		}
		guards := abortGuards(fn)
		for _, p := range fn.Params {
			if p.Type().String() != "*math/big.Int" {
				continue
			}
			pt := core.KeyIs(core.TermOf(p))
			for _, v := range []int64{0, 1} {
				// 0 is not an admissible ciphertext; only plaintext-like parameters are asked about 0
				if v == 0 && !plaintextLike(p.Name()) {
					continue
				}
				n++
				key := fkey(rule, fn, fmt.Sprintf("admits:%s=%d", p.Name(), v))
				bad := ""
				for _, g := range guards {
					facts := core.ExpandFacts(core.CondFacts(g.iff.Cond, g.failing == 0, g.iff), 0)
					constrained, satisfied := false, true
					for _, f := range facts {
						switch f.Kind {
						case core.FSign:
							if f.X != nil && pt(f.X) {
								constrained = true
								if ordOfInts(v, 0)&f.Ord == 0 {
									satisfied = false
								}
							}
						case core.FCmp:
							if f.X == nil || f.Y == nil {
								continue
							}
							if k, ok := core.TermInt(f.Y); ok && pt(f.X) {
								constrained = true
								if ordOfInts(v, k)&f.Ord == 0 {
									satisfied = false
								}
							} else if k, ok := core.TermInt(f.X); ok && pt(f.Y) {
								constrained = true
								if ordOfInts(k, v)&f.Ord == 0 {
									satisfied = false
								}
							}
						}
					}
					if constrained && satisfied {
						bad += fmt.Sprintf("the error return guarded at %s is taken for %s = %d; ", c.pos(g.iff), p.Name(), v)
					}
				}
				c.r.Check(bad == "", rule, key, c.fpos(fn), "no lower-edge guard rejects the value", bad+"that value is admissible (an encryption of 0 with randomiser 1 is the ciphertext 1; c^0 = 1): refusing it makes honest MtA runs with a zero multiplier abort")
			}
		}
	}
	c.r.Floor(rule, 8)
	_ = n
}

func plaintextLike(name string) bool {
	switch name {
	case "m", "msg", "x", "k":
		return true
	}
	return false
}

func ordOfInts(a, b int64) core.Ord {
	switch {
	case a < b:
		return core.LT
	case a > b:
		return core.GT
	}
	return core.EQ
}

var _ = ssa.Value(nil)
