package rules

import (
	"fmt"
	"go/types"

	"golang.org/x/tools/go/ssa"

	"tsscheck/internal/core"
)

func init() { Registry["C15"] = runC15 }

func runC15(p *core.Prog, r *core.Report) {
	c := &ctx{p, r}
	r.Explain = "Feldman VSS (crypto/vss): (R15.1) in CheckIndexes the zero test and the duplicate-set key are both computed from `id mod curve order` for every element of the list (for-all loop fact), the duplicate edge and the zero edge return errors, and the set is updated on every iteration; (R15.2) in Create the nil/threshold/count guards and the nil-error edge of CheckIndexes dominate sampling, every share evaluation and every commitment; shares are evaluated at the checked ids with the same threshold and polynomial; v[k] = poly[k]*G and poly[0] is the secret; (R15.3) in Verify the arity guard (share.Threshold == threshold, len(vs) == threshold+1, vs != nil) dominates the loop, the loop runs j = 1..threshold, the result is the Equals of share*G with the accumulated point, and a failing point addition returns false."
	r.Undec = "that dealt shares lie on one degree-t polynomial, reconstruction from subsets, and that every altered component fails verification (group algebra over runtime values)."
	r.Assume = []string{"big.Int.String / Bytes are injective on non-negative integers"}
	c15CheckIndexes(c)
	c15Create(c)
	c15Verify(c)
	c15Reconstruct(c)
	aliasedInPlaceUpdates(c, "RA.1", "crypto/vss", "common")
}

// onlyUnder: every occurrence of a term matching elem inside t is the first argument of a
// Mod(·, m) node with m matching mod.
func onlyUnder(t *T, elem, mod M) (occurs bool, ok bool) {
	ok = true
	var walk func(t *T, under bool)
	walk = func(t *T, under bool) {
		if elem(t) {
			occurs = true
			if !under {
				ok = false
			}
			return
		}
		for i, a := range t.Args {
			walk(a, t.Op == "Mod" && i == 0 && len(t.Args) == 2 && mod(t.Args[1]))
		}
	}
	walk(t, false)
	return
}

func c15CheckIndexes(c *ctx) {
	const rule = "R15.1"
	fn := c.mustFunc(rule, "crypto/vss", "CheckIndexes")
	if fn == nil {
		return
	}
	okBlocks := nilErrReturnBlocks(fn, 1)
	if len(okBlocks) == 0 {
		c.r.Unk(rule, fkey(rule, fn, "success-return"), c.fpos(fn), "no non-error return")
		return
	}
	idxs := paramIs(fn, 1)
	elem := func(t *T) bool { return t.Op == "[]" && idxs(t.Args[0]) }
	order := func(t *T) bool { return core.IsCurveOrder(t) }
	// (a) zero test modulo q for all elements
	zeroOK := true
	for _, b := range okBlocks {
		found := false
		for _, ff := range core.ForallFactsAt(b, 1) {
			if !loopOver(ff.Loop, fn.Params[1]) {
				continue
			}
			// (id mod q).Sign() != 0 says the same as (id mod q).Cmp(zero) != 0
			if ff.Kind == core.FSign && ff.X != nil && ff.Ord&core.EQ == 0 {
				if occ, under := onlyUnder(ff.X, elem, order); occ && under {
					found = true
				}
				continue
			}
			if ff.Kind != core.FCmp {
				continue
			}
			x, y, o := ff.X, ff.Y, ff.Ord
			if core.IsZeroTerm(x) {
				x, y, o = y, x, o.Flip()
			}
			if !core.IsZeroTerm(y) || o&core.EQ != 0 {
				continue
			}
			if occ, under := onlyUnder(x, elem, order); occ && under {
				found = true
			}
		}
		if !found {
			zeroOK = false
		}
	}
	c.r.Check(zeroOK, rule, fkey(rule, fn, "zero-test-mod-q"), c.fpos(fn), "for every id: (id mod q) != 0 on the success path", "the success return is reachable with an id that is 0 modulo the group order (the zero test is missing, not modulo q, or does not cover every element)")
	// (b) duplicate detection keyed by id mod q
	var lookups []*ssa.Lookup
	var updates []*ssa.MapUpdate
	for _, b := range fn.Blocks {
		for _, in := range b.Instrs {
			switch x := in.(type) {
			case *ssa.Lookup:
				if x.CommaOk {
					lookups = append(lookups, x)
				} else if mt, isMap := x.X.Type().Underlying().(*types.Map); isMap {
					// a set kept as map[key]bool: the value looked up is the membership flag
					if bt, isB := mt.Elem().Underlying().(*types.Basic); isB && bt.Kind() == types.Bool {
						lookups = append(lookups, x)
					}
				}
			case *ssa.MapUpdate:
				updates = append(updates, x)
			}
		}
	}
	dupOK := len(lookups) == 1 && len(updates) == 1
	why := ""
	if dupOK {
		lk, up := lookups[0], updates[0]
		if core.Strip(lk.X) != core.Strip(up.Map) {
			dupOK = false
			why = "lookup and update use different sets"
		}
		kt, ut := core.TermOf(lk.Index), core.TermOf(up.Key)
		if kt.Key() != ut.Key() {
			dupOK = false
			why = "lookup key and inserted key differ"
		}
		if occ, under := onlyUnder(kt, elem, order); !occ || !under {
			dupOK = false
			why = "the duplicate-set key " + kt.Key() + " is not computed from (id mod q): ids congruent modulo the group order are not detected"
		}
		// the found edge must not reach the success return; the update must run on every iteration
		found := false
		for _, b := range okBlocks {
			for _, ff := range core.ForallFactsAt(b, 0) {
				if ff.Kind == core.FBool && !ff.Bool && ff.X != nil {
					if ex, ok := ff.X.V.(*ssa.Extract); ok && ex.Tuple == ssa.Value(lk) && ex.Index == 1 && loopOver(ff.Loop, fn.Params[1]) {
						found = true
					}
					if !lk.CommaOk && ff.X.V == ssa.Value(lk) && loopOver(ff.Loop, fn.Params[1]) {
						// map[key]bool: the looked-up value is false for every element on the success path,
						// and what is inserted is the constant true
						if v, isK := core.ConstBool(core.Strip(up.Value)); isK && v {
							found = true
						}
					}
				}
			}
		}
		if !found {
			dupOK = false
			why = "a found duplicate does not prevent the success return for every element"
		}
		for _, l := range core.Loops(fn) {
			if l.In[up.Block()] {
				for _, la := range l.Latches() {
					if !up.Block().Dominates(la) {
						dupOK = false
						why = "the set is not updated on every iteration"
					}
				}
			}
		}
	} else {
		why = fmt.Sprintf("expected one set lookup and one set update, found %d/%d", len(lookups), len(updates))
	}
	c.r.Check(dupOK, rule, fkey(rule, fn, "duplicate-test-mod-q"), c.fpos(fn), "duplicates are detected on (id mod q) for every element", why)
	// (c) success returns the checked list
	retOK := true
	for _, b := range okBlocks {
		ret := b.Instrs[len(b.Instrs)-1].(*ssa.Return)
		if core.TermOf(ret.Results[0]).Key() != paramTerm(fn, 1).Key() {
			retOK = false
		}
	}
	c.r.Check(retOK, rule, fkey(rule, fn, "returns-checked-list"), c.fpos(fn), "the list returned is the list checked", "the returned list is not the checked parameter")
	c.r.Floor(rule, 3)
}

// loopOver: l is a range-by-index loop over all of slice parameter p (0 ≤ idx < len(p)).
func loopOver(l *core.Loop, p *ssa.Parameter) bool {
	if l == nil || l.Lo != 0 || l.HiIncl {
		return false
	}
	t := core.TermOf(l.Hi)
	return t.Op == "call:len" && len(t.Args) == 1 && t.Args[0].Key() == core.TermOf(p).Key()
}

func c15Create(c *ctx) {
	const rule = "R15.2"
	fn := c.mustFunc(rule, "crypto/vss", "Create")
	if fn == nil {
		return
	}
	// Create(ec0, threshold1, secret2, indexes3, rand4)
	cis := core.CallsTo(fn, "~/crypto/vss.CheckIndexes")
	if len(cis) != 1 {
		c.r.Bad(rule, fkey(rule, fn, "CheckIndexes-call"), c.fpos(fn), fmt.Sprintf("expected one CheckIndexes call, found %d", len(cis)))
		return
	}
	ci := cis[0].(*ssa.Call)
	okArgs := core.TermOf(ci.Call.Args[0]).Key() == paramTerm(fn, 0).Key() && core.TermOf(ci.Call.Args[1]).Key() == paramTerm(fn, 3).Key()
	c.r.Check(okArgs, rule, fkey(rule, fn, "checks-own-indexes"), c.pos(ci), "CheckIndexes(ec, indexes) on the function's own parameters", "CheckIndexes is not applied to the function's own curve and id list")
	errV := extractOf(ci, 1)
	guarded := func(in ssa.Instruction) (bool, string) {
		facts := core.TFactsAt(in.Block(), 1)
		if !core.HasNilFact(facts, func(t *T) bool { return t.V == errV }, true) {
			return false, "not dominated by the nil-error edge of CheckIndexes"
		}
		if core.PossibleIntCmp(facts, paramIs(fn, 1), 1)&core.LT != 0 {
			return false, "not dominated by the threshold >= 1 guard"
		}
		if !core.HasNilFact(facts, paramIs(fn, 2), false) || !core.HasNilFact(facts, paramIs(fn, 3), false) {
			return false, "not dominated by the nil guards on secret and indexes"
		}
		return true, ""
	}
	sinks := 0
	for _, g := range unitFuncs(fn) {
		for _, cs := range core.Calls(g) {
			if core.CallIs(cs, "~/crypto/vss.samplePolynomial", "~/crypto/vss.evaluatePolynomial", "~/crypto.ScalarBaseMult") || (g == fn && core.CallIs(cs, "~/common.GetRandomPositiveInt")) {
				sinks++
				// judged where the step happens in Create: the call itself, or the call of the helper holding it
				var at ssa.Instruction = cs
				if core.Outermost(g) != fn {
					at = nil
					for _, c2 := range core.Calls(fn) {
						if core.Callee(c2) == core.Outermost(g) {
							at = c2
						}
					}
				}
				if at == nil {
					c.r.Bad(rule, fkey(rule, fn, "deal-after-check:"+shortName(core.CalleeName(cs))), c.pos(cs), "dealing step in a helper that Create does not call directly")
					continue
				}
				ok, why := guarded(at)
				c.r.Check(ok, rule, fkey(rule, fn, "deal-after-check:"+shortName(core.CalleeName(cs))), c.pos(cs), "dealing step dominated by all refusal guards", "dealing step "+shortName(core.CalleeName(cs))+" is "+why)
			}
		}
	}
	// count guard: len(indexes) >= threshold on success
	cntOK := true
	for _, b := range nilErrReturnBlocks(fn, 2) {
		facts := core.TFactsAt(b, 0)
		found := false
		for _, f := range facts {
			if f.Kind != core.FInt || f.X == nil || f.Y == nil {
				continue
			}
			x, y, o := f.X, f.Y, f.Ord
			if paramIs(fn, 1)(x) {
				x, y, o = y, x, o.Flip()
			}
			if x.Op == "call:len" && paramIs(fn, 3)(x.Args[0]) && paramIs(fn, 1)(y) && o&core.LT == 0 {
				found = true
			}
		}
		if !found {
			cntOK = false
		}
	}
	c.r.Check(cntOK, rule, fkey(rule, fn, "count>=threshold"), c.fpos(fn), "success requires len(indexes) >= threshold", "success is reachable with fewer ids than the threshold")
	// shares evaluated at the checked ids with the same threshold and polynomial
	evs := core.CallsTo(fn, "~/crypto/vss.evaluatePolynomial")
	sps := core.CallsTo(fn, "~/crypto/vss.samplePolynomial")
	// the polynomial: the result of samplePolynomial(ec, threshold, secret, rand), or — the helper written
	// out in Create — a list made with threshold+1 slots whose slot 0 is the secret
	var poly ssa.Value
	inlinedPoly := false
	if len(sps) == 1 {
		poly = sps[0].(*ssa.Call)
	} else if len(sps) == 0 {
		for _, b := range fn.Blocks {
			for _, in := range b.Instrs {
				mk, isMk := in.(*ssa.MakeSlice)
				if !isMk {
					continue
				}
				lt := core.TermOf(mk.Len)
				if !(lt.Op == "bin+" && ((paramIs(fn, 1)(lt.Args[0]) && constIs(lt.Args[1], 1)) || (paramIs(fn, 1)(lt.Args[1]) && constIs(lt.Args[0], 1)))) {
					continue
				}
				if refs := mk.Referrers(); refs != nil {
					for _, r := range *refs {
						if ia, isIA := r.(*ssa.IndexAddr); isIA && ia.Referrers() != nil {
							if k, isK := core.ConstInt(ia.Index); isK && k == 0 {
								for _, u := range *ia.Referrers() {
									if st, isSt := u.(*ssa.Store); isSt && st.Addr == ssa.Value(ia) && core.TermOf(st.Val).Key() == paramTerm(fn, 2).Key() {
										poly, inlinedPoly = mk, true
									}
								}
							}
						}
					}
				}
			}
		}
	}
	shOK := len(evs) == 1 && poly != nil
	why := ""
	if shOK {
		ev := evs[0].(*ssa.Call)
		// samplePolynomial(ec, threshold, secret, rand)
		if sp, isCall := poly.(*ssa.Call); isCall && (core.TermOf(sp.Call.Args[1]).Key() != paramTerm(fn, 1).Key() || core.TermOf(sp.Call.Args[2]).Key() != paramTerm(fn, 2).Key() || core.TermOf(sp.Call.Args[3]).Key() != paramTerm(fn, 4).Key()) {
			shOK = false
			why += "samplePolynomial is not called with (threshold, secret, rand); "
		}
		// evaluatePolynomial(ec, threshold, poly, ids[i])
		if core.TermOf(ev.Call.Args[1]).Key() != paramTerm(fn, 1).Key() || core.Strip(ev.Call.Args[2]) != poly {
			shOK = false
			why += "evaluatePolynomial does not use the same threshold and the sampled polynomial; "
		}
		idT := core.TermOf(ev.Call.Args[3])
		ids := extractOf(ci, 0)
		if !(idT.Op == "[]" && idT.Args[0].V == ids) {
			shOK = false
			why += "shares are not evaluated at the checked ids; "
		}
		// the Share struct stores {threshold, ids[i], share}
		var shareAlloc ssa.Value
		if refs := ev.Referrers(); refs != nil {
			for _, in := range *refs {
				if st, ok := in.(*ssa.Store); ok && st.Val == ssa.Value(ev) {
					if fa, ok := st.Addr.(*ssa.FieldAddr); ok {
						shareAlloc = fa.X
					}
				}
			}
		}
		if shareAlloc == nil {
			shOK = false
			why += "the evaluated share is not stored in a Share; "
		} else {
			sf := storedFields(shareAlloc)
			if sf["Threshold"] == nil || core.TermOf(sf["Threshold"]).Key() != paramTerm(fn, 1).Key() {
				shOK = false
				why += "Share.Threshold is not the threshold parameter; "
			}
			if sf["ID"] == nil || core.TermOf(sf["ID"]).Key() != idT.Key() {
				shOK = false
				why += "Share.ID is not the id the share was evaluated at; "
			}
		}
		// loop over all ids
		lok := false
		for _, l := range core.Loops(fn) {
			if l.In[ev.Block()] && l.Lo == 0 && !l.HiIncl && core.TermOf(l.Idx).Key() == idT.Args[1].Key() {
				ht := core.TermOf(l.Hi)
				if ht.Op == "call:len" && paramIs(fn, 3)(ht.Args[0]) {
					lok = true
				}
				// len(ids) with ids the list the checker hands back: the same list when every successful
				// return of the checker returns its own argument
				if ht.Op == "call:len" && ht.Args[0].V == ids && paramIs(fn, 3)(core.TermOf(ci.Call.Args[1])) && returnsArgOnSuccess(core.Callee(ci), 1) {
					lok = true
				}
			}
		}
		if !lok {
			shOK = false
			why += "the dealing loop does not run over all ids; "
		}
	} else {
		why = "expected one samplePolynomial and one evaluatePolynomial call"
	}
	c.r.Check(shOK, rule, fkey(rule, fn, "shares-at-checked-ids"), c.fpos(fn), "share_i = poly(ids[i]) with the checked ids, same threshold, stored with that id", why)
	// commitments v[i] = poly[i]*G for all i
	var sbm []ssa.CallInstruction
	for _, g := range unitFuncs(fn) {
		if g.Parent() == nil {
			sbm = append(sbm, core.CallsTo(g, "~/crypto.ScalarBaseMult")...)
		}
	}
	vOK := len(sbm) == 1 && poly != nil
	if vOK {
		// (the commitment loop may sit in a private helper commitToPolynomial(ec, poly))
		call := sbm[0].(*ssa.Call)
		a := core.FrameParamTerm(fn, call.Call.Args[1])
		if !(a.Op == "[]" && a.Args[0].V == poly) {
			vOK = false
		}
		cov := false
		for _, l := range core.Loops(call.Parent()) {
			if l.In[call.Block()] && l.Lo == 0 && !l.HiIncl && a.Op == "[]" && core.FrameParamTerm(fn, l.Idx).Key() == a.Args[1].Key() {
				ht := core.FrameParamTerm(fn, l.Hi)
				if ht.Op == "call:len" && ht.Args[0].V == poly {
					cov = true
				}
			}
		}
		vOK = vOK && cov
	}
	c.r.Check(vOK, rule, fkey(rule, fn, "commitments=poly*G"), c.fpos(fn), "v[k] = poly[k]*G for every coefficient", "the commitments are not poly[k]*G for every coefficient of the sampled polynomial")
	// samplePolynomial: v[0] = secret, length threshold+1, other coefficients sampled below q from rand
	// (judged on Create itself when the helper has been written out there)
	sp := c.p.Func("crypto/vss", "samplePolynomial")
	secretIdx, randIdx := 2, 3
	if (sp == nil || sp.Blocks == nil) && inlinedPoly {
		sp, secretIdx, randIdx = fn, 2, 4
	} else if sp == nil || sp.Blocks == nil {
		sp = c.mustFunc(rule, "crypto/vss", "samplePolynomial")
	}
	if sp != nil {
		ok := false
		for _, b := range sp.Blocks {
			for _, in := range b.Instrs {
				if st, isSt := in.(*ssa.Store); isSt {
					if ia, isIA := st.Addr.(*ssa.IndexAddr); isIA {
						if k, isK := core.ConstInt(ia.Index); isK && k == 0 && core.TermOf(st.Val).Key() == paramTerm(sp, secretIdx).Key() {
							ok = true
						}
					}
				}
			}
		}
		rnd := core.CallsTo(sp, "~/common.GetRandomPositiveInt")
		okR := len(rnd) == 1
		if okR {
			rc := rnd[0].(*ssa.Call)
			okR = core.TermOf(rc.Call.Args[0]).Key() == paramTerm(sp, randIdx).Key() && core.IsCurveOrder(core.TermOf(rc.Call.Args[1]))
		}
		c.r.Check(ok && okR, rule, fkey(rule, sp, "poly[0]=secret"), c.fpos(sp), "constant coefficient is the secret; others sampled below q from rand", "the polynomial's constant term is not the secret, or coefficients are not sampled below the curve order from rand")
	}
	c.r.Floor(rule, 8)
}

func c15Verify(c *ctx) {
	const rule = "R15.3"
	fn := c.mustMethod(rule, "crypto/vss", "Share", "Verify")
	if fn == nil {
		return
	}
	// Verify(share0, ec1, threshold2, vs3)
	recv := paramTerm(fn, 0)
	thr := paramIs(fn, 2)
	// arity guards at the loop header and at the accept return
	accept := acceptBlocks(fn, 0, true)
	arOK := len(accept) > 0
	why := ""
	for _, b := range accept {
		facts := core.TFactsAt(b, 0)
		// share.Threshold == threshold
		if core.PossibleIntCmpT(facts, func(t *T) bool { return core.IsFieldOf(t, recv, "Threshold") }, thr) != core.EQ {
			arOK = false
			why += "share.Threshold == threshold is not enforced; "
		}
		// len(vs) == threshold+1
		if core.PossibleIntCmpT(facts, func(t *T) bool { return t.Op == "call:len" && paramIs(fn, 3)(t.Args[0]) }, func(t *T) bool {
			return t.Op == "bin+" && ((thr(t.Args[0]) && constIs(t.Args[1], 1)) || (thr(t.Args[1]) && constIs(t.Args[0], 1)))
		}) != core.EQ {
			arOK = false
			why += "len(vs) == threshold+1 is not enforced; "
		}
	}
	c.r.Check(arOK, rule, fkey(rule, fn, "arity-guard"), c.fpos(fn), "share.Threshold == threshold ∧ len(vs) == threshold+1 dominate acceptance", why)
	// loop j = 1..threshold
	lpOK := false
	var loop *core.Loop
	// the accumulation loop may sit in a private helper (evaluateInExponent(ec, threshold, vs, id) (point, error))
	for _, g := range unitFuncs(fn) {
		if g.Parent() != nil {
			continue
		}
		for _, l := range core.Loops(g) {
			if l.Lo == 1 && l.HiIncl && thr(core.FrameTerm(fn, l.Hi)) {
				lpOK = true
				loop = l
			}
			if l.Lo == 1 && !l.HiIncl {
				ht := core.FrameTerm(fn, l.Hi)
				if ht.Op == "bin+" && thr(ht.Args[0]) && constIs(ht.Args[1], 1) {
					lpOK = true
					loop = l
				}
			}
		}
	}
	if lpOK {
		if h := loop.Header.Parent(); h == fn {
			for _, b := range accept {
				if !core.EdgeDominates(loop.Header, 1, b) {
					lpOK = false
				}
			}
		} else {
			// in the helper every success return follows the loop's exit, and fn accepts only behind the
			// helper's nil-error edge
			for _, ret := range core.SuccessReturns(h) {
				if !core.EdgeDominates(loop.Header, 1, ret.Block()) {
					lpOK = false
				}
			}
			var hcall *ssa.Call
			for _, cs := range core.Calls(fn) {
				if cc, ok := cs.(*ssa.Call); ok && core.Callee(cc) == h {
					hcall = cc
				}
			}
			if hcall == nil {
				lpOK = false
			} else {
				errV := extractOf(hcall, hcall.Call.Signature().Results().Len()-1)
				for _, b := range accept {
					if errV == nil || !core.HasNilFact(core.TFactsAt(b, 0), func(t *T) bool { return t.V == errV }, true) {
						lpOK = false
					}
				}
			}
		}
	}
	c.r.Check(lpOK, rule, fkey(rule, fn, "loop-1..threshold"), c.fpos(fn), "the accumulation loop runs j = 1..threshold and acceptance is only reachable through its exit", "no loop over j = 1..threshold dominating acceptance")
	// result = ScalarBaseMult(ec, share.Share).Equals(accumulated point depending on vs and share.ID)
	resOK := false
	why = "the result is not Equals(share*G, accumulated commitments)"
	for _, b := range accept {
		ret := b.Instrs[len(b.Instrs)-1].(*ssa.Return)
		call, ok := core.IsCallTo(core.Strip(ret.Results[0]), "(*~/crypto.ECPoint).Equals")
		if !ok {
			continue
		}
		a0, a1 := call.Call.Args[0], call.Call.Args[1]
		lhs, isS := core.IsCallTo(core.Strip(a0), "~/crypto.ScalarBaseMult")
		other := a1
		if !isS {
			lhs, isS = core.IsCallTo(core.Strip(a1), "~/crypto.ScalarBaseMult")
			other = a0
		}
		if !isS || !core.IsFieldOf(core.TermOf(lhs.Call.Args[1]), recv, "Share") || core.TermOf(lhs.Call.Args[0]).Key() != paramTerm(fn, 1).Key() {
			why = "the left side is not ScalarBaseMult(ec, share.Share)"
			continue
		}
		d := core.DepsOf(fn, false, other)
		if d["param:3"] && d["ID"] && d["param:1"] {
			resOK = true
		} else {
			why = fmt.Sprintf("the accumulated point depends on %v, expected vs (param 3), share.ID and ec", keys(d))
		}
	}
	c.r.Check(resOK, rule, fkey(rule, fn, "result=Equals(share*G,acc)"), c.fpos(fn), "result is share*G == Σ id^j·v_j", why)
	// Add error → false
	// (point additions, and calls of private helpers that hand their addition error back)
	type errCall struct {
		call   *ssa.Call
		accept []*ssa.BasicBlock
	}
	var adds []errCall
	for _, g := range unitFuncs(fn) {
		if g.Parent() != nil {
			continue
		}
		acc := accept
		if g != fn {
			acc = nil
			for _, ret := range core.SuccessReturns(g) {
				acc = append(acc, ret.Block())
			}
		}
		for _, cs := range core.Calls(g) {
			cc, ok := cs.(*ssa.Call)
			if !ok || cc.Call.IsInvoke() {
				continue
			}
			isHelperErr := g == fn && core.PrivateHelper(core.Callee(cc)) && cc.Call.Signature().Results().Len() == 2 && len(core.CallsTo(core.Callee(cc), "(*~/crypto.ECPoint).Add")) > 0
			if core.CallIs(cc, "(*~/crypto.ECPoint).Add") || isHelperErr {
				adds = append(adds, errCall{cc, acc})
			}
		}
	}
	addOK := len(adds) >= 1
	for _, ec := range adds {
		call := ec.call
		accept := ec.accept
		ev := extractOf(call, 1)
		if ev == nil {
			addOK = false
			continue
		}
		// find the If on err != nil: its non-nil edge must not reach accept
		found := false
		for _, b := range call.Parent().Blocks {
			if len(b.Instrs) == 0 {
				continue
			}
			iff, ok := b.Instrs[len(b.Instrs)-1].(*ssa.If)
			if !ok {
				continue
			}
			for s := 0; s < 2; s++ {
				for _, f := range core.CondFacts(iff.Cond, s == 0, iff) {
					if f.Kind == core.FNil && !f.Bool && core.Strip(f.X) == ev {
						if !anyReach(b.Succs[s], accept) && core.InstrDominates(call, iff) {
							// and every path from the call to acceptance passes this test
							found = true
						}
					}
				}
			}
		}
		if !found {
			addOK = false
		}
	}
	c.r.Check(addOK, rule, fkey(rule, fn, "add-error-rejects"), c.fpos(fn), "a failing point addition returns false", "a failing point addition can still lead to acceptance")
	c.r.Floor(rule, 4)
}

// returnsArgOnSuccess: every return of f whose error result is the nil constant returns parameter k as
// its first result (and there is such a return).
func returnsArgOnSuccess(f *ssa.Function, k int) bool {
	if f == nil || f.Blocks == nil || k >= len(f.Params) {
		return false
	}
	n := 0
	for _, b := range f.Blocks {
		ret, ok := b.Instrs[len(b.Instrs)-1].(*ssa.Return)
		if !ok || len(ret.Results) != 2 {
			continue
		}
		if !core.IsNilConst(core.Strip(ret.Results[1])) {
			// an error return must not hand out a list
			if !core.IsNilConst(core.Strip(ret.Results[0])) {
				return false
			}
			continue
		}
		if core.Strip(ret.Results[0]) != ssa.Value(f.Params[k]) {
			return false
		}
		n++
	}
	return n > 0
}
