package rules

import (
	"fmt"
	"strings"

	"golang.org/x/tools/go/ssa"

	"tsscheck/internal/core"
)

// c15Reconstruct (R15.4): in Shares.ReConstruct the Lagrange coefficients and the summed terms range
// over the same set of shares — the list of x-coordinates is collected from the very slice value the
// interpolation loop ranges over, the inner product runs over the whole coordinate list and skips
// only the own index, and every term enters the sum. Collecting the coordinates from one list and
// summing over another (a truncated or filtered copy) silently yields another polynomial's value.
func c15Reconstruct(c *ctx) {
	const rule = "R15.4"
	fn := c.p.Method("crypto/vss", "Shares", "ReConstruct")
	if fn == nil {
		c.r.Unk(rule, core.Key(rule, "crypto/vss", "ReConstruct", "anchor"), "crypto/vss", "Shares.ReConstruct not found")
		return
	}
	loops := loopsOf(fn)
	rangeOf := func(l *core.Loop) ssa.Value {
		t := core.TermOf(l.Hi)
		if t.Op == "call:len" && t.Args[0].V != nil {
			return core.Strip(t.Args[0].V)
		}
		return nil
	}
	// the loop that collects the x-coordinates: contains append(xs, <elem>.ID)
	var collect, outer, inner *core.Loop
	var xsFinal ssa.Value
	for _, l := range loops {
		for b := range l.In {
			for _, in := range b.Instrs {
				call, ok := in.(*ssa.Call)
				if !ok {
					continue
				}
				if bi, isB := call.Call.Value.(*ssa.Builtin); isB && bi.Name() == "append" {
					if segs, okS := core.SeqOf(call.Call.Args[1]); okS {
						for _, s := range segs {
							if s.Kind != "elem" || s.V == nil {
								continue
							}
							if fr := core.AsFieldLoad(core.Strip(s.V)); fr != nil && fr.Name == "ID" {
								collect = l
							} else if strings.HasSuffix(descr(s.V), ".ID") {
								collect = l
							}
						}
					}
				}
			}
		}
	}
	// the interpolation: an outer loop containing an inner counted loop
	for _, lo := range loops {
		for _, li := range loops {
			if lo != li && lo.In[li.Header] {
				outer, inner = lo, li
			}
		}
	}
	// the inner product factored into a private helper called from the interpolation loop:
	// lagrangeCoefficient(xs, i) with its own loop over xs
	if inner == nil {
		for _, lo := range loops {
			if lo == collect {
				continue
			}
			for b := range lo.In {
				for _, in := range b.Instrs {
					call, ok := in.(*ssa.Call)
					if !ok {
						continue
					}
					if h := core.Callee(call); core.PrivateHelper(h) && !call.Call.IsInvoke() && h.Pkg == fn.Pkg {
						if hl := loopsOf(h); len(hl) == 1 {
							outer, inner = lo, hl[0]
						}
					}
				}
			}
		}
	}
	key := fkey(rule, fn, "coordinates-and-terms-range-over-one-list")
	if collect == nil || outer == nil || inner == nil {
		c.r.Unk(rule, key, c.fpos(fn), fmt.Sprintf("loop structure not recognised (collect=%v outer=%v inner=%v)", collect != nil, outer != nil, inner != nil))
		return
	}
	s1, s2 := rangeOf(collect), rangeOf(outer)
	// the inner loop runs over the collected list
	if xl := rangeOf(inner); xl != nil {
		xsFinal = core.ResolveIn(fn, xl)
	}
	okSame := s1 != nil && s2 != nil && s1 == s2
	okInner := false
	if xsFinal != nil {
		// xs after the collecting loop: the loop-carried accumulator of the appends
		w := core.NewDepWalker(fn, false)
		w.Walk(xsFinal)
		for v := range w.SeenSet() {
			if call, ok := v.(*ssa.Call); ok {
				if bi, isB := call.Call.Value.(*ssa.Builtin); isB && bi.Name() == "append" && collect.In[call.Block()] {
					okInner = true
				}
			}
		}
	}
	// the inner loop skips only j == i
	skipOK := false
	for b := range inner.In {
		if coverageAgainst(fn, inner, b, outer) {
			skipOK = true
		}
	}
	c.r.Check(okSame && okInner && skipOK, rule, key, c.fpos(fn), "x-coordinates are collected from the list the interpolation ranges over; the inner product covers it except the own index",
		fmt.Sprintf("the x-coordinates are collected from %s, the terms are summed over %s (same list: %v; inner product over the collected list: %v; skips only the own index: %v): with more shares than terms the Lagrange coefficients belong to another point set and the result is not the secret",
			valDescr(s1), valDescr(s2), okSame, okInner, skipOK))
	c.r.Floor(rule, 1)
}

func valDescr(v ssa.Value) string {
	if v == nil {
		return "?"
	}
	return descr(v)
}

// coverageAgainst: block b of loop `in` executes for every index except the one equal to the index of
// loop `out` (if j == i { continue }).
func coverageAgainst(fn *ssa.Function, in *core.Loop, b *ssa.BasicBlock, out *core.Loop) bool {
	n := 0
	ok := false
	for _, f := range core.FactsAt(b) {
		if f.If == nil || !in.In[f.If.Block()] || f.If.Block() == in.Header {
			continue
		}
		n++
		if f.Kind == core.FInt && f.Ord&core.EQ == 0 {
			// the outer index may arrive as an argument of the helper holding the inner loop
			x, y := core.Strip(f.X), core.Strip(f.Y)
			rx, ry := core.ResolveIn(fn, x), core.ResolveIn(fn, y)
			if (x == core.Strip(in.Idx) && ry == core.Strip(out.Idx)) || (y == core.Strip(in.Idx) && rx == core.Strip(out.Idx)) {
				ok = true
			}
		}
	}
	return ok && n == 1
}
