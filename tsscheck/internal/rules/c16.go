package rules

import (
	"fmt"
	"go/token"
	"go/types"
	"strings"

	"golang.org/x/tools/go/ssa"

	"tsscheck/internal/core"
)

func init() { Registry["C16"] = runC16 }

func runC16(p *core.Prog, r *core.Report) {
	c := &ctx{p, r}
	r.Explain = "Hash framing and commitments: (R16.1) in each of SHA512_256, SHA512_256i, SHA512_256i_TAGGED the only data written to the hash state is one buffer built as LE64(count of inputs) followed, in one loop over all inputs in order with no skip edge, by element bytes ‖ delimiter constant ‖ LE64(len of that same element's bytes) — the length operand is value-identical to the bytes appended in the same iteration; (R16.2) the three loop bodies agree up to the element conversion; (R16.3) the tagged variant writes SHA512_256(tag) twice before the buffer; (R16.4) commitment layout: D = [r, secrets…] in order, C = SHA512_256i(D…), r is a fresh HashLength-bit sample, Verify recomputes the hash over exactly D and rejects on inequality, DeCommit returns D[1:] only on Verify's true edge; (R16.5) AddPart appends exactly the part handed in on every path, Secrets() emits len(part) then the part for every part after the cap guards, ParseSecrets' slice expression is dominated by bound guards, an input that ends right after a length prefix yields the (empty) part or an error, and an input of one element reaches the parsing loop; the framing of R16.1 may be factored into private helpers and is read through them. With this layout a pre-image is cnt ‖ (b_i ‖ '$' ‖ len(b_i))*, which is uniquely decodable from the end, so the map from input sequences to pre-images is injective (paper argument, DESIGN §4.16)."
	r.Undec = "collision resistance of SHA-512/256; that big.Int.Bytes() forgets the sign and that nil and 0 coincide in the tagged variant (inputs are assumed non-negative)."
	r.Assume = []string{"encoding/binary.LittleEndian.PutUint64 writes the 8-byte little-endian encoding of its argument", "hash.Hash.Write appends to the hashed stream"}
	var forms []string
	for _, name := range []string{"SHA512_256", "SHA512_256i", "SHA512_256i_TAGGED"} {
		if f := c16Framing(c, "R16.1", name); f != "" {
			forms = append(forms, f)
		}
	}
	// R16.2 sibling agreement
	ok := len(forms) == 3 && forms[0] == forms[1] && forms[1] == forms[2]
	c.r.Check(ok, "R16.2", core.Key("R16.2", "common", "SHA512_256*", "sibling-agreement"), "common/hash.go", "the three framing loops have the same canonical form: "+strings.Join(forms[:min(1, len(forms))], ""), fmt.Sprintf("the framing loops of the three hash functions differ: %v", forms))
	c16Tagged(c, "R16.3")
	c16Commit(c)
	c16Builder(c)
}

func min(a, b int) int {
	if a < b {
		return a
	}
	return b
}

// appendOf: v = append(base, x...) → (base, x)
func appendOf(v ssa.Value) (base, x ssa.Value, ok bool) {
	c, isC := core.Strip(v).(*ssa.Call)
	if !isC {
		return nil, nil, false
	}
	b, isB := c.Call.Value.(*ssa.Builtin)
	if !isB || b.Name() != "append" || len(c.Call.Args) != 2 {
		return nil, nil, false
	}
	return c.Call.Args[0], c.Call.Args[1], true
}

// le64Of: v is a slice over an 8-byte buffer on which LittleEndian.PutUint64(v, uint64(X)) is called; returns X.
// With several such calls on one (reused) buffer, the one whose value the use at `at` reads: the latest
// call dominating `at`, provided no other call can run between it and `at`.
func le64Of(v ssa.Value, at ssa.Instruction) (ssa.Value, bool) {
	v = core.Strip(v)
	refs := v.Referrers()
	if refs == nil {
		return nil, false
	}
	// the buffer must be 8 bytes
	if n, ok := core.LenOf(v); !ok || n != 8 {
		return nil, false
	}
	var puts []*ssa.Call
	for _, in := range *refs {
		if c, ok := in.(*ssa.Call); ok && core.CallIs(c, "(encoding/binary.littleEndian).PutUint64") && len(c.Call.Args) == 3 && c.Call.Args[1] == v {
			puts = append(puts, c)
		}
	}
	var pick *ssa.Call
	switch {
	case len(puts) == 1:
		pick = puts[0]
	case len(puts) > 1 && at != nil:
		for _, c := range puts {
			if c.Parent() != at.Parent() || !core.InstrDominates(c, at) {
				continue
			}
			latest := true
			for _, d := range puts {
				if d == c {
					continue
				}
				if d.Parent() != at.Parent() {
					latest = false
				} else if core.InstrDominates(d, at) {
					if !core.InstrDominates(d, c) {
						latest = false
					}
				} else if core.InstrReaches(d, at) {
					latest = false
				}
			}
			if latest {
				pick = c
			}
		}
	}
	if pick == nil {
		return nil, false
	}
	arg := pick.Call.Args[2]
	if cv, ok := arg.(*ssa.Convert); ok {
		arg = cv.X
	}
	return arg, true
}

// lenArg: v = len(X) → X
func lenArg(v ssa.Value) (ssa.Value, bool) {
	c, ok := core.Strip(v).(*ssa.Call)
	if !ok {
		return nil, false
	}
	if b, isB := c.Call.Value.(*ssa.Builtin); isB && b.Name() == "len" {
		return c.Call.Args[0], true
	}
	return nil, false
}

// c16Framing checks one hash function and returns the canonical form of its loop body.
func c16Framing(c *ctx, rule, name string) string {
	fn := c.mustFunc(rule, "common", name)
	if fn == nil {
		return ""
	}
	key := func(s string) string { return fkey(rule, fn, s) }
	inParam := fn.Params[len(fn.Params)-1] // the variadic input list
	// the hash state and its writes
	var state ssa.Value
	for _, cs := range core.Calls(fn) {
		if core.CallIs(cs, "(crypto.Hash).New") {
			state = cs.(*ssa.Call)
		}
	}
	if state == nil {
		c.r.Unk(rule, key("state"), c.fpos(fn), "hash state creation not found")
		return ""
	}
	var writes []*ssa.Call
	var sum *ssa.Call
	for _, cs := range core.Calls(fn) {
		call, ok := cs.(*ssa.Call)
		if !ok || !call.Call.IsInvoke() || core.Strip(call.Call.Value) != state {
			continue
		}
		switch call.Call.Method.Name() {
		case "Write":
			writes = append(writes, call)
		case "Sum":
			sum = call
		}
	}
	wantWrites := 1
	if name == "SHA512_256i_TAGGED" {
		wantWrites = 3
	}
	if len(writes) != wantWrites || sum == nil {
		c.r.Bad(rule, key("single-buffer"), c.fpos(fn), fmt.Sprintf("expected %d Write call(s) on the hash state and one Sum, found %d writes", wantWrites, len(writes)))
		return ""
	}
	dataWrite := writes[len(writes)-1]
	// the framing may be factored into private helpers of the package (one block per call, or the whole
	// loop): helper results and parameters are read through (core.ResolveIn)
	rs := func(v ssa.Value) ssa.Value { return core.ResolveIn(fn, v) }
	rt := func(v ssa.Value) *T { return core.FrameTerm(fn, v) }
	appendOfR := func(v ssa.Value) (base, x ssa.Value, call *ssa.Call, ok bool) {
		c, isC := rs(v).(*ssa.Call)
		if !isC {
			return nil, nil, nil, false
		}
		b, isB := c.Call.Value.(*ssa.Builtin)
		if !isB || b.Name() != "append" || len(c.Call.Args) != 2 {
			return nil, nil, nil, false
		}
		return c.Call.Args[0], c.Call.Args[1], c, true
	}
	data := rs(dataWrite.Call.Args[0])
	phi, ok := data.(*ssa.Phi)
	if !ok || len(phi.Edges) != 2 {
		c.r.Bad(rule, key("single-buffer"), c.pos(dataWrite), "the buffer written to the hash is not the result of one framing loop")
		return ""
	}
	lf := phi.Parent() // the function holding the framing loop: fn or a private helper of it
	// result derives from Sum of the same state, after the Write
	resOK := core.InstrDominates(dataWrite, sum)
	for _, ret := range core.Returns(fn) {
		if core.IsNilConst(core.Strip(ret.Results[0])) {
			continue
		}
		w := core.NewDepWalker(fn, false)
		w.Walk(ret.Results[0])
		if !w.Seen(sum) {
			resOK = false
		}
	}
	c.r.Check(resOK, rule, key("single-buffer"), c.pos(dataWrite), "one buffer is written to the state; the digest returned is Sum() of that state after the write", "the returned digest is not Sum() of the state the framed buffer was written to")

	// loop identification
	var loop *core.Loop
	for _, l := range core.Loops(lf) {
		if l.Header == phi.Block() {
			loop = l
		}
	}
	if loop == nil {
		c.r.Bad(rule, key("loop"), c.pos(dataWrite), "framing loop not recognised")
		return ""
	}
	// len(table) of a table made with one slot per input is the number of inputs
	lenNorm := func(t *T) *T {
		if t.Op == "call:len" {
			if mk, isMk := valueOfTerm(t.Args[0]).(*ssa.MakeSlice); isMk {
				return rt(mk.Len)
			}
		}
		return t
	}
	hi := lenNorm(rt(loop.Hi))
	covers := loop.Lo == 0 && !loop.HiIncl && hi.Op == "call:len" && hi.Args[0].Key() == core.TermOf(inParam).Key()
	c.r.Check(covers, rule, key("loop-covers-all-inputs"), c.pos(dataWrite), "the framing loop runs over every input in order", "the framing loop does not run over all inputs 0..len(in)-1")

	// initial value: append(make, LE64(len(in)))
	var initV, backV ssa.Value
	for i, e := range phi.Edges {
		if loop.In[phi.Block().Preds[i]] {
			backV = e
		} else {
			initV = e
		}
	}
	cntOK := false
	if b, x, ac, ok := appendOfR(initV); ok {
		if _, isMk := rs(b).(*ssa.MakeSlice); isMk {
			if arg, ok := le64Of(rs(x), ac); ok {
				if la, ok := lenArg(rs(arg)); ok && lenNorm(&core.Term{Op: "call:len", Args: []*T{rt(la)}}).Key() == (&core.Term{Op: "call:len", Args: []*T{core.TermOf(inParam)}}).Key() {
					cntOK = true
				}
			}
		}
	}
	c.r.Check(cntOK, rule, key("count-prefix"), c.fpos(fn), "the buffer starts with LE64(len(inputs))", "the buffer does not start with the 8-byte little-endian count of inputs (different input counts can produce the same pre-image)")

	// an append executed on every iteration: in the loop's function its block dominates the latches; in a
	// helper called from the loop body its block dominates the helper's returns and the call the latches
	everyIteration := func(call *ssa.Call) bool {
		at := ssa.Instruction(call)
		for d := 0; at.Parent() != lf && d < 4; d++ {
			h := at.Parent()
			for _, ret := range core.Returns(h) {
				if !at.Block().Dominates(ret.Block()) {
					return false
				}
			}
			var site ssa.CallInstruction
			n := 0
			for _, g := range unitFuncs(lf) {
				for _, cs := range core.Calls(g) {
					if core.Callee(cs) == h {
						site = cs
						n++
					}
				}
			}
			if n != 1 {
				return false
			}
			at = site
		}
		if at.Parent() != lf {
			return false
		}
		for _, la := range loop.Latches() {
			if !at.Block().Dominates(la) {
				return false // conditional append: an input can be skipped
			}
		}
		return true
	}
	// per-iteration chain: back edge value = append(append(append(phi, elem), delim), LE64(len(elem)))
	var ops []ssa.Value
	var opCalls []*ssa.Call
	cur := backV
	chainOK := true
	for i := 0; i < 8; i++ {
		if rs(cur) == ssa.Value(phi) {
			break
		}
		b, x, call, ok := appendOfR(cur)
		if !ok {
			chainOK = false
			break
		}
		if !everyIteration(call) {
			chainOK = false
		}
		ops = append([]ssa.Value{x}, ops...)
		opCalls = append([]*ssa.Call{call}, opCalls...)
		cur = b
	}
	if !chainOK || len(ops) != 3 {
		c.r.Bad(rule, key("frame=elem|delim|len"), c.fpos(fn), fmt.Sprintf("each iteration must append exactly element bytes, delimiter, length unconditionally; found %d appends (conditional or unrecognised)", len(ops)))
		return ""
	}
	elem, delim, lenBuf := rs(ops[0]), rs(ops[1]), rs(ops[2])
	// delimiter: one constant byte
	delimOK := false
	var delimVal int64
	if segs, ok := core.SeqOf(delim); ok && len(segs) == 1 && segs[0].Kind == "elem" {
		if k, ok := core.ConstInt(segs[0].V); ok {
			delimOK, delimVal = true, k
		} else if g := core.TermOf(segs[0].V); g.Op == "const" {
			delimOK = true
		}
	}
	// length suffix: LE64(len(X)) with X the same value as the element appended
	lenOK := false
	lenWhy := "the length suffix is missing"
	if arg, ok := le64Of(lenBuf, opCalls[2]); ok {
		if la, ok := lenArg(rs(arg)); ok {
			if rt(la).Key() == rt(elem).Key() {
				lenOK = true
			} else {
				lenWhy = fmt.Sprintf("the length suffix encodes len(%s) but the bytes appended are %s: split points are not encoded", descr(la), descr(elem))
			}
		} else {
			lenWhy = "the 8-byte suffix is not the length of the element appended: " + descr(arg)
		}
	}
	c.r.Check(delimOK, rule, key("delimiter"), c.fpos(fn), fmt.Sprintf("constant delimiter byte %d after every element", delimVal), "no constant delimiter byte after the element")
	c.r.Check(lenOK, rule, key("length-suffix-of-same-element"), c.fpos(fn), "LE64(len(element)) follows the delimiter, for the very bytes appended in that iteration", lenWhy)
	// element = bytes of input i
	form := ""
	et := rt(elem)
	idxKey := rt(loop.Idx).Key()
	elemOK := false
	elemWhy := ""
	inKey := core.TermOf(inParam).Key()
	if et.Op == "[]" && et.Args[1].Key() == idxKey {
		if et.Args[0].Key() == inKey {
			elemOK = true
			form = "in[i]"
		} else if mk, ok := et.Args[0].V.(*ssa.MakeSlice); ok {
			// intermediate table: ptrs[i] must be filled from in[i] for every i
			f, why := tableFill(fn, mk, inParam)
			if f != "" {
				elemOK = true
				form = f
			} else {
				elemWhy = why
			}
		}
	}
	if !elemOK && elemWhy == "" {
		elemWhy = "the bytes appended (" + descr(elem) + ") are not the bytes of input i"
	}
	c.r.Check(elemOK, rule, key("element=input[i]"), c.fpos(fn), "iteration i appends the bytes of input i ("+form+")", elemWhy)
	if !(delimOK && lenOK && elemOK) {
		return ""
	}
	return fmt.Sprintf("elem ‖ %d ‖ LE64(len(elem))", delimVal)
}

// tableFill: the intermediate [][]byte table mk is filled as table[i] = conv(in[i]) for all i in a
// loop over all inputs; returns the canonical conversion.
func tableFill(fn *ssa.Function, mk *ssa.MakeSlice, in *ssa.Parameter) (string, string) {
	// length of the table = len(in)
	lt := core.TermOf(mk.Len)
	if !(lt.Op == "call:len" && lt.Args[0].Key() == core.TermOf(in).Key()) {
		return "", "the intermediate table does not have one slot per input"
	}
	var stores []*ssa.Store
	for _, al := range core.SliceAliases(mk) {
		if refs := al.Referrers(); refs != nil {
			for _, r := range *refs {
				if ia, ok := r.(*ssa.IndexAddr); ok && ia.X == al && ia.Referrers() != nil {
					for _, u := range *ia.Referrers() {
						if st, ok := u.(*ssa.Store); ok && st.Addr == ia {
							stores = append(stores, st)
						}
					}
				}
			}
		}
	}
	if len(stores) == 0 {
		return "", "the intermediate table is never filled"
	}
	form := ""
	for _, st := range stores {
		ia := st.Addr.(*ssa.IndexAddr)
		l := loopIdx(core.Strip(ia.Index))
		if l == nil || l.Lo != 0 || l.HiIncl {
			return "", "a table slot is filled outside a loop over all inputs"
		}
		ht := core.TermOf(l.Hi)
		if !(ht.Op == "call:len" && ht.Args[0].Key() == core.TermOf(in).Key()) {
			return "", "the table-filling loop does not run over all inputs"
		}
		// value: Bytes(in[idx]) — or zero.Bytes() on the nil branch
		v := core.Strip(st.Val)
		bc, ok := core.IsCallTo(v, "(*math/big.Int).Bytes")
		if !ok {
			return "", "a table slot is not filled with big.Int bytes: " + descr(v)
		}
		at := core.TermOf(bc.Call.Args[0])
		switch {
		case at.Op == "[]" && at.Args[0].Key() == core.TermOf(in).Key() && at.Args[1].Key() == core.TermOf(ia.Index).Key():
			form = "Bytes(in[i])"
		case core.IsZeroTerm(at):
			// nil input encoded as zero: only on the branch where in[idx] == nil
			okNil := false
			for _, f := range core.TFactsAt(st.Block(), 0) {
				if f.Kind == core.FNil && f.Bool && f.X != nil && f.X.Op == "[]" && f.X.Args[0].Key() == core.TermOf(in).Key() {
					okNil = true
				}
			}
			if !okNil {
				return "", "a table slot is filled with the bytes of zero although the input is not nil"
			}
		default:
			return "", "table slot i is filled from " + at.Key() + ", not from input i"
		}
	}
	if form == "" {
		return "", "no table slot is filled from its input"
	}
	return form, ""
}

// c16Tagged: SHA512_256i_TAGGED writes SHA512_256(tag) twice to the state before the framed buffer.
func c16Tagged(c *ctx, rule string) {
	fn := c.mustFunc(rule, "common", "SHA512_256i_TAGGED")
	if fn == nil {
		return
	}
	key := fkey(rule, fn, "tag-prefix")
	var state ssa.Value
	for _, cs := range core.Calls(fn) {
		if core.CallIs(cs, "(crypto.Hash).New") {
			state = cs.(*ssa.Call)
		}
	}
	var writes []*ssa.Call
	for _, cs := range core.Calls(fn) {
		if call, ok := cs.(*ssa.Call); ok && call.Call.IsInvoke() && core.Strip(call.Call.Value) == state && call.Call.Method.Name() == "Write" {
			writes = append(writes, call)
		}
	}
	ok := len(writes) == 3
	why := fmt.Sprintf("expected three writes (H(tag), H(tag), framed data), found %d", len(writes))
	if ok {
		for i := 0; i < 2; i++ {
			h, isH := core.IsCallTo(core.Strip(writes[i].Call.Args[0]), "~/common.SHA512_256")
			if !isH {
				ok = false
				why = fmt.Sprintf("prefix write %d is not SHA512_256(tag) but %s: tags longer than the block would be truncated or collide", i+1, descr(writes[i].Call.Args[0]))
				break
			}
			segs, sok := core.SeqOf(h.Call.Args[0])
			if !sok || len(segs) != 1 || core.TermOf(segs[0].V).Key() != paramTerm(fn, 0).Key() {
				ok = false
				why = "the prefix hash is not over exactly the tag parameter"
				break
			}
			if !core.InstrDominates(writes[i], writes[2]) {
				ok = false
				why = "the tag prefix is not written before the framed data on every path"
			}
			// unconditional: the prefix writes dominate every non-nil return
			for _, ret := range core.Returns(fn) {
				if !core.IsNilConst(core.Strip(ret.Results[0])) && !core.InstrDominates(writes[i], ret) {
					ok = false
					why = "a digest can be returned without the tag prefix"
				}
			}
		}
	}
	c.r.Check(ok, rule, key, c.fpos(fn), "state.Write(H(tag)); state.Write(H(tag)); state.Write(framed data)", why)
	c.r.Floor(rule, 1)
}

func c16Commit(c *ctx) {
	const rule = "R16.4"
	// NewHashCommitmentWithRandomness(r, secrets...)
	if fn := c.mustFunc(rule, "crypto/commitments", "NewHashCommitmentWithRandomness"); fn != nil {
		// parts[0] = r; parts[i] = secrets[i-1] for i in 1..len(parts)-1; len(parts) = len(secrets)+1
		ok := true
		why := ""
		var parts *ssa.MakeSlice
		for _, b := range fn.Blocks {
			for _, in := range b.Instrs {
				if mk, isMk := in.(*ssa.MakeSlice); isMk {
					parts = mk
				}
			}
		}
		if parts == nil {
			ok, why = false, "parts slice not found"
		} else {
			lt := core.TermOf(parts.Len)
			secrets := paramTerm(fn, 1)
			if !(lt.Op == "bin+" && ((lt.Args[0].Op == "call:len" && lt.Args[0].Args[0].Key() == secrets.Key() && constIs(lt.Args[1], 1)) || (lt.Args[1].Op == "call:len" && lt.Args[1].Args[0].Key() == secrets.Key() && constIs(lt.Args[0], 1)))) {
				ok, why = false, "len(D) is not len(secrets)+1"
			}
			zeroOK, restOK := false, false
			if refs := parts.Referrers(); refs != nil {
				for _, r := range *refs {
					ia, isIA := r.(*ssa.IndexAddr)
					if !isIA || ia.Referrers() == nil {
						continue
					}
					for _, u := range *ia.Referrers() {
						st, isSt := u.(*ssa.Store)
						if !isSt || st.Addr != ia {
							continue
						}
						if k, isK := core.ConstInt(ia.Index); isK && k == 0 && core.TermOf(st.Val).Key() == paramTerm(fn, 0).Key() {
							zeroOK = true
							continue
						}
						// parts[i] = secrets[i-1], i from 1 while i < len(parts)
						l := loopIdx(core.Strip(ia.Index))
						vt := core.TermOf(st.Val)
						if l != nil && l.Lo == 1 && !l.HiIncl && vt.Op == "[]" && vt.Args[0].Key() == secrets.Key() {
							it := vt.Args[1]
							ht := core.TermOf(l.Hi)
							if it.Op == "bin-" && it.Args[0].Key() == core.TermOf(ia.Index).Key() && constIs(it.Args[1], 1) && ht.Op == "call:len" && ht.Args[0].V == ssa.Value(parts) {
								restOK = true
							}
						}
						// the other orientation: for i := range secrets { parts[i+1] = secrets[i] }
						if vt.Op == "[]" && vt.Args[0].Key() == secrets.Key() && vt.Args[1].V != nil {
							if ls := loopIdx(core.Strip(vt.Args[1].V)); ls != nil && ls.Lo == 0 && !ls.HiIncl {
								ht := core.TermOf(ls.Hi)
								pt := core.TermOf(ia.Index)
								plus1 := pt.Op == "bin+" && ((pt.Args[0].Key() == vt.Args[1].Key() && constIs(pt.Args[1], 1)) || (pt.Args[1].Key() == vt.Args[1].Key() && constIs(pt.Args[0], 1)))
								every := true
								for _, la := range ls.Latches() {
									if !st.Block().Dominates(la) {
										every = false
									}
								}
								if plus1 && every && ht.Op == "call:len" && ht.Args[0].Key() == secrets.Key() {
									restOK = true
								}
							}
						}
					}
				}
			}
			// or one copy: copy(parts[1:], secrets)
			for _, cs := range core.Calls(fn) {
				call, isC := cs.(*ssa.Call)
				if !isC {
					continue
				}
				if bi, isB := call.Call.Value.(*ssa.Builtin); isB && bi.Name() == "copy" {
					if ds, isSl := core.Strip(call.Call.Args[0]).(*ssa.Slice); isSl && core.Strip(ds.X) == ssa.Value(parts) && ds.High == nil && ds.Low != nil {
						if k, isK := core.ConstInt(ds.Low); isK && k == 1 && core.TermOf(call.Call.Args[1]).Key() == secrets.Key() {
							restOK = true
						}
					}
				}
			}
			if !zeroOK || !restOK {
				ok, why = false, fmt.Sprintf("D is not [r, secrets…] in order (D[0]=r: %v, D[i]=secrets[i-1] for all i: %v)", zeroOK, restOK)
			}
			// C = SHA512_256i(parts...), stored in C; D = parts
			hs := core.CallsTo(fn, "~/common.SHA512_256i")
			if len(hs) != 1 || core.Strip(hs[0].Common().Args[0]) != ssa.Value(parts) {
				ok, why = false, why+" C is not SHA512_256i(D…)"
			} else {
				for _, ret := range core.Returns(fn) {
					sf := storedFields(ret.Results[0])
					if sf["C"] == nil || core.Strip(sf["C"]) != ssa.Value(hs[0].(*ssa.Call)) || sf["D"] == nil || core.Strip(sf["D"]) != ssa.Value(parts) {
						ok, why = false, why+" the returned struct does not hold (C=hash, D=parts)"
					}
				}
			}
		}
		c.r.Check(ok, rule, fkey(rule, fn, "layout"), c.fpos(fn), "D = [r, secrets…], C = SHA512_256i(D…)", why)
	}
	if fn := c.mustFunc(rule, "crypto/commitments", "NewHashCommitment"); fn != nil {
		rs := core.CallsTo(fn, "~/common.MustGetRandomInt")
		ws := core.CallsTo(fn, "~/crypto/commitments.NewHashCommitmentWithRandomness")
		ok := len(rs) == 1 && len(ws) == 1
		if ok {
			rc, wc := rs[0].(*ssa.Call), ws[0].(*ssa.Call)
			k, isK := core.ConstInt(rc.Call.Args[1])
			ok = isK && k >= 256 && core.TermOf(rc.Call.Args[0]).Key() == paramTerm(fn, 0).Key() && core.Strip(wc.Call.Args[0]) == ssa.Value(rc) && core.TermOf(wc.Call.Args[1]).Key() == paramTerm(fn, 1).Key()
		}
		c.r.Check(ok, rule, fkey(rule, fn, "fresh-256-bit-randomness"), c.fpos(fn), "r = MustGetRandomInt(rand, HashLength≥256), commitment over (r, secrets…)", "the commitment randomness is not a fresh ≥256-bit sample from the rand parameter, or the secrets are not passed through")
	}
	if fn := c.mustMethod(rule, "crypto/commitments", "HashCommitDecommit", "Verify"); fn != nil {
		recv := paramTerm(fn, 0)
		ok := false
		why := "Verify does not compare SHA512_256i(D…) with C and reject on inequality"
		for _, b := range acceptBlocks(fn, 0, true) {
			ret := b.Instrs[len(b.Instrs)-1].(*ssa.Return)
			// (depth 1: the comparison may sit in a private predicate `opens(C, D)`)
			facts := core.TFactsAt(b, 1)
			if _, isC := core.ConstBool(core.Strip(ret.Results[0])); !isC {
				facts = append(facts, core.ExpandFacts(core.CondFacts(ret.Results[0], true, nil), 1)...)
			}
			isHash := func(t *T) bool {
				call, isCall := t.V.(*ssa.Call)
				if !isCall || !core.CallIs(call, "~/common.SHA512_256i") {
					return false
				}
				return core.IsFieldOf(core.FrameTerm(fn, call.Call.Args[0]), recv, "D")
			}
			isC := func(t *T) bool { return core.IsFieldOf(t, recv, "C") }
			if core.PossibleCmp(facts, isHash, isC) == core.EQ {
				ok = true
			} else {
				ok = false
				break
			}
		}
		c.r.Check(ok, rule, fkey(rule, fn, "recompute-and-compare"), c.fpos(fn), "accept only if SHA512_256i(D…) == C", why)
	}
	if fn := c.mustMethod(rule, "crypto/commitments", "HashCommitDecommit", "DeCommit"); fn != nil {
		recv := paramTerm(fn, 0)
		ok := true
		why := ""
		n := 0
		for _, ret := range core.Returns(fn) {
			if b, isC := core.ConstBool(core.Strip(ret.Results[0])); isC && !b {
				if !core.IsNilConst(core.Strip(ret.Results[1])) {
					ok, why = false, "a failed opening returns data"
				}
				continue
			}
			n++
			if _, has := core.HasCallFact(core.TFactsAt(ret.Block(), 0), true, "(*~/crypto/commitments.HashCommitDecommit).Verify"); !has {
				ok, why = false, "the opened values are returned without a successful Verify"
			}
			sl, isSl := core.ResolveIn(fn, ret.Results[1]).(*ssa.Slice)
			if !isSl || !core.IsFieldOf(core.FrameTerm(fn, sl.X), recv, "D") || sl.High != nil {
				ok, why = false, "the opened values are not D[1:]"
			} else if k, isK := core.ConstInt(sl.Low); !isK || k != 1 {
				ok, why = false, "the opened values do not drop exactly the one prepended randomness element"
			}
		}
		c.r.Check(ok && n > 0, rule, fkey(rule, fn, "open=D[1:]-after-verify"), c.fpos(fn), "DeCommit returns D[1:] only on Verify's true edge", why)
	}
	c.r.Floor(rule, 4)
}

func c16Builder(c *ctx) {
	const rule = "R16.5"
	if fn := c.mustMethod(rule, "crypto/commitments", "builder", "Secrets"); fn != nil {
		// for every part: append(len(part)) then append(part...), unconditionally within the loop; cap guards dominate success
		okBlocks := nilErrReturnBlocks(fn, 1)
		capOK := len(okBlocks) > 0
		for _, b := range okBlocks {
			facts := core.TFactsAt(b, 0)
			isLenParts := func(t *T) bool { return t.Op == "call:len" && t.Args[0].Op == "." && t.Args[0].Name == "parts" }
			if core.PossibleIntCmp(facts, isLenParts, iterConst(c, "crypto/commitments", "PartsCap"))&core.GT != 0 {
				capOK = false
			}
		}
		c.r.Check(capOK, rule, fkey(rule, fn, "parts-cap"), c.fpos(fn), "len(parts) <= PartsCap on success", "success is reachable with more than PartsCap parts")
		// loop body shape
		shape := false
		for _, l := range core.Loops(fn) {
			for b := range l.In {
				for _, in := range b.Instrs {
					call, isC := in.(*ssa.Call)
					if !isC {
						continue
					}
					base, x, ok := appendOf(call)
					if !ok {
						continue
					}
					// x = part (p...) and base = append(prev, NewInt(len(p)))
					b2, x2, ok2 := appendOf(base)
					_ = b2
					if !ok2 {
						continue
					}
					segs, sok := core.SeqOf(x2)
					if !sok || len(segs) != 1 || segs[0].Kind != "elem" {
						continue
					}
					lt := core.TermOf(segs[0].V)
					if lt.Op == "const" || lt.Op != "int" && lt.Op != "call:len" {
						// big.NewInt(int64(len(p))) → int(len(p))
					}
					want := core.TermOf(x).Key()
					got := ""
					lt.Walk(func(t *T) {
						if t.Op == "call:len" {
							got = t.Args[0].Key()
						}
					})
					if got == want {
						dom := true
						for _, la := range l.Latches() {
							if !call.Block().Dominates(la) {
								dom = false
							}
						}
						if dom {
							shape = true
						}
					}
				}
			}
		}
		c.r.Check(shape, rule, fkey(rule, fn, "len-then-part"), c.fpos(fn), "every part is emitted as len(part) followed by the part", "the builder does not emit len(part) followed by that same part for every part")
	}
	if fn := c.mustMethod(rule, "crypto/commitments", "builder", "AddPart"); fn != nil {
		// every part handed in is kept, in order, empty or not: on every path to a return the one store to
		// .parts is append(.parts, part)
		var stores []*ssa.Store
		for _, b := range fn.Blocks {
			for _, in := range b.Instrs {
				if st, ok := in.(*ssa.Store); ok {
					if fr := core.AsFieldAddr(st.Addr); fr != nil && fr.Name == "parts" {
						stores = append(stores, st)
					}
				}
			}
		}
		ok, why := false, fmt.Sprintf("expected one store to .parts, found %d", len(stores))
		if len(stores) == 1 {
			st := stores[0]
			ok, why = true, ""
			for _, ret := range core.Returns(fn) {
				if !st.Block().Dominates(ret.Block()) {
					ok, why = false, "a return of AddPart is reachable without the part having been appended: a part (for instance an empty one) is dropped and every later part shifts down"
				}
			}
			base, x, isApp := appendOf(st.Val)
			if !isApp {
				ok, why = false, "the value stored to .parts is not an append"
			} else {
				bt := core.TermOf(base)
				if n, _ := bt.Field(); n != "parts" {
					ok, why = false, "the append does not extend the parts collected so far"
				}
				segs, sok := core.SeqOf(x)
				if !sok || len(segs) != 1 || segs[0].Kind != "elem" || core.TermOf(segs[0].V).Key() != paramTerm(fn, 1).Key() {
					ok, why = false, "what is appended is not exactly the part handed in"
				}
			}
		}
		c.r.Check(ok, rule, fkey(rule, fn, "every-part-kept"), c.fpos(fn), "AddPart appends exactly the part handed in on every path", why)
	}
	if fn := c.mustFunc(rule, "crypto/commitments", "ParseSecrets"); fn != nil {
		// the slice expression secrets[el : el+n]: guards 0 <= el, el+n <= len, n <= MaxPartSize, parts < PartsCap dominate it
		var sl *ssa.Slice
		for _, b := range fn.Blocks {
			for _, in := range b.Instrs {
				if s, ok := in.(*ssa.Slice); ok && core.TermOf(s.X).Key() == paramTerm(fn, 0).Key() && (s.Low != nil || s.High != nil) {
					if s.Low != nil && s.High != nil || sl == nil {
						sl = s
					}
				}
			}
		}
		c16DanglingPrefix(c, rule, fn, sl)
		if sl == nil || sl.Low == nil || sl.High == nil {
			c.r.Bad(rule, fkey(rule, fn, "slice-bounds"), c.fpos(fn), "the part slice expression secrets[lo:hi] was not found")
		} else {
			facts := core.TFactsAt(sl.Block(), 0)
			lo, hi := core.TermOf(sl.Low), core.TermOf(sl.High)
			isLo := core.KeyIs(lo)
			isHi := core.KeyIs(hi)
			isLen := func(t *T) bool { return t.Op == "call:len" && t.Args[0].Key() == paramTerm(fn, 0).Key() }
			loOK := core.PossibleIntCmp(facts, isLo, 0)&core.LT == 0
			hiOK := core.PossibleIntCmpT(facts, isHi, isLen)&core.GT == 0
			// n = hi - lo must be non-negative: guard on the part length
			var nTerm *T
			if hi.Op == "bin+" {
				if hi.Args[0].Key() == lo.Key() {
					nTerm = hi.Args[1]
				} else if hi.Args[1].Key() == lo.Key() {
					nTerm = hi.Args[0]
				}
			}
			nOK, capOK := false, false
			if nTerm != nil && nTerm.V != nil {
				// the part length is loop-carried: decide both bounds as inductive invariants
				maxPart := iterConst(c, "crypto/commitments", "MaxPartSize")
				nOK = core.PhiInvariant(nTerm.V, sl.Block(), func(val ssa.Value, fs []core.TFact) bool {
					if k, isK := core.ConstInt(val); isK {
						return k >= 0
					}
					return core.PossibleIntCmp(fs, core.KeyIs(core.TermOf(val)), 0)&core.LT == 0
				})
				capOK = core.PhiInvariant(nTerm.V, sl.Block(), func(val ssa.Value, fs []core.TFact) bool {
					if k, isK := core.ConstInt(val); isK {
						return k <= maxPart
					}
					return core.PossibleIntCmp(fs, core.KeyIs(core.TermOf(val)), maxPart)&core.GT == 0
				})
			}
			c.r.Check(loOK, rule, fkey(rule, fn, "slice-lo>=0"), c.pos(sl), "lo >= 0 dominates the slice", "the slice's lower bound is not guarded non-negative")
			c.r.Check(hiOK, rule, fkey(rule, fn, "slice-hi<=len"), c.pos(sl), "hi <= len(secrets) dominates the slice", "the slice's upper bound is not guarded against len(secrets)")
			c.r.Check(nOK, rule, fkey(rule, fn, "part-length>=0"), c.pos(sl), "the wire-supplied part length is guarded non-negative", "the wire-supplied part length (Int64 of a received number) may be negative: secrets[el : el+n] panics with hi < lo")
			c.r.Check(capOK, rule, fkey(rule, fn, "part-length<=MaxPartSize"), c.pos(sl), "the part length is capped by MaxPartSize before slicing", "the part length is not capped by MaxPartSize before the slice expression (el+n can overflow)")
		}
	}
	c.r.Floor(rule, 6)
	_ = types.Typ
	_ = token.ADD
}

// c16DanglingPrefix (R16.5): a length prefix that has been read is always followed by its part. The parser
// alternates between "expect a length" and "expect the part" with a boolean flag; when the input ends
// right after a length prefix the loop is left in the second state. Then either the (necessarily empty)
// part is appended or an error is returned — a success return reachable in that state without an append
// drops a trailing empty part (the packing does not round-trip) and accepts an encoding truncated right
// after a length prefix. A parser written without the flag must append in the iteration that read the length.
func c16DanglingPrefix(c *ctx, rule string, fn *ssa.Function, sl *ssa.Slice) {
	key := fkey(rule, fn, "no-dangling-length-prefix")
	if sl == nil {
		c.r.Unk(rule, key, c.fpos(fn), "the part slice expression was not found")
		return
	}
	var loop *core.Loop
	for _, b := range fn.Blocks {
		// the parsing loop: the natural loop (header with a back edge) containing the slice
		for _, p := range b.Preds {
			if b.Dominates(p) && core.Reaches(b, sl.Block()) && core.Reaches(sl.Block(), p) {
				if loop == nil || loop.Header.Dominates(b) {
					loop = &core.Loop{Header: b, In: map[*ssa.BasicBlock]bool{}}
				}
			}
		}
	}
	if loop == nil {
		c.r.Unk(rule, key, c.fpos(fn), "the parsing loop was not found")
		return
	}
	h := loop.Header
	inLoop := func(b *ssa.BasicBlock) bool { return h.Dominates(b) && core.Reaches(b, h) && b != nil }
	// the packing of a single empty part is the one number 0: the guards in front of the loop must let
	// an input of length 1 through
	{
		isLen := func(t *T) bool { return t.Op == "call:len" && t.Args[0].Key() == paramTerm(fn, 0).Key() }
		one := core.PossibleIntCmp(core.TFactsAt(h, 0), isLen, 1)&core.EQ != 0
		c.r.Check(one, rule, fkey(rule, fn, "single-empty-part-accepted"), c.fpos(fn), "an input of one element reaches the parsing loop", "inputs of one element are refused before parsing: the packing [0] of a single empty part does not round-trip")
	}
	isPartsAppend := func(in ssa.Instruction) bool {
		call, ok := in.(*ssa.Call)
		if !ok {
			return false
		}
		_, x, isApp := appendOf(call)
		if !isApp {
			return false
		}
		_, isList := call.Type().Underlying().(*types.Slice)
		if !isList {
			return false
		}
		if sl2, isSl := call.Type().Underlying().(*types.Slice).Elem().Underlying().(*types.Slice); !isSl || sl2 == nil {
			return false // parts is a list of lists
		}
		_ = x
		return true
	}
	// the state flag: a boolean carried round the loop on which the body branches between "read a length
	// prefix" (the Int64() of an element of the input) and "take the part"; `pending` is the value it has
	// after a length has been read
	var flag *ssa.Phi
	pending := false
	var lenRead *ssa.BasicBlock
	for _, b := range fn.Blocks {
		if !inLoop(b) {
			continue
		}
		for _, in := range b.Instrs {
			if call, ok := in.(*ssa.Call); ok && core.CallIs(call, "(*math/big.Int).Int64") {
				if t := core.TermOf(call.Call.Args[0]); t.Op == "[]" && t.Args[0].Key() == paramTerm(fn, 0).Key() {
					lenRead = b
				}
			}
		}
	}
	for _, in := range h.Instrs {
		phi, ok := in.(*ssa.Phi)
		if !ok {
			break
		}
		if b, isB := phi.Type().Underlying().(*types.Basic); !isB || b.Kind() != types.Bool {
			continue
		}
		if lenRead == nil {
			continue
		}
		for _, b := range fn.Blocks {
			if !inLoop(b) {
				continue
			}
			iff, isIf := b.Instrs[len(b.Instrs)-1].(*ssa.If)
			if !isIf {
				continue
			}
			fs := core.CondFacts(iff.Cond, true, iff)
			if len(fs) != 1 || fs[0].Kind != core.FBool || core.Strip(fs[0].X) != ssa.Value(phi) {
				continue
			}
			for si := 0; si < 2; si++ {
				if core.EdgeDominates(b, si, lenRead) {
					// on this edge the flag equals fs[0].Bool (true edge) or its negation: the reading state
					readVal := fs[0].Bool
					if si == 1 {
						readVal = !readVal
					}
					flag, pending = phi, !readVal
				}
			}
		}
	}
	if flag == nil {
		// no flag: the iteration that slices must append, on every completed iteration
		ok := false
		for _, b := range fn.Blocks {
			if !inLoop(b) {
				continue
			}
			for _, in := range b.Instrs {
				if isPartsAppend(in) {
					all := true
					for i, p := range h.Preds {
						_ = i
						if inLoop(p) && !b.Dominates(p) {
							all = false
						}
					}
					if all {
						ok = true
					}
				}
			}
		}
		c.r.Check(ok, rule, key, c.pos(sl), "every iteration reads a length and appends its part", "the parsing loop has no state flag and does not append a part on every completed iteration")
		return
	}
	// leave the loop in the pending state (a length was read, its part not yet taken): no success return without an append
	var exits []*ssa.BasicBlock
	for _, b := range fn.Blocks {
		if !inLoop(b) {
			continue
		}
		for _, s := range b.Succs {
			if !inLoop(s) {
				exits = append(exits, s)
			}
		}
	}
	seen := map[*ssa.BasicBlock]bool{}
	var bad *ssa.Return
	var walk func(b *ssa.BasicBlock)
	walk = func(b *ssa.BasicBlock) {
		if seen[b] || bad != nil {
			return
		}
		seen[b] = true
		for _, in := range b.Instrs {
			if isPartsAppend(in) {
				return
			}
		}
		last := b.Instrs[len(b.Instrs)-1]
		switch t := last.(type) {
		case *ssa.Return:
			if core.MayReturnNil(t, len(t.Results)-1) {
				bad = t
			}
			return
		case *ssa.If:
			fs := core.CondFacts(t.Cond, true, t)
			if len(fs) == 1 && fs[0].Kind == core.FBool && core.Strip(fs[0].X) == ssa.Value(flag) {
				// the true edge means flag == fs[0].Bool; the state examined is flag == pending
				if fs[0].Bool == pending {
					walk(b.Succs[0])
				} else {
					walk(b.Succs[1])
				}
				return
			}
		}
		for _, s := range b.Succs {
			walk(s)
		}
	}
	for _, e := range exits {
		// only the normal exit (loop condition false) — error returns inside the loop are not exits to success
		walk(e)
	}
	if bad != nil {
		c.r.Bad(rule, key, c.pos(bad), "the success return is reachable when the input ends right after a length prefix, without the part being appended or an error: a trailing empty part is lost on the round trip and an encoding truncated after a length prefix is accepted")
		return
	}
	c.r.OK(rule, key, c.pos(sl), "when the input ends right after a length prefix the parser appends the part or fails")
}
