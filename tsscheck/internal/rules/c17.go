package rules

import (
	"fmt"
	"go/token"
	"go/types"
	"strings"

	"golang.org/x/tools/go/ssa"

	"tsscheck/internal/core"
)

func init() { Registry["C17"] = runC17 }

func runC17(p *core.Prog, r *core.Report) {
	c := &ctx{p, r}
	r.Explain = "Curve-point hygiene: (R17.1) ECPoint's fields are unexported, so only package crypto can build one; inside it the fields are written only in NewECPoint (non-nil result dominated by the on-curve true edge on the very coordinates stored), NewECPointNoCurveCheck, GobDecode/UnmarshalJSON (nil-error return dominated by IsOnCurve() true after the coordinates and the registry curve were stored) and SetCurve; (R17.2) every call of the unchecked constructor, and of UnFlattenECPoints with a non-false noCurveCheck flag, takes coordinates that are the curve generator, constants, or results of curve arithmetic — never data decoded from a message; (R17.3) raw wire coordinates handed straight to elliptic.Curve arithmetic are listed as observations; (R17.4) in the three EdDSA protocol packages every point decoded from a peer's message that becomes key or nonce material passes through EightInvEight before any other use, EightInvEight is (8·P)·8⁻¹ and 8⁻¹ is the inverse of the same constant modulo the order of edwards25519."
	r.Undec = "correctness of the curve arithmetic of the dependencies, round-trip equality of encodings, that EightInvEight is the identity on the prime-order subgroup (a numeric fact)."
	r.Assume = []string{"elliptic.Curve.IsOnCurve of the registered curves is correct"}
	c17Construct(c)
	c17Unchecked(c)
	c17Cofactor(c)
}

func c17Construct(c *ctx) {
	const rule = "R17.1"
	nt := c.p.NamedType("crypto", "ECPoint")
	if nt == nil {
		c.r.Unk(rule, core.Key(rule, "crypto", "ECPoint", "anchor"), "crypto", "type ECPoint not found")
		return
	}
	st, _ := nt.Underlying().(*types.Struct)
	unexp := st != nil
	if st != nil {
		for i := 0; i < st.NumFields(); i++ {
			if st.Field(i).Exported() {
				unexp = false
			}
		}
	}
	c.r.Check(unexp, rule, core.Key(rule, "crypto", "ECPoint", "fields-unexported"), "crypto/ecpoint.go", "all fields of ECPoint are unexported: only package crypto can construct or modify a point", "ECPoint has an exported field: any package can build an unchecked point")
	allowed := map[string]string{"NewECPoint": "checked", "NewECPointNoCurveCheck": "unchecked door", "GobDecode": "decoder", "UnmarshalJSON": "decoder", "SetCurve": "curve relabel"}
	writers := map[*ssa.Function]bool{}
	for _, fn := range c.p.FuncsOfPkg("crypto") {
		for _, b := range fn.Blocks {
			for _, in := range b.Instrs {
				if s, ok := in.(*ssa.Store); ok {
					if fr := core.AsFieldAddr(s.Addr); fr != nil && strings.HasSuffix(fr.String(), "crypto.ECPoint."+fr.Name) {
						writers[core.Outermost(fn)] = true
					}
					if ia, ok := s.Addr.(*ssa.IndexAddr); ok {
						if fr := core.AsFieldAddr(ia.X); fr != nil && strings.HasSuffix(fr.String(), "crypto.ECPoint.coords") {
							writers[core.Outermost(fn)] = true
						}
					}
				}
			}
		}
	}
	for fn := range writers {
		key := fkey(rule, fn, "writes-point-fields")
		_, ok := allowed[fn.Name()]
		c.r.Check(ok, rule, key, c.fpos(fn), "one of the five functions allowed to write ECPoint fields ("+allowed[fn.Name()]+")", "writes the fields of an ECPoint outside the constructors/decoders: a point can be altered or built without the on-curve check")
	}
	// NewECPoint
	if fn := c.mustFunc(rule, "crypto", "NewECPoint"); fn != nil {
		ok := true
		why := ""
		n := 0
		for _, ret := range core.Returns(fn) {
			if core.IsNilConst(core.Strip(ret.Results[0])) {
				continue
			}
			n++
			facts := core.TFactsAt(ret.Block(), 0)
			call, has := core.HasCallFact(facts, true, "~/crypto.isOnCurve")
			if has {
				for i := 0; i < 3; i++ {
					if core.TermOf(call.Call.Args[i]).Key() != paramTerm(fn, i).Key() {
						ok, why = false, "the on-curve check is not applied to the constructor's own (curve, X, Y)"
					}
				}
			} else if inlineOnCurve(facts, paramTerm(fn, 0), paramTerm(fn, 1), paramTerm(fn, 2)) {
				// the predicate written out at the call site: X, Y non-nil and curve.IsOnCurve(X, Y) true
			} else {
				ok, why = false, "a point is returned without a successful on-curve check"
				continue
			}
			sf := storedFields(ret.Results[0])
			if sf["curve"] == nil || core.TermOf(sf["curve"]).Key() != paramTerm(fn, 0).Key() {
				ok, why = false, "the point does not carry the curve it was checked against"
			}
			cvs := fieldElemStores(ret.Results[0], "coords")
			if cv := sf["coords"]; cv != nil {
				cvs = append(cvs, cv)
			}
			if len(cvs) == 0 {
				ok, why = false, "coordinates not stored"
			} else {
				d := core.DepsOf(fn, false, cvs...)
				if !(d["param:1"] && d["param:2"]) || len(d) != 2 {
					ok, why = false, fmt.Sprintf("the stored coordinates depend on %v, expected exactly (X, Y)", keys(d))
				}
			}
		}
		c.r.Check(ok && n > 0, rule, fkey(rule, fn, "on-curve-gate"), c.fpos(fn), "a point is returned only on the true edge of isOnCurve(curve, X, Y) and stores exactly those values", why)
	}
	// (the unexported predicate may have been inlined into its two callers: then they are judged on the written-out form)
	if fn := c.p.Func("crypto", "isOnCurve"); fn != nil && fn.Blocks != nil {
		facts, _ := acceptFacts(fn, 0, true, 0)
		ok := core.HasNilFact(facts, paramIs(fn, 1), false) && core.HasNilFact(facts, paramIs(fn, 2), false)
		// every return is `false` or the curve's own verdict on exactly (x, y): no other way to say yes
		delegated := false
		other := ""
		for _, ret := range core.Returns(fn) {
			res := core.Strip(ret.Results[0])
			if v, isK := core.ConstBool(res); isK && !v {
				continue
			}
			good := false
			if call, isC := res.(*ssa.Call); isC && call.Call.IsInvoke() && call.Call.Method.Name() == "IsOnCurve" {
				if core.TermOf(call.Call.Value).Key() == paramTerm(fn, 0).Key() && core.TermOf(call.Call.Args[0]).Key() == paramTerm(fn, 1).Key() && core.TermOf(call.Call.Args[1]).Key() == paramTerm(fn, 2).Key() {
					good = true
				}
			}
			if v, isK := core.ConstBool(res); isK && v {
				// `if !c.IsOnCurve(x, y) { return false }; return true`
				for _, f := range core.TFactsAt(ret.Block(), 0) {
					if f.Kind == core.FCall && f.Bool && f.Call.Call.IsInvoke() && f.Call.Call.Method.Name() == "IsOnCurve" {
						call := f.Call
						if core.TermOf(call.Call.Value).Key() == paramTerm(fn, 0).Key() && core.TermOf(call.Call.Args[0]).Key() == paramTerm(fn, 1).Key() && core.TermOf(call.Call.Args[1]).Key() == paramTerm(fn, 2).Key() {
							good = true
						}
					}
				}
			}
			if good {
				delegated = true
			} else {
				other = "; the return at " + c.pos(ret) + " answers " + descr(res) + " without asking the curve: a coordinate pair that is not on the curve (for instance (0,0)) passes every door"
			}
		}
		c.r.Check(ok && delegated && other == "", rule, fkey(rule, fn, "delegates-to-curve"), c.fpos(fn), "isOnCurve rejects nil coordinates and every other return is curve.IsOnCurve(x, y)", "isOnCurve does not return the curve's own IsOnCurve(x, y) for non-nil coordinates"+other)
	}
	for _, name := range []string{"GobDecode", "UnmarshalJSON"} {
		fn := c.mustMethod(rule, "crypto", "ECPoint", name)
		if fn == nil {
			continue
		}
		ok := true
		why := ""
		blocks := nilErrReturnBlocks(fn, 0)
		var coordStores, curveStores []*ssa.Store
		for _, b := range fn.Blocks {
			for _, in := range b.Instrs {
				if s, isS := in.(*ssa.Store); isS {
					if fr := core.AsFieldAddr(s.Addr); fr != nil && strings.HasSuffix(fr.String(), "crypto.ECPoint.coords") {
						coordStores = append(coordStores, s)
					}
					if fr := core.AsFieldAddr(s.Addr); fr != nil && strings.HasSuffix(fr.String(), "crypto.ECPoint.curve") {
						curveStores = append(curveStores, s)
					}
				}
			}
		}
		for _, b := range blocks {
			call, has := core.HasCallFact(core.TFactsAt(b, 0), true, "(*~/crypto.ECPoint).IsOnCurve")
			if !has {
				ok, why = false, "the decoder can return nil (success) without the decoded point having passed IsOnCurve()"
				continue
			}
			if core.TermOf(call.Call.Args[0]).Key() != paramTerm(fn, 0).Key() {
				ok, why = false, "the on-curve check is applied to another point"
			}
			for _, s := range append(append([]*ssa.Store{}, coordStores...), curveStores...) {
				if core.InstrReaches(call, s) {
					ok, why = false, "a field of the point is written after the on-curve check"
				}
			}
			// every path to the check has stored coordinates and a curve
			stored := false
			for _, s := range coordStores {
				if core.InstrDominates(s, call) {
					stored = true
				}
			}
			if !stored {
				ok, why = false, "the coordinates are not stored before the check on every path"
			}
		}
		// the curve comes from the registry
		for _, s := range curveStores {
			registry := func(v ssa.Value) bool {
				d := descr(v)
				return strings.Contains(d, "GetCurveByName") || d == "EC()"
			}
			good := registry(s.Val)
			// the lookup factored into a private helper: every success return hands back a registry curve
			if ex, isEx := core.Strip(s.Val).(*ssa.Extract); !good && isEx {
				if call, isC := ex.Tuple.(*ssa.Call); isC && !call.Call.IsInvoke() && core.PrivateHelper(core.Callee(call)) {
					rets := core.SuccessReturns(core.Callee(call))
					good = len(rets) > 0
					for _, ret := range rets {
						if ex.Index >= len(ret.Results) || !registry(ret.Results[ex.Index]) {
							good = false
						}
					}
				}
			}
			if !good {
				ok, why = false, "the decoded point's curve is "+descr(s.Val)+", not a registry curve"
			}
		}
		c.r.Check(ok && len(blocks) > 0, rule, fkey(rule, fn, "decoded-point-checked"), c.fpos(fn), "success is dominated by IsOnCurve() on the decoded coordinates with a registry curve", why)
	}
	if fn := c.mustMethod(rule, "crypto", "ECPoint", "IsOnCurve"); fn != nil {
		ok := false
		for _, ret := range core.Returns(fn) {
			res := core.Strip(ret.Results[0])
			if v, isK := core.ConstBool(res); isK && !v {
				continue
			}
			good := false
			if call, isC := core.IsCallTo(res, "~/crypto.isOnCurve"); isC {
				a := call.Call.Args
				r0 := paramTerm(fn, 0)
				t1, t2 := core.TermOf(a[1]), core.TermOf(a[2])
				if core.IsFieldOf(core.TermOf(a[0]), r0, "curve") && t1.Op == "[]" && t2.Op == "[]" && constIs(t1.Args[1], 0) && constIs(t2.Args[1], 1) {
					good = true
				}
			}
			if !good {
				// written out: returns the curve's verdict on the point's own fields (or true behind it), coordinates non-nil
				r0 := paramTerm(fn, 0)
				own := func(t *T, field string, idx int64) bool {
					if field == "curve" {
						return core.IsFieldOf(t, r0, "curve")
					}
					return t.Op == "[]" && core.IsFieldOf(t.Args[0], r0, "coords") && constIs(t.Args[1], idx)
				}
				facts := core.TFactsAt(ret.Block(), 0)
				var oc *ssa.Call
				if call, isC := res.(*ssa.Call); isC && call.Call.IsInvoke() && call.Call.Method.Name() == "IsOnCurve" {
					oc = call
				} else if v, isK := core.ConstBool(res); isK && v {
					for _, f := range facts {
						if f.Kind == core.FCall && f.Bool && f.Call.Call.IsInvoke() && f.Call.Call.Method.Name() == "IsOnCurve" {
							oc = f.Call
						}
					}
				}
				if oc != nil && own(core.TermOf(oc.Call.Value), "curve", 0) && own(core.TermOf(oc.Call.Args[0]), "coords", 0) && own(core.TermOf(oc.Call.Args[1]), "coords", 1) &&
					core.HasNilFact(facts, func(t *T) bool { return own(t, "coords", 0) }, false) && core.HasNilFact(facts, func(t *T) bool { return own(t, "coords", 1) }, false) {
					good = true
				}
			}
			if !good {
				ok = false
				break
			}
			ok = true
		}
		c.r.Check(ok, rule, fkey(rule, fn, "checks-own-fields"), c.fpos(fn), "IsOnCurve() = isOnCurve(p.curve, p.coords[0], p.coords[1])", "ECPoint.IsOnCurve does not test the point's own curve and coordinates")
	}
	c.r.Floor(rule, 9)
}

func c17Unchecked(c *ctx) {
	const rule = "R17.2"
	n := 0
	for _, fn := range c.p.ModuleFuncs(false) {
		for _, cs := range core.Calls(fn) {
			if core.CallIs(cs, "~/crypto.NewECPointNoCurveCheck") {
				n++
				a := cs.Common().Args
				key := fkey(rule, core.Outermost(fn), "unchecked-constructor")
				bad := ""
				for i := 1; i <= 2; i++ {
					if why := coordOrigin(a[i]); why != "" {
						bad += fmt.Sprintf("coordinate %d is %s; ", i, why)
					}
				}
				c.r.Check(bad == "", rule, key, c.pos(cs), "coordinates are the curve generator, constants or results of curve arithmetic", "the unchecked constructor is fed "+bad+"a point that may be off the curve enters the library")
			}
			if core.CallIs(cs, "~/crypto.UnFlattenECPoints") {
				n++
				a := cs.Common().Args
				key := fkey(rule, core.Outermost(fn), "UnFlatten-checked")
				okFlag := true
				if len(a) >= 3 {
					if segs, ok := core.SeqOf(a[2]); ok {
						for _, s := range segs {
							if b, isC := core.ConstBool(core.Strip(s.V)); !isC || b {
								okFlag = false
							}
						}
					} else if !core.IsNilConst(core.Strip(a[2])) {
						okFlag = false
					}
				}
				c.r.Check(okFlag, rule, key, c.pos(cs), "the on-curve check of UnFlattenECPoints is not disabled", "UnFlattenECPoints is called with the curve check disabled")
			}
		}
	}
	// R17.3 observation
	for _, rel := range protoRels {
		for _, fn := range c.p.FuncsOfPkg(rel) {
			for _, cs := range core.Calls(fn) {
				if m := core.InvokeMethod(cs); m != nil && (m.Name() == "Add" || m.Name() == "ScalarMult") && strings.HasSuffix(m.FullName(), "elliptic.Curve)."+m.Name()) {
					for _, a := range cs.Common().Args {
						if d := descr(a); strings.Contains(d, "DeCommit()") {
							c.r.Note("R17.3 observation: %s passes decommitted coordinates (%s) to %s without an on-curve test at %s; the result is only compared for equality", core.FuncName(core.Outermost(fn)), d, m.Name(), c.pos(cs))
						}
					}
				}
			}
		}
	}
	c.r.Floor(rule, 11)
}

// coordOrigin: "" if v is an acceptable coordinate for the unchecked constructor.
func coordOrigin(v ssa.Value) string {
	v = core.Strip(v)
	t := core.TermOf(v)
	if n, _ := t.Field(); n == "Gx" || n == "Gy" {
		return ""
	}
	if core.IsZeroTerm(t) {
		return ""
	}
	if p, ok := v.(*ssa.Parameter); ok {
		// inside package crypto: the loop of UnFlattenECPoints (its own flag is checked at the call sites)
		if strings.HasSuffix(p.Parent().Pkg.Pkg.Path(), "/crypto") {
			return ""
		}
	}
	// results of curve arithmetic
	w := core.NewDepWalker(v.Parent(), false)
	w.Walk(v)
	arith := false
	for s := range w.SeenSet() {
		if call, ok := s.(*ssa.Call); ok {
			if m := core.InvokeMethod(call); m != nil && strings.Contains(m.FullName(), "elliptic.Curve)") && (m.Name() == "Add" || m.Name() == "ScalarMult" || m.Name() == "ScalarBaseMult" || m.Name() == "Double") {
				arith = true
			}
		}
	}
	if arith {
		return ""
	}
	if _, isIdx := v.(*ssa.UnOp); isIdx && v.Parent() != nil && strings.HasSuffix(v.Parent().Pkg.Pkg.Path(), "/crypto") && v.Parent().Name() == "UnFlattenECPoints" {
		return ""
	}
	return descr(v)
}

func c17Cofactor(c *ctx) {
	const rule = "R17.4"
	// EightInvEight body and constants
	if fn := c.mustMethod(rule, "crypto", "ECPoint", "EightInvEight"); fn != nil {
		ok := false
		for _, ret := range core.Returns(fn) {
			outer, isO := core.IsCallTo(core.Strip(ret.Results[0]), "(*~/crypto.ECPoint).ScalarMult")
			if !isO {
				continue
			}
			inner, isI := core.IsCallTo(core.Strip(outer.Call.Args[0]), "(*~/crypto.ECPoint).ScalarMult")
			if !isI {
				continue
			}
			g1, g2 := core.GlobalOf(inner.Call.Args[1]), core.GlobalOf(outer.Call.Args[1])
			if g1 != nil && g2 != nil && g1.Name() == "eight" && g2.Name() == "eightInv" && core.TermOf(inner.Call.Args[0]).Key() == paramTerm(fn, 0).Key() {
				ok = true
			}
		}
		c.r.Check(ok, rule, fkey(rule, fn, "(8P)·8⁻¹"), c.fpos(fn), "EightInvEight(P) = P.ScalarMult(eight).ScalarMult(eightInv)", "EightInvEight is not the two-step multiplication by 8 and then by 8⁻¹: a single multiplication by 8·8⁻¹ reduces to 1 and leaves small-order components in place")
	}
	if init := c.p.Func("crypto", "init"); init != nil {
		ok8, okInv := false, false
		for _, b := range init.Blocks {
			for _, in := range b.Instrs {
				if s, ok := in.(*ssa.Store); ok {
					if g, ok := s.Addr.(*ssa.Global); ok {
						t := core.TermOf(s.Val)
						switch g.Name() {
						case "eight":
							ok8 = constIs(t, 8)
						case "eightInv":
							if t.Op == "ModInv" && strings.Contains(descr(s.Val), "Edwards().Params().N") {
								if gg := core.GlobalOf(coreArg(s.Val, 1)); gg != nil && gg.Name() == "eight" {
									okInv = true
								}
							}
						}
					}
				}
			}
		}
		c.r.Check(ok8 && okInv, rule, core.Key(rule, "crypto", "init", "eight,eightInv"), "crypto/ecpoint.go", "eight = 8, eightInv = eight⁻¹ mod order(edwards25519)", "the cofactor constants are not 8 and its inverse modulo the edwards25519 group order")
	}
	// ScalarMult does not reduce or alter the scalar
	if fn := c.mustMethod(rule, "crypto", "ECPoint", "ScalarMult"); fn != nil {
		ok := false
		for _, cs := range core.Calls(fn) {
			if m := core.InvokeMethod(cs); m != nil && m.Name() == "ScalarMult" {
				if d := descr(cs.Common().Args[2]); d == "Bytes(param:k)" {
					ok = true
				}
			}
		}
		c.r.Check(ok, rule, fkey(rule, fn, "scalar-unreduced"), c.fpos(fn), "ScalarMult multiplies by k itself (k.Bytes())", "ScalarMult alters its scalar before multiplying (e.g. reduces it modulo the group order, which changes the result on points with a small-order component)")
	}
	// protocol sites: wire points decoded in eddsa round code
	sites := 0
	for _, rel := range []string{"eddsa/keygen", "eddsa/signing", "eddsa/resharing"} {
		pr := ExtractProtocol(c.p, rel)
		for _, rd := range pr.Rounds {
			st := rd.Fns["Start"]
			if st == nil {
				continue
			}
			for _, g := range unitFuncs(st) {
				for _, cs := range core.Calls(g) {
					call, ok := cs.(*ssa.Call)
					if !ok {
						continue
					}
					switch {
					case core.CallIs(call, "~/crypto.UnFlattenECPoints"):
						if !fromWire(call.Call.Args[1]) {
							continue
						}
						sites++
						ok, why := sliceCleared(extractOf(call, 0))
						c.r.Check(ok, rule, core.Key(rule, rel, rd.Name+".Start", "cofactor-cleared:UnFlattenECPoints"), c.pos(call), "every decoded point is replaced by its EightInvEight() image before any other use", why)
					case core.CallIs(call, "~/crypto.NewECPoint"):
						if !fromWire(call.Call.Args[1]) {
							continue
						}
						sites++
						ok, why := pointCleared(extractOf(call, 0), extractOf(call, 1))
						c.r.Check(ok, rule, core.Key(rule, rel, rd.Name+".Start", "cofactor-cleared:NewECPoint"), c.pos(call), "the decoded point is only used through EightInvEight()", why)
					}
				}
			}
		}
	}
	c.r.Floor(rule, 6)
	_ = sites
}

// fieldElemStores: values stored into elements of array field `name` of the struct ptr points to.
func fieldElemStores(ptr ssa.Value, name string) []ssa.Value {
	var out []ssa.Value
	ptr = core.Strip(ptr)
	refs := ptr.Referrers()
	if refs == nil {
		return nil
	}
	for _, in := range *refs {
		fa, ok := in.(*ssa.FieldAddr)
		if !ok || fa.X != ptr {
			continue
		}
		if fr := core.AsFieldAddr(fa); fr == nil || fr.Name != name || fa.Referrers() == nil {
			continue
		}
		for _, u := range *fa.Referrers() {
			if ia, ok := u.(*ssa.IndexAddr); ok && ia.Referrers() != nil {
				for _, w := range *ia.Referrers() {
					if st, ok := w.(*ssa.Store); ok && st.Addr == ia {
						out = append(out, st.Val)
					}
				}
			}
		}
	}
	return out
}

func coreArg(v ssa.Value, i int) ssa.Value {
	if c, ok := core.Strip(v).(*ssa.Call); ok && i < len(c.Call.Args) {
		return c.Call.Args[i]
	}
	return nil
}

// fromWire: the coordinates come from a message (decommitment / Unmarshal of stored messages).
func fromWire(v ssa.Value) bool {
	d := descr(v)
	return strings.Contains(d, "msg(") || strings.Contains(d, "DeCommit()")
}

// sliceCleared: pts (result of UnFlattenECPoints) is overwritten element-wise by EightInvEight of
// its own elements in a loop over all of it, and every other use of pts is dominated by that loop's exit.
func sliceCleared(pts ssa.Value) (bool, string) {
	if pts == nil {
		return false, "result not used"
	}
	fn := pts.Parent()
	var clearLoop *core.Loop
	for _, l := range loopsOf(fn) {
		ht := core.TermOf(l.Hi)
		if l.Lo != 0 || l.HiIncl || ht.Op != "call:len" || ht.Args[0].V != pts {
			continue
		}
		for b := range l.In {
			for _, in := range b.Instrs {
				st, ok := in.(*ssa.Store)
				if !ok {
					continue
				}
				ia, ok := st.Addr.(*ssa.IndexAddr)
				if !ok || core.Strip(ia.X) != pts || core.Strip(ia.Index) != l.Idx {
					continue
				}
				call, ok := core.IsCallTo(core.Strip(st.Val), "(*~/crypto.ECPoint).EightInvEight")
				if !ok {
					continue
				}
				rt := core.TermOf(call.Call.Args[0])
				if rt.Op == "[]" && rt.Args[0].V == pts && rt.Args[1].Key() == core.TermOf(l.Idx).Key() {
					all := true
					for _, la := range l.Latches() {
						if !b.Dominates(la) {
							all = false
						}
					}
					if all {
						clearLoop = l
					}
				}
			}
		}
	}
	if clearLoop == nil {
		return false, "the decoded points are not replaced element-wise by EightInvEight() of themselves in a loop over the whole list (assigning to the range variable does not change the slice): a small-order component survives into key material"
	}
	// every other use after decoding is dominated by the loop's exit (or is inside the loop / the error test)
	refs := pts.Referrers()
	if refs != nil {
		for _, u := range *refs {
			if clearLoop.In[u.Block()] || u.Block() == clearLoop.Header {
				continue
			}
			if len(clearLoop.Done.Instrs) > 0 && core.InstrDominates(clearLoop.Done.Instrs[0], u) {
				continue
			}
			if c, ok := u.(*ssa.Call); ok {
				if bi, isB := c.Call.Value.(*ssa.Builtin); isB && bi.Name() == "len" {
					continue
				}
			}
			return false, "the decoded points are used before the cofactor is cleared"
		}
	}
	return true, ""
}

// pointCleared: pt (result of NewECPoint on wire coordinates) is used only as receiver of EightInvEight.
func pointCleared(pt, errV ssa.Value) (bool, string) {
	if pt == nil {
		return false, "result not used"
	}
	refs := pt.Referrers()
	if refs == nil {
		return false, "the decoded point is not used"
	}
	n := 0
	for _, u := range *refs {
		switch x := u.(type) {
		case *ssa.Call:
			if core.CallIs(x, "(*~/crypto.ECPoint).EightInvEight") && core.Strip(x.Call.Args[0]) == pt {
				n++
				continue
			}
			return false, "the decoded point is passed to " + core.CalleeShort(x) + " without cofactor clearing"
		case *ssa.DebugRef:
		case *ssa.BinOp:
			if x.Op == token.EQL || x.Op == token.NEQ {
				continue
			}
			return false, "unexpected use of the decoded point"
		case *ssa.Phi, *ssa.Store, *ssa.MakeInterface:
			return false, "the decoded point flows on without cofactor clearing"
		}
	}
	if n == 0 {
		return false, "the decoded point never passes through EightInvEight(): a small-order component survives into the aggregated nonce"
	}
	return true, ""
}

// inlineOnCurve: the facts establish x != nil, y != nil and curve.IsOnCurve(x, y) == true for exactly these terms.
func inlineOnCurve(facts []core.TFact, curve, x, y *T) bool {
	okCall := false
	for _, f := range facts {
		if f.Kind == core.FCall && f.Bool && f.Call.Call.IsInvoke() && f.Call.Call.Method.Name() == "IsOnCurve" {
			if core.TermOf(f.Call.Call.Value).Key() == curve.Key() && core.TermOf(f.Call.Call.Args[0]).Key() == x.Key() && core.TermOf(f.Call.Call.Args[1]).Key() == y.Key() {
				okCall = true
			}
		}
	}
	return okCall && core.HasNilFact(facts, core.KeyIs(x), false) && core.HasNilFact(facts, core.KeyIs(y), false)
}
