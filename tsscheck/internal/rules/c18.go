package rules

import (
	"fmt"
	"strings"

	"golang.org/x/tools/go/ssa"

	"tsscheck/internal/core"
)

func init() { Registry["C18"] = runC18 }

func runC18(p *core.Prog, r *core.Report) {
	c := &ctx{p, r}
	r.Explain = "HD child key derivation (crypto/ckd, ecdsa/signing): (R18.1) every non-error return of DeriveChildKey is dominated by index < 2^31, Depth != maxDepth, the nil-error edge of NewECPoint(parent), IL < N and IL != 0 for the curve passed in, and the nil-error edge of the child point addition; the hierarchy walk returns on the first error; (R18.2) the returned offset is the fold acc = (IL_k + acc) mod m over the path with m the modulus parameter, and the key passed to step k+1 is the child returned by step k; (R18.3) layout by resolved callees and constants: HMAC-SHA512 keyed with the chain code over a 37-byte buffer = 33-byte compressed key ‖ big-endian index at offset 33, IL = first 32 bytes, chain code = last 32, fingerprint = first 4 bytes of hash160(compressed key), compressed key = format byte ‖ X right-aligned in 32 bytes (padding helper post-condition); (R18.4) signing applies the offset to a fresh integer: no in-place big.Int operation in the signing packages targets caller-owned key data (effect analysis)."
	r.Undec = "bit-for-bit equality with BIP32 beyond the layout facts of R18.3, and that signatures verify under the child key (algebra)."
	r.Assume = []string{"crypto/hmac, crypto/sha512, crypto/sha256, ripemd160 and encoding/binary behave as documented"}
	c18Refusals(c)
	c18Offset(c)
	c18Layout(c)
	c18Fresh(c)
}

func c18Refusals(c *ctx) {
	const rule = "R18.1"
	fn := c.mustFunc(rule, "crypto/ckd", "DeriveChildKey")
	if fn == nil {
		return
	}
	// DeriveChildKey(index0, pk1, curve2)
	blocks := nilErrReturnBlocks(fn, 2)
	if len(blocks) == 0 {
		c.r.Unk(rule, fkey(rule, fn, "success-return"), c.fpos(fn), "no non-error return")
		return
	}
	hardened := iterConst(c, "crypto/ckd", "HardenedKeyStart")
	maxDepth := iterConst(c, "crypto/ckd", "maxDepth")
	type chk struct {
		name string
		f    func(facts []core.TFact) (bool, string)
	}
	var ilNum ssa.Value
	for _, ret := range core.Returns(fn) {
		if !core.IsNilConst(core.Strip(ret.Results[0])) {
			ilNum = core.Strip(ret.Results[0])
		}
	}
	isIL := func(t *T) bool {
		return ilNum != nil && t.V == ilNum || (ilNum != nil && t.Key() == core.TermOf(ilNum).Key())
	}
	curveN := func(t *T) bool {
		return core.IsCurveOrder(t) && strings.Contains(t.Key(), core.TermOf(fn.Params[2]).Key())
	}
	var newPt, addPt *ssa.Call
	for _, cs := range core.Calls(fn) {
		if core.CallIs(cs, "~/crypto.NewECPoint") {
			newPt = cs.(*ssa.Call)
		}
		if core.CallIs(cs, "(*~/crypto.ECPoint).Add") {
			addPt = cs.(*ssa.Call)
		}
	}
	checks := []chk{
		{"index<2^31", func(fs []core.TFact) (bool, string) {
			return core.PossibleIntCmp(fs, paramIs(fn, 0), hardened)&(core.EQ|core.GT) == 0, "a hardened index (>= 2^31) is not refused"
		}},
		{"depth!=max", func(fs []core.TFact) (bool, string) {
			return core.PossibleIntCmp(fs, func(t *T) bool { n, _ := t.Field(); return n == "Depth" }, maxDepth)&core.EQ == 0, "derivation beyond the maximum depth is not refused"
		}},
		{"parent-on-curve", func(fs []core.TFact) (bool, string) {
			if newPt == nil {
				return false, "the parent key is not validated with NewECPoint"
			}
			okArgs := core.TermOf(newPt.Call.Args[0]).Key() == paramTerm(fn, 2).Key() && strings.HasSuffix(descr(newPt.Call.Args[1]), ".X") && strings.HasSuffix(descr(newPt.Call.Args[2]), ".Y")
			return okArgs && core.HasNilFact(fs, func(t *T) bool { return t.V == extractOf(newPt, 1) }, true), "an invalid parent key (not on the curve passed in) is not refused"
		}},
		{"IL<N", func(fs []core.TFact) (bool, string) {
			return core.PossibleCmp(fs, isIL, curveN)&(core.EQ|core.GT) == 0, "IL >= curve order is not refused (or compared against another curve's order)"
		}},
		{"IL!=0", func(fs []core.TFact) (bool, string) {
			return core.PossibleSign(fs, isIL)&core.EQ == 0, "IL == 0 is not refused"
		}},
		{"child-on-curve", func(fs []core.TFact) (bool, string) {
			if addPt == nil {
				return false, "the child point is not computed with ECPoint.Add"
			}
			return core.HasNilFact(fs, func(t *T) bool { return t.V == extractOf(addPt, 1) }, true), "a failing child point addition is not refused"
		}},
	}
	for _, ch := range checks {
		ok, why := true, ""
		for _, b := range blocks {
			if o, w := ch.f(core.TFactsAt(b, 1)); !o {
				ok, why = false, w
			}
		}
		c.r.Check(ok, rule, fkey(rule, fn, "refuses:"+ch.name), c.fpos(fn), "guard dominates every non-error return", why)
	}
	// IL is the integer of the first 32 bytes of the HMAC output — checked in R18.3; here: the returned child is built from parent + IL*G
	if addPt != nil && newPt != nil {
		okChild := core.Strip(addPt.Call.Args[0]) == extractOf(newPt, 0)
		sb, isSB := core.IsCallTo(core.Strip(addPt.Call.Args[1]), "~/crypto.ScalarBaseMult")
		okChild = okChild && isSB && ilNum != nil && core.Strip(sb.Call.Args[1]) == ilNum && core.TermOf(sb.Call.Args[0]).Key() == paramTerm(fn, 2).Key()
		c.r.Check(okChild, rule, fkey(rule, fn, "child=parent+IL*G"), c.pos(addPt), "child = parent + IL·G on the curve passed in; the IL returned is the IL used", "the child key is not parent + IL·G with the returned IL")
	}
	// hierarchy: first error returns
	if h := c.mustFunc(rule, "crypto/ckd", "DeriveChildKeyFromHierarchy"); h != nil {
		calls := core.CallsTo(h, "~/crypto/ckd.DeriveChildKey")
		ok := len(calls) == 1
		if ok {
			call := calls[0].(*ssa.Call)
			errV := extractOf(call, 2)
			found := false
			for _, b := range nilErrReturnBlocks(h, 2) {
				for _, ff := range core.ForallFactsAt(b, 0) {
					if ff.Kind == core.FNil && ff.Bool && ff.X != nil && ff.X.V == errV {
						found = true
					}
				}
			}
			ok = found
		}
		c.r.Check(ok, rule, fkey(rule, h, "first-error-aborts"), c.fpos(h), "the success return requires every step's error to be nil", "a failing derivation step does not abort the hierarchy walk")
	}
	c.r.Floor(rule, 8)
}

func c18Offset(c *ctx) {
	const rule = "R18.2"
	h := c.mustFunc(rule, "crypto/ckd", "DeriveChildKeyFromHierarchy")
	if h == nil {
		return
	}
	calls := core.CallsTo(h, "~/crypto/ckd.DeriveChildKey")
	if len(calls) != 1 {
		c.r.Bad(rule, fkey(rule, h, "fold"), c.fpos(h), "expected one DeriveChildKey call in the loop")
		return
	}
	call := calls[0].(*ssa.Call)
	// DeriveChildKeyFromHierarchy(indices0, pk1, mod2, curve3)
	var loop *core.Loop
	for _, l := range core.Loops(h) {
		if l.In[call.Block()] {
			loop = l
		}
	}
	okLoop := loop != nil && loop.Lo == 0 && !loop.HiIncl
	if okLoop {
		ht := core.TermOf(loop.Hi)
		okLoop = ht.Op == "call:len" && ht.Args[0].Key() == paramTerm(h, 0).Key()
		it := core.TermOf(call.Call.Args[0])
		okLoop = okLoop && it.Op == "[]" && it.Args[0].Key() == paramTerm(h, 0).Key() && it.Args[1].Key() == core.TermOf(loop.Idx).Key()
	}
	c.r.Check(okLoop, rule, fkey(rule, h, "walks-whole-path-in-order"), c.fpos(h), "step k derives with indices[k], k = 0..len-1", "the hierarchy loop does not derive with every index of the path in order")
	// key chaining: arg 1 is phi[pk, child of previous step]
	okKey := false
	if ph, ok := core.Strip(call.Call.Args[1]).(*ssa.Phi); ok && len(ph.Edges) == 2 {
		var init, back ssa.Value
		for i, e := range ph.Edges {
			if loop != nil && loop.In[ph.Block().Preds[i]] {
				back = e
			} else {
				init = e
			}
		}
		okKey = init != nil && back != nil && core.TermOf(init).Key() == paramTerm(h, 1).Key() && core.Strip(back) == extractOf(call, 1)
		// the returned key is that phi
		for _, b := range nilErrReturnBlocks(h, 2) {
			ret := b.Instrs[len(b.Instrs)-1].(*ssa.Return)
			if core.Strip(ret.Results[1]) != ssa.Value(ph) {
				okKey = false
			}
		}
	}
	c.r.Check(okKey, rule, fkey(rule, h, "child-becomes-parent"), c.pos(call), "the key of step k+1 is the child of step k; the last child is returned", "the derivation steps are not chained parent → child")
	// offset fold
	okFold := false
	why := "the returned offset is not the running sum of the steps' IL modulo the modulus parameter"
	for _, b := range nilErrReturnBlocks(h, 2) {
		ret := b.Instrs[len(b.Instrs)-1].(*ssa.Return)
		ph, ok := core.Strip(ret.Results[0]).(*ssa.Phi)
		if !ok || len(ph.Edges) != 2 {
			continue
		}
		var init, back ssa.Value
		for i, e := range ph.Edges {
			if loop != nil && loop.In[ph.Block().Preds[i]] {
				back = e
			} else {
				init = e
			}
		}
		if init == nil || back == nil {
			continue
		}
		it := core.TermOf(init)
		bt := core.TermOf(back)
		il := extractOf(call, 0)
		// Mod(Add(IL, phi), mod)
		if core.IsZeroTerm(it) && bt.Op == "Mod" && bt.Args[1].Key() == paramTerm(h, 2).Key() && bt.Args[0].Op == "Add" && len(bt.Args[0].Args) == 2 {
			a0, a1 := bt.Args[0].Args[0], bt.Args[0].Args[1]
			if (a0.V == il && a1.V == ssa.Value(ph)) || (a1.V == il && a0.V == ssa.Value(ph)) {
				okFold = true
			} else {
				why = "the running offset is " + bt.Key()
			}
		} else {
			why = fmt.Sprintf("offset starts at %s and is updated to %s", it.Key(), bt.Key())
		}
	}
	c.r.Check(okFold, rule, fkey(rule, h, "offset=sum-IL-mod-m"), c.fpos(h), "offset_0 = 0; offset_{k+1} = (IL_k + offset_k) mod m", why)
	// the signing helper passes the curve order as modulus and the same curve
	if d := c.mustFunc(rule, "ecdsa/signing", "derivingPubkeyFromPath"); d != nil {
		cs := core.CallsTo(d, "~/crypto/ckd.DeriveChildKeyFromHierarchy")
		ok := len(cs) == 1
		if ok {
			a := cs[0].Common().Args
			mt := core.TermOf(a[2])
			ok = core.IsCurveOrder(mt) && strings.Contains(mt.Key(), core.TermOf(a[3]).Key()) && core.TermOf(a[0]).Key() == paramTerm(d, 2).Key()
		}
		c.r.Check(ok, rule, fkey(rule, d, "modulus=curve-order"), c.fpos(d), "offsets are accumulated modulo the order of the derivation curve", "the offset modulus passed by the signing helper is not the order of the curve it derives on")
	}
	c.r.Floor(rule, 4)
}

func c18Layout(c *ctx) {
	const rule = "R18.3"
	fn := c.mustFunc(rule, "crypto/ckd", "DeriveChildKey")
	if fn == nil {
		return
	}
	bad := ""
	// HMAC-SHA512 keyed with the chain code
	// the MAC computation may sit in a private helper (hmacSHA512(key, data)): read through
	var hm []ssa.CallInstruction
	for _, g := range unitFuncs(fn) {
		if g.Parent() == nil {
			hm = append(hm, core.CallsTo(g, "crypto/hmac.New")...)
		}
	}
	if len(hm) != 1 {
		bad += "expected one hmac.New; "
	} else {
		a := hm[0].Common().Args
		if f, ok := core.Strip(a[0]).(*ssa.Function); !ok || f.String() != "crypto/sha512.New" {
			bad += "the MAC is not HMAC-SHA512; "
		}
		if k := core.ResolveIn(fn, a[1]); !strings.HasSuffix(descr(k), "ChainCode") {
			bad += "the MAC key is " + descr(k) + ", not the parent chain code; "
		}
	}
	// data buffer: make(37); copy(data, serializeCompressed(pk.X, pk.Y)); PutUint32(data[33:], index)
	var data ssa.Value
	for _, b := range fn.Blocks {
		for _, in := range b.Instrs {
			if v, ok := in.(ssa.Value); ok {
				if n, isK, isMk := core.MadeSlice(v); isMk && isK && n == 37 {
					data = v
				}
			}
		}
	}
	if data == nil {
		bad += "no 37-byte HMAC input buffer; "
	} else {
		okCopy, okIdx, okWrite := false, false, false
		var ser *ssa.Call
		for _, cs := range core.Calls(fn) {
			call, isCall := cs.(*ssa.Call)
			if !isCall {
				continue
			}
			if bi, ok := call.Call.Value.(*ssa.Builtin); ok && bi.Name() == "copy" && core.Strip(call.Call.Args[0]) == data {
				if sc, ok := core.IsCallTo(core.Strip(call.Call.Args[1]), "~/crypto/ckd.serializeCompressed"); ok {
					if strings.HasSuffix(descr(sc.Call.Args[0]), ".X") && strings.HasSuffix(descr(sc.Call.Args[1]), ".Y") {
						okCopy = true
						ser = sc
					}
				}
			}
			if core.CallIs(call, "(encoding/binary.bigEndian).PutUint32") {
				if sl, ok := core.Strip(call.Call.Args[1]).(*ssa.Slice); ok && core.Strip(sl.X) == data {
					if k, isK := core.ConstInt(sl.Low); isK && k == 33 && core.TermOf(call.Call.Args[2]).Key() == paramTerm(fn, 0).Key() {
						okIdx = true
					}
				}
			}
			if call.Call.IsInvoke() && call.Call.Method.Name() == "Write" && core.Strip(call.Call.Args[0]) == data {
				okWrite = true
			}
		}
		for _, g := range unitFuncs(fn) {
			if g == fn || g.Parent() != nil {
				continue
			}
			for _, cs := range core.Calls(g) {
				if call, isCall := cs.(*ssa.Call); isCall && call.Call.IsInvoke() && call.Call.Method.Name() == "Write" && core.ResolveIn(fn, call.Call.Args[0]) == core.Strip(data) {
					okWrite = true
				}
			}
		}
		if !okCopy {
			bad += "the buffer does not start with the compressed parent key; "
		}
		if !okIdx {
			bad += "the child index is not written big-endian at offset 33; "
		}
		if !okWrite {
			bad += "the 37-byte buffer is not what is MACed; "
		}
		// fingerprint
		fpOK := false
		for _, b := range nilErrReturnBlocks(fn, 2) {
			ret := b.Instrs[len(b.Instrs)-1].(*ssa.Return)
			// the child key may be assembled by a private helper (newChildKey(…)): read through
			sf := storedFields(core.ResolveIn(fn, ret.Results[1]))
			if v := sf["ParentFP"]; v != nil {
				if sl, ok := core.ResolveIn(fn, v).(*ssa.Slice); ok {
					if k, isK := core.ConstInt(sl.High); isK && k == 4 && sl.Low == nil {
						if h160, ok := core.IsCallTo(core.Strip(sl.X), "~/crypto/ckd.hash160"); ok && ser != nil && core.ResolveParamIn(fn, h160.Call.Args[0]) == ssa.Value(ser) {
							fpOK = true
						}
					}
				}
			}
			// IL / chain code split
			if v := sf["ChainCode"]; v != nil {
				if sl, ok := core.ResolveIn(fn, v).(*ssa.Slice); ok {
					if k, isK := core.ConstInt(sl.Low); !isK || k != 32 || sl.High != nil {
						bad += "the child chain code is not the last 32 bytes of the MAC; "
					}
				}
			}
			if v := sf["Depth"]; v != nil {
				if d := descr(core.ResolveIn(fn, v)); !strings.Contains(d, "Depth+1") {
					bad += "child depth is " + d + "; "
				}
			}
			if v := sf["ChildIndex"]; v == nil || core.FrameTerm(fn, v).Key() != paramTerm(fn, 0).Key() {
				bad += "child index field is not the index; "
			}
		}
		if !fpOK {
			bad += "the parent fingerprint is not hash160(compressed parent key)[:4]; "
		}
	}
	// IL = SetBytes(ilr[:32])
	ilOK := false
	for _, cs := range core.CallsTo(fn, "(*math/big.Int).SetBytes") {
		if sl, ok := core.Strip(cs.Common().Args[1]).(*ssa.Slice); ok {
			if k, isK := core.ConstInt(sl.High); isK && k == 32 && sl.Low == nil {
				ilOK = true
			}
		}
	}
	if !ilOK {
		bad += "IL is not the integer of the first 32 MAC bytes; "
	}
	c.r.Check(bad == "", rule, fkey(rule, fn, "hmac-input-and-split"), c.fpos(fn), "I = HMAC-SHA512(chain code, compressed parent ‖ BE32(index)); IL = I[:32], chain code = I[32:], FP = hash160(parent)[:4]", bad)
	// compressed key encoding
	if sc := c.mustFunc(rule, "crypto/ckd", "serializeCompressed"); sc != nil {
		ok, why := compressedKeyShape(c, sc)
		c.r.Check(ok, rule, fkey(rule, sc, "format‖X-right-aligned-32"), c.fpos(sc), "0x02|odd(Y) followed by X left-padded to 32 bytes", why)
	}
	c.r.Floor(rule, 2)
}

// compressedKeyShape: serializeCompressed returns format ‖ rightAlign32(X.Bytes()).
func compressedKeyShape(c *ctx, fn *ssa.Function) (bool, string) {
	for _, ret := range core.Returns(fn) {
		v := core.Strip(ret.Results[0])
		// idiom: paddedAppend(append(make(0,33), format), 32, X.Bytes())
		if ok, why, handled := fixedBufferKey(fn, v); handled {
			if !ok {
				return false, why
			}
			continue
		}
		call, ok := v.(*ssa.Call)
		if !ok {
			return false, "unrecognised construction of the compressed key: " + descr(v)
		}
		// third idiom (the append helper written out): append(append(make(0,33), format), paddedBytes(32, X.Bytes())...)
		if b0, x0, isApp := appendOf(call); isApp {
			if pc, isC := core.Strip(x0).(*ssa.Call); isC && core.Callee(pc) != nil && isModuleFn(core.Callee(pc)) && len(pc.Call.Args) == 2 {
				if k, isK := core.ConstInt(pc.Call.Args[0]); !isK || k != 32 {
					return false, "X is not padded to 32 bytes"
				}
				xt := core.TermOf(pc.Call.Args[1])
				if xt.Op != "call:Bytes" || xt.Args[0].Key() != paramTerm(fn, 0).Key() {
					return false, "the padded value is not X.Bytes()"
				}
				if ok3, why := rightAlignPost(core.Callee(pc)); !ok3 {
					return false, why
				}
				b1, x1, okA := appendOf(b0)
				if !okA {
					return false, "the format byte is not the first byte"
				}
				if n, isK, isMk := core.MadeSlice(b1); !isMk || !isK || n != 0 {
					return false, "the key buffer does not start empty"
				}
				segs, okS := core.SeqOf(x1)
				if !okS || len(segs) != 1 {
					return false, "the format byte is not a single byte"
				}
				w := core.NewDepWalker(fn, false)
				w.Walk(segs[0].V)
				for _, f := range core.FactsAt(call.Block()) {
					if f.X != nil {
						w.Walk(f.X)
					}
				}
				if !w.Out["param:1"] {
					// the parity may enter through a phi of the format value: control dependence is part of the walk
					return false, "the format byte does not depend on the parity of Y"
				}
				continue
			}
		}
		g := core.Callee(call)
		if g == nil || !isModuleFn(g) || len(call.Call.Args) != 3 {
			return false, "unrecognised construction of the compressed key: " + descr(v)
		}
		if k, isK := core.ConstInt(call.Call.Args[1]); !isK || k != 32 {
			return false, "X is not padded to 32 bytes"
		}
		if d := descr(call.Call.Args[2]); d != "Bytes(param:publicKeyX)" && !strings.HasPrefix(d, "Bytes(param:") {
			return false, "the padded value is " + d + ", not X.Bytes()"
		}
		if core.TermOf(call.Call.Args[2]).Args[0].Key() != paramTerm(fn, 0).Key() {
			return false, "the padded value is not the X coordinate parameter"
		}
		// prefix: append(make(0, 33), format) with format = 2 | isOdd(Y)
		b, x, okA := appendOf(call.Call.Args[0])
		if !okA {
			return false, "the format byte is not the first byte"
		}
		if n, isK, isMk := core.MadeSlice(b); !isMk || !isK || n != 0 {
			return false, "the key buffer does not start empty"
		}
		segs, okS := core.SeqOf(x)
		if !okS || len(segs) != 1 {
			return false, "the format byte is not a single byte"
		}
		w := core.NewDepWalker(fn, false)
		w.Walk(segs[0].V)
		if !w.Out["param:1"] {
			return false, "the format byte does not depend on the parity of Y"
		}
		// the helper chain: paddedAppend → append(dst, paddedBytes(size, src)...) ; paddedBytes right-aligns
		pa := g
		okPA := false
		for _, r2 := range core.Returns(pa) {
			if b2, x2, ok2 := appendOf(r2.Results[0]); ok2 && core.TermOf(b2).Key() == paramTerm(pa, 0).Key() {
				if pc, isC := core.Strip(x2).(*ssa.Call); isC {
					if pb := core.Callee(pc); pb != nil && isModuleFn(pb) && len(pc.Call.Args) == 2 &&
						core.TermOf(pc.Call.Args[0]).Key() == paramTerm(pa, 1).Key() && core.TermOf(pc.Call.Args[1]).Key() == paramTerm(pa, 2).Key() {
						if ok3, why := rightAlignPost(pb); !ok3 {
							return false, why
						}
						okPA = true
					}
				}
			}
		}
		if !okPA {
			return false, "the padding helper does not append the right-aligned value to the prefix"
		}
	}
	return true, ""
}

// rightAlignPost: paddedBytes(size, src) returns src when len(src) >= size, otherwise a
// make(size) buffer with src copied at offset size−len(src).
func rightAlignPost(fn *ssa.Function) (bool, string) {
	size, src := fn.Params[0], fn.Params[1]
	isLenSrc := func(t *T) bool { return t.Op == "call:len" && t.Args[0].Key() == core.TermOf(src).Key() }
	offsetIs := func(t *T) bool {
		return t.Op == "bin-" && t.Args[0].Key() == core.TermOf(size).Key() && isLenSrc(t.Args[1])
	}
	check := func(v ssa.Value, facts []core.TFact) (bool, string) {
		v = core.Strip(v)
		switch x := v.(type) {
		case *ssa.Parameter:
			if x != src {
				return false, "returns an unrelated value"
			}
			// requires size - len(src) <= 0
			pos := core.PossibleIntCmp(facts, offsetIs, 0)
			pos2 := core.PossibleIntCmpT(facts, isLenSrc, core.KeyIs(core.TermOf(size)))
			if pos&core.GT != 0 && pos2&core.LT != 0 {
				return false, "a value shorter than the width is returned unpadded"
			}
			return true, ""
		case *ssa.MakeSlice:
			if core.TermOf(x.Len).Key() != core.TermOf(size).Key() {
				return false, "the padded buffer is not `size` bytes"
			}
			// copy(tmp[offset:], src)
			for _, cs := range core.Calls(fn) {
				call, ok := cs.(*ssa.Call)
				if !ok {
					continue
				}
				if bi, isB := call.Call.Value.(*ssa.Builtin); isB && bi.Name() == "copy" {
					if sl, isSl := core.Strip(call.Call.Args[0]).(*ssa.Slice); isSl && core.Strip(sl.X) == ssa.Value(x) && sl.Low != nil && sl.High == nil {
						if offsetIs(core.TermOf(sl.Low)) && core.TermOf(call.Call.Args[1]).Key() == core.TermOf(src).Key() {
							return true, ""
						}
						return false, "the value is copied at offset " + descr(sl.Low) + ", not right-aligned at size−len(src): coordinates with leading zero bytes are encoded wrongly"
					}
				}
			}
			return false, "the padded buffer is never filled"
		}
		return false, "unrecognised padding construction: " + descr(v)
	}
	for _, ret := range core.Returns(fn) {
		v := core.Strip(ret.Results[0])
		if ph, ok := v.(*ssa.Phi); ok {
			for i, e := range ph.Edges {
				pred := ph.Block().Preds[i]
				fs := core.ExpandFacts(core.FactsAt(pred), 0)
				if len(pred.Instrs) > 0 {
					if iff, ok := pred.Instrs[len(pred.Instrs)-1].(*ssa.If); ok {
						fs = append(fs, core.ExpandFacts(core.CondFacts(iff.Cond, pred.Succs[0] == ph.Block(), iff), 0)...)
					}
				}
				if ok2, why := check(e, fs); !ok2 {
					return false, why
				}
			}
			continue
		}
		if ok2, why := check(v, core.TFactsAt(ret.Block(), 0)); !ok2 {
			return false, why
		}
	}
	return true, ""
}

func c18Fresh(c *ctx) {
	const rule = "R18.4"
	keyDataMutations(c, rule)
}

// fixedBufferKey: the second idiom of the compressed key — a 33-byte buffer made at once, byte 0 the
// format, X written into bytes 1..32 either by X.FillBytes(b[1:]) (right-aligned by the library's
// contract) or by copy(b[33-len(xb):], xb) with xb = X.Bytes(). copy(b[1:], X.Bytes()) left-aligns
// a coordinate with leading zero bytes and is reported.
func fixedBufferKey(fn *ssa.Function, v ssa.Value) (ok bool, why string, handled bool) {
	n, isK, isMk := core.MadeSlice(v)
	if !isMk || !isK || n != 33 {
		return false, "", false
	}
	x := paramTerm(fn, 0)
	isXBytes := func(t *T) bool { return t.Op == "call:Bytes" && len(t.Args) == 1 && t.Args[0].Key() == x.Key() }
	formatOK := false
	var place string
	for _, b := range fn.Blocks {
		for _, in := range b.Instrs {
			switch u := in.(type) {
			case *ssa.Store:
				if ia, isIA := u.Addr.(*ssa.IndexAddr); isIA && core.Strip(ia.X) == v {
					if k, isC := core.ConstInt(ia.Index); isC && k == 0 {
						// format = 2, then |= 1 under isOdd(Y): the value or the branch it sits on depends on Y
						w := core.NewDepWalker(fn, false)
						w.Walk(u.Val)
						for _, f := range core.FactsAt(u.Block()) {
							if f.X != nil {
								w.Walk(f.X)
							}
							if f.Y != nil {
								w.Walk(f.Y)
							}
						}
						if w.Out["param:1"] {
							formatOK = true
						}
					}
				}
			case *ssa.Call:
				var dst ssa.Value
				var src *T
				switch {
				case core.CallIs(u, "(*math/big.Int).FillBytes"):
					if core.TermOf(u.Call.Args[0]).Key() != x.Key() {
						continue
					}
					dst = u.Call.Args[1]
				default:
					if bi, isB := u.Call.Value.(*ssa.Builtin); isB && bi.Name() == "copy" {
						dst, src = u.Call.Args[0], core.TermOf(u.Call.Args[1])
					} else {
						continue
					}
				}
				ds, isSl := core.Strip(dst).(*ssa.Slice)
				if !isSl || core.Strip(ds.X) != v {
					continue
				}
				if ds.High != nil {
					if k, isC := core.ConstInt(ds.High); !isC || k != 33 {
						place = "X is written into " + descr(ds) + ", not into bytes 1..32"
						continue
					}
				}
				if src == nil {
					// FillBytes(b[1:]): zero-extended big-endian into exactly 32 bytes
					if k, isC := core.ConstInt(ds.Low); isC && k == 1 {
						place = "ok"
					} else {
						place = "FillBytes does not fill bytes 1..32"
					}
					continue
				}
				if !isXBytes(src) {
					continue
				}
				lo := core.TermOf(ds.Low)
				if lo.Op == "bin-" && constIs(lo.Args[0], 33) && lo.Args[1].Op == "call:len" && isXBytes(lo.Args[1].Args[0]) {
					place = "ok"
				} else {
					place = "X.Bytes() is copied at offset " + descr(ds.Low) + ", not right-aligned at 33−len(X.Bytes()): a coordinate with leading zero bytes is encoded wrongly (left-aligned), and with it the HMAC input, the fingerprint and the serialised key"
				}
			}
		}
	}
	if !formatOK {
		return false, "byte 0 of the key buffer does not depend on the parity of Y", true
	}
	if place == "" {
		return false, "the X coordinate is never written into the 33-byte key buffer", true
	}
	if place != "ok" {
		return false, place, true
	}
	return true, "", true
}
