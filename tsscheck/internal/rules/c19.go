package rules

import (
	"fmt"
	"go/token"
	"go/types"
	"strings"

	"golang.org/x/tools/go/ssa"

	"tsscheck/internal/core"
)

func init() { Registry["C19"] = runC19 }

func runC19(p *core.Prog, r *core.Report) {
	c := &ctx{p, r}
	r.Explain = "Prime and pre-parameter generation: (R19.1) a candidate pair is sent on the prime channel only after q.ProbablyPrime, the Pocklington test on p, q.BitLen() == requested length − 1 and Validate() all took their true edge for the very (p, q) sent, and Validate itself accepts only when q is prime, 2q+1 == p and p is prime; (R19.2) GetRandomSafePrimesConcurrent defers, in this order of execution, cancel → WaitGroup.Wait → close(errCh) → close(primeCh); every worker calls Done exactly once, polls ctx.Done() at the head of every candidate iteration, sends at most one error and then returns, sends a prime only as an arm of a select that also watches ctx.Done() and returns on it (the collector stops receiving once it has enough), and the error channel has room for one error per worker; the collector returns an error on ctx.Done() and on any worker error; both pre-parameter producers send exactly once on buffered channels; (R19.3) the returned pre-parameters satisfy by value identity NTilde = P·Q with P,Q the SafePrime() of two distinct generated pairs, the stored P,Q are their Prime(), H1 = f² mod NTilde for a sampled unit f, H2 = H1^alpha mod NTilde, Beta = alpha⁻¹ mod (p·q), the Paillier key comes from an independent 2048-bit generator call; (R19.4) samplers return only values behind their loop-exit guard (try < bound; unit of Z_n; Jacobi = −1) and nil for nil/non-positive bounds."
	r.Undec = "primality itself, exact bit lengths of products, promptness of cancellation (wall-clock), that h1 and h2 generate each other."
	r.Assume = []string{"math/big.ProbablyPrime and Jacobi are correct", "context cancellation semantics of the standard library"}
	c19Emission(c)
	c19CancelJoin(c)
	c19Relations(c)
	c19Samplers(c)
}

func c19Emission(c *ctx) {
	const rule = "R19.1"
	fn := c.mustFunc(rule, "common", "runGenPrimeRoutine")
	if fn == nil {
		return
	}
	// the emission: a send statement or the send arm of a select
	var send ssa.Instruction
	var sendX ssa.Value
	var cl *ssa.Function
	nEmit := 0
	for _, g := range core.WithClosures(fn) {
		for _, b := range g.Blocks {
			for _, in := range b.Instrs {
				if s, ok := in.(*ssa.Send); ok && strings.Contains(s.X.Type().String(), "GermainSafePrime") {
					send, sendX, cl = s, s.X, g
					nEmit++
				}
				if sel, ok := in.(*ssa.Select); ok {
					for _, st := range sel.States {
						if st.Dir == types.SendOnly && st.Send != nil && strings.Contains(st.Send.Type().String(), "GermainSafePrime") {
							send, sendX, cl = sel, st.Send, g
							nEmit++
						}
					}
				}
			}
		}
	}
	if send == nil || nEmit != 1 {
		c.r.Bad(rule, fkey(rule, fn, "emission"), c.fpos(fn), fmt.Sprintf("expected one send of a candidate pair, found %d", nEmit))
		return
	}
	facts := core.FactsAt(send.Block())
	sent := storedFields(sendX)
	pS, qS := core.Strip(sent["p"]), core.Strip(sent["q"])
	same := func(v ssa.Value, want ssa.Value) bool {
		return want != nil && (core.Strip(v) == want || core.TermOf(v).Key() == core.TermOf(want).Key() || sameLoad(core.Strip(v), want))
	}
	gates := map[string]bool{}
	for _, f := range facts {
		switch f.Kind {
		case core.FCall:
			call := f.X.(*ssa.Call)
			n := core.CalleeName(call)
			switch {
			case n == "(*math/big.Int).ProbablyPrime" && f.Bool && same(call.Call.Args[0], qS):
				gates["q-probably-prime"] = true
			case strings.HasSuffix(n, "common.isPocklingtonCriterionSatisfied") && f.Bool && same(call.Call.Args[0], pS):
				gates["pocklington(p)"] = true
			case strings.HasSuffix(n, "GermainSafePrime).Validate") && f.Bool:
				v := storedFields(call.Call.Args[0])
				if same(v["p"], pS) && same(v["q"], qS) {
					gates["Validate(p,q)"] = true
				}
			}
		case core.FInt:
			if f.Ord == core.EQ {
				xt, yt := core.TermOf(f.X), core.TermOf(f.Y)
				for _, pr := range [][2]*T{{xt, yt}, {yt, xt}} {
					if pr[0].Op == "call:BitLen" && pr[0].Args[0].V != nil && same(pr[0].Args[0].V, qS) {
						// pBitLen − 1
						if pr[1].Op == "bin-" && constIs(pr[1].Args[1], 1) && pr[1].Args[0].Op != "const" {
							gates["bitlen(q)=pBitLen-1"] = true
						}
					}
				}
			}
		}
	}
	for _, g := range []string{"q-probably-prime", "pocklington(p)", "bitlen(q)=pBitLen-1", "Validate(p,q)"} {
		c.r.Check(gates[g], rule, fkey(rule, fn, "gate:"+g), c.pos(send), "the pair is sent only on the true edge of this test, applied to the values sent", "a candidate pair can be emitted without passing "+g+" (or the test is applied to other values than the pair sent)")
	}
	_ = cl
	// Validate body
	if v := c.mustMethod(rule, "common", "GermainSafePrime", "Validate"); v != nil {
		recv := paramTerm(v, 0)
		facts, _ := acceptFacts(v, 0, true, 2)
		var qPrime, pPrime, rel bool
		for _, f := range facts {
			switch f.Kind {
			case core.FCall:
				if f.Bool && f.Call != nil && core.CalleeName(f.Call) == "(*math/big.Int).ProbablyPrime" {
					// reached through probablyPrime(x): translated terms carry the field
				}
			case core.FCmp:
				if f.Ord == core.EQ {
					a, b := f.X, f.Y
					for _, pr := range [][2]*T{{a, b}, {b, a}} {
						if core.IsFieldOf(pr[1], recv, "p") && strings.Contains(pr[0].Key(), "call:") == false {
							// getSafePrime(q) is a module call: opaque; accept when it depends on q
						}
					}
				}
			}
		}
		// structural: conjunction of probablyPrime(q), getSafePrime(q).Cmp(p)==0, probablyPrime(p)
		for _, cs := range core.Calls(v) {
			n := core.CalleeName(cs)
			if strings.HasSuffix(n, "common.probablyPrime") {
				if core.IsFieldOf(core.TermOf(cs.Common().Args[0]), recv, "q") {
					qPrime = true
				}
				if core.IsFieldOf(core.TermOf(cs.Common().Args[0]), recv, "p") {
					pPrime = true
				}
			}
			if n == "(*math/big.Int).Cmp" {
				a0, a1 := cs.Common().Args[0], cs.Common().Args[1]
				if g, ok := core.IsCallTo(core.Strip(a0), "~/common.getSafePrime"); ok && core.IsFieldOf(core.TermOf(g.Call.Args[0]), recv, "q") && core.IsFieldOf(core.TermOf(a1), recv, "p") {
					rel = true
				}
			}
		}
		// all three must be required for acceptance: every accepting return is a conjunction ending in the last call and
		// false edges return false — decided by: no return-true reachable when any one is false
		okConj := qPrime && pPrime && rel && validateIsConjunction(v)
		c.r.Check(okConj, rule, fkey(rule, v, "q-prime∧p=2q+1∧p-prime"), c.fpos(v), "Validate accepts only when q is prime, 2q+1 == p and p is prime", fmt.Sprintf("Validate does not require all of q prime (%v), 2q+1==p (%v), p prime (%v)", qPrime, rel, pPrime))
		if g := c.mustFunc(rule, "common", "getSafePrime"); g != nil {
			ok := false
			for _, ret := range core.Returns(g) {
				t := core.TermAt(ret.Results[0], ret)
				// Add(Mul(p, two), one)
				if t.Op == "Add" && len(t.Args) == 2 {
					for i := 0; i < 2; i++ {
						if isOne(t.Args[i]) && t.Args[1-i].Op == "Mul" && len(t.Args[1-i].Args) == 2 {
							m := t.Args[1-i]
							for j := 0; j < 2; j++ {
								if constIs(m.Args[j], 2) && m.Args[1-j].Key() == paramTerm(g, 0).Key() {
									ok = true
								}
							}
						}
					}
				}
			}
			c.r.Check(ok, rule, fkey(rule, g, "2q+1"), c.fpos(g), "getSafePrime(q) = 2·q + 1", "getSafePrime does not compute 2q+1")
		}
	}
	c.r.Floor(rule, 6)
}

// validateIsConjunction: the only way to return true is through all boolean calls being true.
func validateIsConjunction(fn *ssa.Function) bool {
	n := 0
	for _, ret := range core.Returns(fn) {
		res := core.Strip(ret.Results[0])
		if b, isC := core.ConstBool(res); isC {
			if b {
				return false
			}
			continue
		}
		fs := append(core.FactsAt(ret.Block()), core.CondFacts(res, true, nil)...)
		calls := 0
		for _, f := range fs {
			if f.Kind == core.FCall && f.Bool {
				calls++
			}
			if f.Kind == core.FCmp && f.Ord == core.EQ {
				calls++
			}
		}
		if calls < 3 {
			return false
		}
		n++
	}
	return n > 0
}

func c19CancelJoin(c *ctx) {
	const rule = "R19.2"
	fn := c.mustFunc(rule, "common", "GetRandomSafePrimesConcurrent")
	if fn == nil {
		return
	}
	// deferred calls in registration order
	var defers []*ssa.Defer
	for _, b := range fn.Blocks {
		for _, in := range b.Instrs {
			if d, ok := in.(*ssa.Defer); ok {
				defers = append(defers, d)
			}
		}
	}
	kind := func(d *ssa.Defer) string {
		n := core.CalleeName(d)
		switch {
		case n == "builtin:close":
			return "close(" + chanElem(d.Call.Args[0]) + ")"
		case n == "(*sync.WaitGroup).Wait":
			return "wait"
		}
		if _, ok := core.Strip(d.Call.Value).(*ssa.Extract); ok {
			return "cancel"
		}
		if strings.Contains(d.Call.Value.Type().String(), "CancelFunc") || strings.Contains(d.Call.Value.Type().String(), "func()") {
			return "cancel"
		}
		return n
	}
	var seq []string
	for _, d := range defers {
		seq = append(seq, kind(d))
	}
	// registration order must be: closes…, wait, cancel  (execution: cancel → wait → closes)
	okOrder := len(seq) >= 3
	wi, ci := -1, -1
	for i, k := range seq {
		if k == "wait" {
			wi = i
		}
		if k == "cancel" {
			ci = i
		}
	}
	if wi < 0 || ci < 0 || ci < wi {
		okOrder = false
	}
	for i, k := range seq {
		if strings.HasPrefix(k, "close(") && i > wi {
			okOrder = false
		}
	}
	for i := 1; i < len(defers); i++ {
		if !core.InstrDominates(defers[i-1], defers[i]) {
			okOrder = false
		}
	}
	c.r.Check(okOrder, rule, fkey(rule, fn, "defer-order"), c.fpos(fn), "deferred (registration order) "+strings.Join(seq, ", ")+": executes cancel → Wait → close", "deferred calls registered as "+strings.Join(seq, ", ")+": workers must be cancelled first, then joined, and the channels closed only afterwards (a worker sending on a closed channel panics; waiting before cancelling never returns)")
	// error channel capacity = number of workers
	var errMk *ssa.MakeChan
	for _, b := range fn.Blocks {
		for _, in := range b.Instrs {
			if mk, ok := in.(*ssa.MakeChan); ok && strings.HasSuffix(mk.Type().String(), "chan error") {
				errMk = mk
			}
		}
	}
	var spawn *core.Loop
	for _, l := range core.Loops(fn) {
		for b := range l.In {
			for _, in := range b.Instrs {
				if cs, ok := in.(ssa.CallInstruction); ok && core.CallIs(cs, "~/common.runGenPrimeRoutine") {
					spawn = l
				}
			}
		}
	}
	okCap := errMk != nil && spawn != nil && spawn.Lo == 0 && !spawn.HiIncl && core.TermOf(errMk.Size).Key() == core.TermOf(spawn.Hi).Key()
	c.r.Check(okCap, rule, fkey(rule, fn, "error-channel-capacity"), c.fpos(fn), "the error channel has room for one error per worker", "the error channel's capacity is not the number of workers: when several workers fail, the surplus ones block on send and the deferred Wait never returns")
	// Add(1) per spawn
	okAdd := false
	if spawn != nil {
		for b := range spawn.In {
			for _, in := range b.Instrs {
				if cs, ok := in.(ssa.CallInstruction); ok && isWG(cs, "Add") {
					if k, isK := core.ConstInt(cs.Common().Args[1]); isK && k == 1 {
						okAdd = true
					}
				}
			}
		}
	}
	c.r.Check(okAdd, rule, fkey(rule, fn, "add-per-worker"), c.fpos(fn), "WaitGroup.Add(1) per worker", "workers are not registered with the WaitGroup one by one")
	// collector: returns an error on ctx.Done and on worker error
	okCol := false
	var colBlocks []*ssa.BasicBlock
	for _, g := range unitFuncs(fn) {
		// the generator itself or the private helper its collector loop was moved into (not the workers)
		if g.Parent() == nil && (g == fn || !strings.Contains(g.Name(), "runGenPrimeRoutine")) {
			colBlocks = append(colBlocks, g.Blocks...)
		}
	}
	for _, b := range colBlocks {
		for _, in := range b.Instrs {
			if sel, ok := in.(*ssa.Select); ok && sel.Blocking {
				hasErr, hasDone := false, false
				for _, st := range sel.States {
					d := descr(st.Chan)
					if core.ChanMake(st.Chan) == errMk && errMk != nil {
						hasErr = true
					}
					if strings.Contains(d, "Done()") && strings.Contains(d, "param:ctx") {
						hasDone = true
					}
				}
				okCol = hasErr && hasDone
			}
		}
	}
	c.r.Check(okCol, rule, fkey(rule, fn, "collector-watches-errors-and-ctx"), c.fpos(fn), "the collector selects on primes, worker errors and the caller's ctx.Done()", "the collector does not watch both worker errors and the caller's context")
	// worker
	if w := c.mustFunc(rule, "common", "runGenPrimeRoutine"); w != nil && len(w.AnonFuncs) == 1 {
		cl := w.AnonFuncs[0]
		okDone, why := callsOnAllPaths(cl, func(cs ssa.CallInstruction) bool { return isWG(cs, "Done") })
		c.r.Check(okDone, rule, fkey(rule, w, "done-once"), c.fpos(w), "Done exactly once on every path of the worker", "WaitGroup.Done "+why)
		// error send is followed by return; ctx.Done polled in the outer loop head
		okErr := true
		for _, b := range cl.Blocks {
			for i, in := range b.Instrs {
				if s, ok := in.(*ssa.Send); ok && strings.HasSuffix(s.Chan.Type().String(), "chan<- error") {
					// remaining instructions: rundefers + return
					for _, rest := range b.Instrs[i+1:] {
						switch rest.(type) {
						case *ssa.RunDefers, *ssa.Return:
						default:
							okErr = false
						}
					}
				}
			}
		}
		c.r.Check(okErr, rule, fkey(rule, w, "one-error-then-return"), c.fpos(w), "after reporting an error the worker returns", "a worker keeps running (and may report again) after sending an error")
		okPoll := false
		for _, b := range cl.Blocks {
			for _, in := range b.Instrs {
				if sel, ok := in.(*ssa.Select); ok && !sel.Blocking {
					for _, st := range sel.States {
						if strings.Contains(descr(st.Chan), "Done()") {
							// the select sits at the head of the outermost loop: it dominates the entropy read
							for _, cs := range core.Calls(cl) {
								if core.CallIs(cs, "io.ReadFull") && core.InstrDominates(sel, cs) {
									okPoll = true
								}
							}
						}
					}
				}
			}
		}
		c.r.Check(okPoll, rule, fkey(rule, w, "polls-ctx-each-candidate"), c.fpos(w), "ctx.Done() is polled before every candidate is drawn", "the worker does not poll ctx.Done() at the head of every candidate iteration")
		// a worker produces primes without bound while the collector stops receiving after numPrimes: a send
		// on the prime channel must be abandoned when the generator is cancelled, i.e. be one arm of a
		// blocking select whose other arm receives from ctx.Done() and returns
		isPrimeChan := func(v ssa.Value) bool { return strings.HasSuffix(v.Type().String(), "GermainSafePrime") }
		okSend, whySend, nSend := true, "", 0
		for _, b := range cl.Blocks {
			for _, in := range b.Instrs {
				switch x := in.(type) {
				case *ssa.Send:
					if isPrimeChan(x.Chan) {
						nSend++
						okSend, whySend = false, "the plain send at "+c.pos(x)+" blocks for ever once the channel is full and the collector has returned: the deferred Wait of the generator never ends (seen at small bit lengths, where almost every candidate is a safe prime)"
					}
				case *ssa.Select:
					sendArm, doneArm := -1, -1
					for i, st := range x.States {
						if st.Dir == types.SendOnly && isPrimeChan(st.Chan) {
							sendArm = i
						}
						if st.Dir == types.RecvOnly && strings.Contains(descr(st.Chan), "Done()") {
							doneArm = i
						}
					}
					if sendArm < 0 {
						continue
					}
					nSend++
					if !x.Blocking || doneArm < 0 {
						okSend, whySend = false, "the select at "+c.pos(x)+" sending a prime has no arm receiving from ctx.Done() (or has a default arm and drops primes)"
						continue
					}
					// the Done arm returns: from the block taken when index == doneArm no send or entropy read is reachable
					if !selectArmReturns(x, doneArm) {
						okSend, whySend = false, "after ctx.Done() fires in the select at "+c.pos(x)+" the worker keeps running"
					}
				}
			}
		}
		c.r.Check(okSend && nSend > 0, rule, fkey(rule, w, "prime-send-watches-ctx"), c.fpos(w), "every send of a prime is an arm of a select that also watches ctx.Done() and returns on it", whySend)
	}
	// pre-parameter producers
	if g := c.mustFunc(rule, "ecdsa/keygen", "GeneratePreParamsWithContextAndRandom"); g != nil {
		for _, s := range goSitesOf(c.p, "ecdsa/keygen") {
			if core.Outermost(s.fn) != g || s.cl == nil {
				continue
			}
			mk := ownChannelSend(s)
			key := fkey(rule, g, "producer:"+goLabel(s))
			ok := mk != nil
			why := "producer channel not resolved"
			if ok {
				if o, w := callsOnAllPathsSend(s.cl, mk); !o {
					ok, why = false, "the producer does not send exactly once on every path ("+w+")"
				}
				if n, isK := core.ConstInt(mk.Size); !isK || n < 1 {
					ok, why = false, "the producer's channel is unbuffered although the consumer may return early"
				}
			}
			c.r.Check(ok, rule, key, c.pos(s.g), "sends exactly once on a buffered channel", why)
		}
	}
	c.r.Floor(rule, 9)
}

func chanElem(v ssa.Value) string {
	t := v.Type().String()
	if i := strings.LastIndex(t, " "); i >= 0 {
		t = t[i+1:]
	}
	if i := strings.LastIndex(t, "."); i >= 0 {
		t = t[i+1:]
	}
	return t
}

func c19Relations(c *ctx) {
	const rule = "R19.3"
	fn := c.mustFunc(rule, "ecdsa/keygen", "GeneratePreParamsWithContextAndRandom")
	if fn == nil {
		return
	}
	var sf map[string]ssa.Value
	for _, b := range nilErrReturnBlocks(fn, 1) {
		ret := b.Instrs[len(b.Instrs)-1].(*ssa.Return)
		sf = storedFields(ret.Results[0])
	}
	if len(sf) == 0 {
		c.r.Bad(rule, fkey(rule, fn, "result"), c.fpos(fn), "returned pre-parameters not recognised")
		return
	}
	d := func(n string) string {
		if sf[n] == nil {
			return "<unset>"
		}
		return descr(sf[n])
	}
	sgp := "<-local:sgpCh" // descr prefix of the received pair list; resolved below by shape
	_ = sgp
	nt, h1, h2, al, be, pp, qq := core.TermOf(sf["NTildei"]), core.TermOf(sf["H1i"]), core.TermOf(sf["H2i"]), core.TermOf(sf["Alpha"]), core.TermOf(sf["Beta"]), core.TermOf(sf["P"]), core.TermOf(sf["Q"])
	elemMethod := func(t *T, method string) (idx int64, ok bool) {
		// call to GermainSafePrime.<method>(sgps[k])
		call, isC := t.V.(*ssa.Call)
		if !isC || !strings.HasSuffix(core.CalleeName(call), "GermainSafePrime)."+method) {
			return 0, false
		}
		at := core.TermOf(call.Call.Args[0])
		if at.Op != "[]" {
			return 0, false
		}
		k, isK := core.TermInt(at.Args[1])
		return k, isK
	}
	bad := ""
	// NTilde = SafePrime(sgps[0]) * SafePrime(sgps[1])
	if nt.Op == "Mul" && len(nt.Args) == 2 {
		k0, ok0 := elemMethod(nt.Args[0], "SafePrime")
		k1, ok1 := elemMethod(nt.Args[1], "SafePrime")
		if !ok0 || !ok1 || k0 == k1 {
			bad += "NTilde is not the product of the safe primes of two distinct generated pairs (" + d("NTildei") + "); "
		}
	} else {
		bad += "NTilde is " + d("NTildei") + "; "
	}
	kp, okp := elemMethod(pp, "Prime")
	kq, okq := elemMethod(qq, "Prime")
	if !okp || !okq || kp == kq {
		bad += "the stored P,Q are not the Sophie-Germain primes of the two pairs (" + d("P") + ", " + d("Q") + "); "
	}
	// H1 = f*f mod NTilde, f sampled unit mod NTilde
	okH1 := false
	if h1.Op == "Mod" && h1.Args[1].Key() == nt.Key() && h1.Args[0].Op == "Mul" && len(h1.Args[0].Args) == 2 && h1.Args[0].Args[0].Key() == h1.Args[0].Args[1].Key() {
		if call, isC := h1.Args[0].Args[0].V.(*ssa.Call); isC && core.CallIs(call, "~/common.GetRandomPositiveRelativelyPrimeInt") && core.TermOf(call.Call.Args[1]).Key() == nt.Key() {
			okH1 = true
		}
	}
	if !okH1 {
		bad += "H1 is not f² mod NTilde for a sampled unit f (" + d("H1i") + "); "
	}
	if !(h2.Op == "ModExp" && h2.Args[0].Key() == h1.Key() && h2.Args[1].Key() == al.Key() && h2.Args[2].Key() == nt.Key()) {
		bad += "H2 is not H1^alpha mod NTilde (" + d("H2i") + "); "
	}
	if call, isC := al.V.(*ssa.Call); !isC || !core.CallIs(call, "~/common.GetRandomPositiveRelativelyPrimeInt") {
		bad += "alpha is not a sampled unit; "
	}
	okBeta := false
	if be.Op == "ModInv" && be.Args[0].Key() == al.Key() && be.Args[1].Op == "Mul" && len(be.Args[1].Args) == 2 {
		a, b := be.Args[1].Args[0], be.Args[1].Args[1]
		if (a.Key() == pp.Key() && b.Key() == qq.Key()) || (a.Key() == qq.Key() && b.Key() == pp.Key()) {
			okBeta = true
		}
	}
	if !okBeta {
		bad += "beta is not alpha⁻¹ mod p·q (" + d("Beta") + "); "
	}
	c.r.Check(bad == "", rule, fkey(rule, fn, "ring-pedersen-relations"), c.fpos(fn), "NTilde=P·Q, H1=f² mod NTilde, H2=H1^alpha, Beta=alpha⁻¹ mod pq by value identity", bad)
	// generator parameters
	okGen := true
	why := ""
	for _, g := range core.WithClosures(fn) {
		for _, cs := range core.Calls(g) {
			if core.CallIs(cs, "~/common.GetRandomSafePrimesConcurrent") {
				bl, ok1 := core.ConstInt(cs.Common().Args[1])
				n, ok2 := core.ConstInt(cs.Common().Args[2])
				if !ok1 || !ok2 || bl != 1024 || n != 2 {
					okGen, why = false, fmt.Sprintf("safe primes requested with bit length %v and count %v (need 1024 and 2)", bl, n)
				}
			}
			if core.CallIs(cs, "~/crypto/paillier.GenerateKeyPair") {
				bl, ok1 := core.ConstInt(cs.Common().Args[2])
				if !ok1 || bl != 2048 {
					okGen, why = false, "the Paillier key is not requested with a 2048-bit modulus"
				}
			}
		}
	}
	c.r.Check(okGen, rule, fkey(rule, fn, "sizes"), c.fpos(fn), "two 1024-bit safe primes for NTilde; an independent 2048-bit Paillier key", why)
	c.r.Floor(rule, 2)
}

func c19Samplers(c *ctx) {
	const rule = "R19.4"
	nonNilRet := func(fn *ssa.Function) []*ssa.Return {
		var out []*ssa.Return
		for _, ret := range core.Returns(fn) {
			if !core.IsNilConst(core.Strip(ret.Results[0])) {
				out = append(out, ret)
			}
		}
		return out
	}
	if fn := c.mustFunc(rule, "common", "GetRandomPositiveInt"); fn != nil {
		ok := true
		why := ""
		rets := nonNilRet(fn)
		for _, ret := range rets {
			facts := core.TFactsAt(ret.Block(), 1)
			v := ret.Results[0]
			if core.PossibleCmp(facts, core.KeyIs(core.TermOf(v)), paramIs(fn, 1))&(core.EQ|core.GT) != 0 {
				// the value may be a phi whose incoming edge carries the guard
				if !phiGuarded(v, func(val ssa.Value, fs []core.TFact) bool {
					return core.PossibleCmp(fs, core.KeyIs(core.TermOf(val)), paramIs(fn, 1))&(core.EQ|core.GT) == 0
				}) {
					// the rejection loop shared with other samplers: sampleUntil(rand, bits, accept) returns only
					// values its acceptance predicate said yes to, and the predicate handed in here accepts only try < bound
					okPred := false
					if pf := acceptancePredicate(v); pf != nil && len(pf.Params) == 1 {
						if pfacts, has := core.ReturnFacts(pf, 0, true); has {
							tf := core.ExpandFacts(pfacts, 1)
							okPred = core.PossibleCmp(tf, core.KeyIs(core.TermOf(pf.Params[0])), paramIs(fn, 1))&(core.EQ|core.GT) == 0
						}
					}
					if !okPred {
						ok, why = false, "a value >= the bound can be returned"
					}
				}
			}
			if !core.HasNilFact(facts, paramIs(fn, 1), false) || core.PossibleCmp(facts, isZero, paramIs(fn, 1)) != core.LT {
				ok, why = false, why+" sampling is reachable for a nil or non-positive bound"
			}
		}
		c.r.Check(ok && len(rets) > 0, rule, fkey(rule, fn, "result<bound"), c.fpos(fn), "returns only try < bound; nil for nil/non-positive bounds", why)
	}
	if fn := c.mustFunc(rule, "common", "GetRandomPositiveRelativelyPrimeInt"); fn != nil {
		ok := true
		rets := nonNilRet(fn)
		for _, ret := range rets {
			v := ret.Results[0]
			g := func(val ssa.Value, fs []core.TFact) bool {
				for _, f := range fs {
					if f.Kind == core.FCall && f.Bool && core.CallIs(f.Call, "~/common.IsNumberInMultiplicativeGroup") {
						if core.TermOf(f.Call.Call.Args[0]).Key() == paramTerm(fn, 1).Key() && core.Strip(f.Call.Call.Args[1]) == core.Strip(val) {
							return true
						}
					}
				}
				return false
			}
			if !g(v, core.TFactsAt(ret.Block(), 0)) && !phiGuarded(v, g) {
				okPred := false
				if pf := acceptancePredicate(v); pf != nil && len(pf.Params) == 1 {
					if pfacts, has := core.ReturnFacts(pf, 0, true); has {
						okPred = g(pf.Params[0], core.ExpandFacts(pfacts, 0))
					}
				}
				if !okPred {
					ok = false
				}
			}
		}
		c.r.Check(ok && len(rets) > 0, rule, fkey(rule, fn, "result-is-unit"), c.fpos(fn), "returns only values accepted by IsNumberInMultiplicativeGroup(n, ·)", "a value that is not a unit of Z_n can be returned")
	}
	if fn := c.mustFunc(rule, "common", "IsNumberInMultiplicativeGroup"); fn != nil {
		facts, _ := acceptFacts(fn, 0, true, 1)
		n, v := paramIs(fn, 0), paramIs(fn, 1)
		ok := core.PossibleCmp(facts, v, n)&(core.EQ|core.GT) == 0 && core.PossibleCmp(facts, v, isOne)&core.LT == 0 &&
			core.PossibleCmp(facts, gcdOf(v, n), isOne) == core.EQ
		c.r.Check(ok, rule, fkey(rule, fn, "1<=v<n∧gcd=1"), c.fpos(fn), "accepts only 1 <= v < n with gcd(v,n) = 1", "the unit test accepts values outside [1,n) or sharing a factor with n")
	}
	if fn := c.mustFunc(rule, "common", "GetRandomQuadraticNonResidue"); fn != nil {
		ok := true
		rets := nonNilRet(fn)
		for _, ret := range rets {
			v := ret.Results[0]
			found := false
			for _, f := range core.TFactsAt(ret.Block(), 0) {
				if f.Kind == core.FInt && f.Ord == core.EQ && f.X != nil && f.Y != nil {
					for _, pr := range [][2]*T{{f.X, f.Y}, {f.Y, f.X}} {
						if pr[0].Op == "call:Jacobi" && pr[0].Args[0].Key() == core.TermOf(v).Key() && pr[0].Args[1].Key() == paramTerm(fn, 1).Key() && constIs(pr[1], -1) {
							found = true
						}
					}
				}
			}
			if !found {
				ok = false
			}
		}
		c.r.Check(ok && len(rets) > 0, rule, fkey(rule, fn, "jacobi=-1"), c.fpos(fn), "returns only w with Jacobi(w,n) = −1", "a value whose Jacobi symbol is not −1 can be returned")
	}
	if fn := c.mustFunc(rule, "common", "GetRandomGeneratorOfTheQuadraticResidue"); fn != nil {
		ok := false
		for _, ret := range core.Returns(fn) {
			t := core.TermAt(ret.Results[0], ret)
			if t.Op == "Mod" && t.Args[1].Key() == paramTerm(fn, 1).Key() && t.Args[0].Op == "Mul" && len(t.Args[0].Args) == 2 && t.Args[0].Args[0].Key() == t.Args[0].Args[1].Key() {
				if call, isC := t.Args[0].Args[0].V.(*ssa.Call); isC && core.CallIs(call, "~/common.GetRandomPositiveRelativelyPrimeInt") {
					ok = true
				}
			}
		}
		c.r.Check(ok, rule, fkey(rule, fn, "f^2-mod-n"), c.fpos(fn), "returns f² mod n for a sampled unit f", "the quadratic-residue generator is not f² mod n of a sampled unit")
	}
	c.r.Floor(rule, 5)
	_ = token.ADD
}

// phiGuarded: v is a loop-carried value every incoming definition of which satisfies holds on its edge.
func phiGuarded(v ssa.Value, holds func(val ssa.Value, facts []core.TFact) bool) bool {
	if _, ok := core.Strip(v).(*ssa.Phi); !ok {
		return false
	}
	return core.PhiInvariant(v, nil, holds)
}

// selectArmReturns: when the blocking select takes arm k, the function returns without running
// another loop iteration: the successor taken on `index == k` reaches a Return and cannot reach the select again.
func selectArmReturns(sel *ssa.Select, k int) bool {
	var idx ssa.Value
	if refs := sel.Referrers(); refs != nil {
		for _, r := range *refs {
			if e, ok := r.(*ssa.Extract); ok && e.Index == 0 {
				idx = e
			}
		}
	}
	if idx == nil {
		return false
	}
	fn := sel.Parent()
	for _, b := range fn.Blocks {
		iff, ok := b.Instrs[len(b.Instrs)-1].(*ssa.If)
		if !ok {
			continue
		}
		bo, ok := iff.Cond.(*ssa.BinOp)
		if !ok || bo.Op != token.EQL || bo.X != idx {
			continue
		}
		if c, isK := core.ConstInt(bo.Y); !isK || int(c) != k {
			continue
		}
		return !core.Reaches(b.Succs[0], sel.Block())
	}
	// the last arm is reached by falling through all comparisons: find the block where every other
	// index has been excluded
	n := len(sel.States)
	if k == n-1 {
		for _, b := range fn.Blocks {
			iff, ok := b.Instrs[len(b.Instrs)-1].(*ssa.If)
			if !ok {
				continue
			}
			bo, ok := iff.Cond.(*ssa.BinOp)
			if !ok || bo.Op != token.EQL || bo.X != idx {
				continue
			}
			if c, isK := core.ConstInt(bo.Y); isK && int(c) == n-2 {
				return !core.Reaches(b.Succs[1], sel.Block())
			}
		}
	}
	return false
}

// acceptancePredicate: v is the result of a private helper that returns a value only after a call of
// its function-typed parameter on that very value returned true (a shared rejection loop); the result is
// the function bound to that parameter at this call — a closure or a named function — or nil.
func acceptancePredicate(v ssa.Value) *ssa.Function {
	c, ok := core.Strip(v).(*ssa.Call)
	if !ok || c.Call.IsInvoke() {
		return nil
	}
	h := core.Callee(c)
	if !core.PrivateHelper(h) || h.Signature.Results().Len() != 1 {
		return nil
	}
	var q *ssa.Parameter
	guard := func(val ssa.Value, fs []core.TFact) bool {
		for _, f := range fs {
			if f.Kind != core.FCall || !f.Bool || f.Call.Call.IsInvoke() || len(f.Call.Call.Args) != 1 {
				continue
			}
			p, isP := core.Strip(f.Call.Call.Value).(*ssa.Parameter)
			if !isP || p.Parent() != h {
				continue
			}
			if _, isFn := p.Type().Underlying().(*types.Signature); !isFn {
				continue
			}
			if core.Strip(f.Call.Call.Args[0]) == core.Strip(val) && (q == nil || q == p) {
				q = p
				return true
			}
		}
		return false
	}
	n := 0
	for _, ret := range core.Returns(h) {
		r := ret.Results[0]
		if core.IsNilConst(core.Strip(r)) {
			continue
		}
		n++
		if !guard(r, core.TFactsAt(ret.Block(), 0)) && !phiGuarded(r, guard) {
			return nil
		}
	}
	if n == 0 || q == nil {
		return nil
	}
	for i, p := range h.Params {
		if p == q && i < len(c.Call.Args) {
			switch a := core.Strip(c.Call.Args[i]).(type) {
			case *ssa.MakeClosure:
				return a.Fn.(*ssa.Function)
			case *ssa.Function:
				return a
			}
		}
	}
	return nil
}
