package rules

import (
	"fmt"
	"go/types"
	"sort"
	"strings"

	"golang.org/x/tools/go/ssa"

	"tsscheck/internal/core"
)

func init() { Registry["C20"] = runC20 }

func runC20(p *core.Prog, r *core.Report) {
	c := &ctx{p, r}
	r.Explain = "Key material across storage and sessions: (R20.1) effect analysis — over the signing packages and everything they call, no in-place *big.Int operation, element store or ECPoint mutator targets an object owned by the caller's key data (interprocedural ownership/alias summaries: which parameters a function may return or overwrite; session fields that may alias key data are tracked); the subset builder writes only into slices of the new value; one declared exception (UpdatePublicKeyAndAdjustBigXj, whose documented purpose is to rewrite the caller's copy); (R20.2) the signing nonces (ECDSA k and gamma, EdDSA r_i) are written once per session, in the first round's Start, directly from common.GetRandomPositiveInt(round.Rand(), curve order) — no key data, message, constant or package variable in their provenance; (R20.3) both LocalPartySaveData types are JSON-closed: every reachable struct has only exported fields or implements both json.Marshaler and json.Unmarshaler (ECPoint, whose auxiliary encodings are identical struct types), no interface/func/chan fields; (R20.4) BuildLocalSaveDataSubset copies every per-party slice field at new[j] = src[savedIdx] with one savedIdx looked up by the party's key, and copies every non-slice field group."
	r.Undec = "that signing from reloaded data gives the same results (behaviour), and nonce distinctness as a probability statement about the configured reader."
	r.Assume = []string{"the reader configured in tss.Parameters is a cryptographic randomness source"}
	keyDataMutations(c, "R20.1")
	r.Floor("R20.1", 5)
	c20Nonces(c)
	c20JSON(c)
	c20Subset(c)
	// key data stays the same object content across sessions: its accessors do not write it either
	c09GetterPurity(c, "R09.4")
}

func c20Nonces(c *ctx) {
	const rule = "R20.2"
	type nonce struct{ rel, field string }
	for _, n := range []nonce{{"ecdsa/signing", "k"}, {"ecdsa/signing", "gamma"}, {"eddsa/signing", "ri"}} {
		var stores []*ssa.Store
		for _, s := range storesToField(c.p, []string{n.rel}, "localTempData", n.field) {
			if core.IsZeroTerm(core.TermOf(s.Val)) || core.IsNilConst(core.Strip(s.Val)) {
				continue // erasure of the nonce after its last use
			}
			stores = append(stores, s)
		}
		key := core.Key(rule, n.rel, "localTempData."+n.field, "fresh-per-session")
		pr := ExtractProtocol(c.p, n.rel)
		ok := len(stores) == 1 && len(pr.Rounds) > 0
		why := fmt.Sprintf("expected exactly one store to the nonce field, found %d", len(stores))
		if ok {
			st := stores[0]
			if st.Parent() != pr.Rounds[0].Fns["Start"] {
				ok, why = false, "the nonce is not drawn in the first round's Start"
			}
			// (the draw may sit in a private helper of the first round's Start that hands the nonce back)
			call, isS := core.IsCallTo(core.ResolveIn(st.Parent(), st.Val), "~/common.GetRandomPositiveInt")
			if isS && call.Parent() != st.Parent() && !syncUnit(st.Parent())[call.Parent()] {
				isS = false
			}
			if !isS {
				ok, why = false, "the nonce is "+descr(st.Val)+", not a direct draw from common.GetRandomPositiveInt: a derived or cached nonce repeats across sessions"
			} else {
				if d := descr(call.Call.Args[0]); d != "Rand()" {
					ok, why = false, "the nonce is drawn from "+d+", not from the session's configured reader round.Rand()"
				}
				if !core.IsCurveOrder(core.TermOf(call.Call.Args[1])) {
					ok, why = false, "the nonce is not drawn below the curve order"
				}
				// not in a loop, dominated by the started guard only
				if enclosingLoopInUnit(st.Parent(), call, 0) != nil {
					ok, why = false, "the nonce draw sits in a loop"
				}
			}
		}
		c.r.Check(ok, rule, key, n.rel+"/round_1.go", "nonce = GetRandomPositiveInt(round.Rand(), N), stored once in round 1", why)
	}
	// Rand() is the parameters' reader
	if fn := c.mustMethod(rule, "tss", "Parameters", "Rand"); fn != nil {
		ok := false
		for _, ret := range core.Returns(fn) {
			if n, b := core.TermOf(ret.Results[0]).Field(); n == "rand" && b.Key() == paramTerm(fn, 0).Key() {
				ok = true
			}
		}
		c.r.Check(ok, rule, fkey(rule, fn, "returns-configured-reader"), c.fpos(fn), "Rand() returns the reader configured in the parameters", "Parameters.Rand() does not return the configured reader")
	}
	c.r.Floor(rule, 4)
}

func c20JSON(c *ctx) {
	const rule = "R20.3"
	marshaler := ifaceOf(c.p, "encoding/json", "Marshaler")
	unmarshaler := ifaceOf(c.p, "encoding/json", "Unmarshaler")
	for _, rel := range []string{"ecdsa/keygen", "eddsa/keygen"} {
		nt := c.p.NamedType(rel, "LocalPartySaveData")
		if nt == nil {
			c.r.Unk(rule, core.Key(rule, rel, "LocalPartySaveData", "anchor"), rel, "type not found")
			continue
		}
		seen := map[types.Type]bool{}
		var bad []string
		n := 0
		var walk func(t types.Type, path string)
		walk = func(t types.Type, path string) {
			if seen[t] {
				return
			}
			seen[t] = true
			switch x := t.(type) {
			case *types.Pointer:
				walk(x.Elem(), path)
			case *types.Slice:
				walk(x.Elem(), path+"[]")
			case *types.Array:
				walk(x.Elem(), path+"[]")
			case *types.Map:
				walk(x.Key(), path+"{key}")
				walk(x.Elem(), path+"{}")
			case *types.Named:
				n++
				if x.Obj().Pkg() != nil && x.Obj().Pkg().Path() == "math/big" {
					return // big.Int implements the JSON interfaces
				}
				ptr := types.NewPointer(x)
				hasM := marshaler != nil && (types.Implements(x, marshaler) || types.Implements(ptr, marshaler))
				hasU := unmarshaler != nil && types.Implements(ptr, unmarshaler)
				if hasM != hasU {
					bad = append(bad, fmt.Sprintf("%s (%s) implements only one of json.Marshaler/Unmarshaler", path, x.Obj().Name()))
					return
				}
				if hasM && hasU {
					if x.Obj().Name() == "ECPoint" {
						if why := ecpointAuxAgree(c); why != "" {
							bad = append(bad, why)
						}
					}
					return
				}
				walk(x.Underlying(), path+"<"+x.Obj().Name()+">")
			case *types.Struct:
				for i := 0; i < x.NumFields(); i++ {
					f := x.Field(i)
					if !f.Exported() {
						bad = append(bad, path+"."+f.Name()+" is unexported: dropped by encoding/json")
						continue
					}
					walk(f.Type(), path+"."+f.Name())
				}
			case *types.Interface:
				bad = append(bad, path+" is an interface: cannot be decoded")
			case *types.Signature, *types.Chan:
				bad = append(bad, path+" is a func/chan: cannot be encoded")
			case *types.Basic:
			}
		}
		walk(nt, "LocalPartySaveData")
		sort.Strings(bad)
		c.r.Check(len(bad) == 0, rule, core.Key(rule, rel, "LocalPartySaveData", "json-closed"), rel+"/save_data.go", fmt.Sprintf("%d named types reachable; all exported or symmetric custom codecs", n), strings.Join(bad, "; "))
	}
	c.r.Floor(rule, 2)
}

func ifaceOf(p *core.Prog, pkg, name string) *types.Interface {
	pk, ok := p.All[pkg]
	if !ok || pk.Types == nil {
		return nil
	}
	o := pk.Types.Scope().Lookup(name)
	if o == nil {
		return nil
	}
	i, _ := o.Type().Underlying().(*types.Interface)
	return i
}

// ecpointAuxAgree: MarshalJSON and UnmarshalJSON of ECPoint use identical auxiliary struct types.
func ecpointAuxAgree(c *ctx) string {
	m := c.p.Method("crypto", "ECPoint", "MarshalJSON")
	u := c.p.Method("crypto", "ECPoint", "UnmarshalJSON")
	if m == nil || u == nil {
		return "ECPoint JSON codec not found"
	}
	aux := func(fn *ssa.Function, callee string) types.Type {
		for _, cs := range core.CallsTo(fn, callee) {
			a := cs.Common().Args
			v := core.Strip(a[len(a)-1])
			t := v.Type()
			for i := 0; i < 3; i++ {
				if p, ok := t.Underlying().(*types.Pointer); ok {
					t = p.Elem()
				}
			}
			return t.Underlying()
		}
		return nil
	}
	tm, tu := aux(m, "encoding/json.Marshal"), aux(u, "encoding/json.Unmarshal")
	if tm == nil || tu == nil {
		return "ECPoint JSON codec does not go through encoding/json with an auxiliary struct"
	}
	if !types.Identical(tm, tu) {
		return fmt.Sprintf("ECPoint.MarshalJSON writes %s but UnmarshalJSON reads %s", tm, tu)
	}
	return ""
}

func c20Subset(c *ctx) {
	const rule = "R20.4"
	for _, rel := range []string{"ecdsa/keygen", "eddsa/keygen"} {
		fn := c.mustFunc(rule, rel, "BuildLocalSaveDataSubset")
		nt := c.p.NamedType(rel, "LocalPartySaveData")
		if fn == nil || nt == nil {
			continue
		}
		st := nt.Underlying().(*types.Struct)
		var sliceFields, otherFields []string
		for i := 0; i < st.NumFields(); i++ {
			if _, ok := st.Field(i).Type().Underlying().(*types.Slice); ok {
				sliceFields = append(sliceFields, st.Field(i).Name())
			} else {
				otherFields = append(otherFields, st.Field(i).Name())
			}
		}
		// element copies new.F[j] = src.F[savedIdx]
		copied := map[string]string{}
		var idxKeys, srcIdxKeys []string
		for _, b := range fn.Blocks {
			for _, in := range b.Instrs {
				s, ok := in.(*ssa.Store)
				if !ok {
					continue
				}
				ia, ok := s.Addr.(*ssa.IndexAddr)
				if !ok {
					continue
				}
				dst := core.AsFieldLoad(ia.X)
				if dst == nil {
					if fa := core.AsFieldAddr(ia.X); fa != nil {
						dst = fa
					}
				}
				if dst == nil {
					continue
				}
				vt := core.TermOf(s.Val)
				if vt.Op != "[]" {
					copied[dst.Name] = "not an element of the source: " + vt.Key()
					continue
				}
				srcName, srcBase := vt.Args[0].Field()
				if srcBase == nil || !strings.Contains(srcBase.Key(), "sourceData") && srcBase.Key() != paramTerm(fn, 0).Key() {
					// the source parameter is spilled; accept any base rooted in parameter 0
					if d := core.DepsOf(fn, false, s.Val); !d["param:0"] {
						copied[dst.Name] = "not copied from the source data"
						continue
					}
				}
				if srcName != dst.Name {
					copied[dst.Name] = "filled from source field " + srcName
					continue
				}
				copied[dst.Name] = "ok"
				idxKeys = append(idxKeys, core.TermOf(ia.Index).Key())
				srcIdxKeys = append(srcIdxKeys, vt.Args[1].Key())
			}
		}
		bad := ""
		for _, f := range sliceFields {
			if copied[f] != "ok" {
				bad += fmt.Sprintf("slice field %s: %s; ", f, orStr(copied[f], "never copied"))
			}
		}
		for i := 1; i < len(idxKeys); i++ {
			if idxKeys[i] != idxKeys[0] || srcIdxKeys[i] != srcIdxKeys[0] {
				bad += "the per-party fields are not copied with one destination index and one source index per iteration; "
				break
			}
		}
		// the source index is looked up by the party's key
		if len(srcIdxKeys) > 0 && !strings.Contains(srcIdxKeys[0], "extract<0>") {
			bad += "the source index is not the result of the key lookup; "
		}
		// non-slice fields copied whole
		for _, f := range otherFields {
			found := false
			for _, b := range fn.Blocks {
				for _, in := range b.Instrs {
					if s, ok := in.(*ssa.Store); ok {
						if fa := core.AsFieldAddr(s.Addr); fa != nil && fa.Name == f {
							if vf := core.AsFieldLoad(s.Val); vf != nil && vf.Name == f {
								found = true
							}
						}
					}
				}
			}
			if !found {
				bad += "field " + f + " is not copied; "
			}
		}
		c.r.Check(bad == "", rule, fkey(rule, fn, "complete-index-consistent-copy"), c.fpos(fn), fmt.Sprintf("slice fields %v copied at new[j] = src[savedIdx]; %v copied whole", sliceFields, otherFields), bad)
	}
	c.r.Floor(rule, 2)
}

func orStr(a, b string) string {
	if a == "" {
		return b
	}
	return a
}
