package rules

import (
	"fmt"
	"go/token"
	"go/types"
	"strings"

	"golang.org/x/tools/go/ssa"

	"tsscheck/internal/core"
)

// descr renders a value of round code in a canonical, position-free form that
// names the party-state field it comes from and the *class* of every index:
//
//	key.PaillierPKs[peer]   temp.cis[peer]   key.NTildej[self]   temp.gamma
//	msg(temp.signRound1Message1s[peer]).UnmarshalC()
//	SetBytes(msg(temp.signRound2Messages[peer]).GetC1())
//
// Index classes: "self" (the party's own index: PartyID().Index), "peer" (the
// index of a range loop over a party list, also when passed to a goroutine
// closure as an argument), or a constant. Embedded hops (round9→…→base) are
// dropped so that the same field read in different rounds has one name.
func descr(v ssa.Value) string { return (&describer{seen: map[ssa.Value]bool{}}).d(v, 0) }

type describer struct {
	seen map[ssa.Value]bool
}

func (ds *describer) d(v ssa.Value, depth int) string {
	if v == nil {
		return "nil"
	}
	if depth > 25 {
		return "…"
	}
	v = core.Strip(v)
	if cls := indexClass(v); cls != "" {
		return cls
	}
	switch x := v.(type) {
	case *ssa.Const:
		if x.Value == nil {
			return "nil"
		}
		return x.Value.ExactString()
	case *ssa.Parameter:
		if x.Parent().Signature.Recv() != nil && len(x.Parent().Params) > 0 && x.Parent().Params[0] == x {
			return "recv"
		}
		if bindableParam(x) {
			// closure parameter: describe the (unique) bound argument
			if a := closureArg(x); a != nil {
				return ds.d(a, depth+1)
			}
		}
		return "param:" + x.Name()
	case *ssa.FreeVar:
		if b := core.FreeVarBinding(x); b != nil {
			if a, ok := b.(*ssa.Alloc); ok {
				_ = a
				return "&" + ds.d(b, depth+1)
			}
			return ds.d(b, depth+1)
		}
		return "fv:" + x.Name()
	case *ssa.Alloc:
		return "local:" + allocName(x)
	case *ssa.Global:
		return "global:" + x.Name()
	case *ssa.UnOp:
		switch x.Op {
		case token.MUL:
			return ds.load(x.X, depth)
		case token.ARROW:
			return "<-" + ds.d(x.X, depth+1)
		}
		return x.Op.String() + ds.d(x.X, depth+1)
	case *ssa.Field:
		fr := core.AsFieldLoad(x)
		return ds.sel(ds.d(fr.Base, depth+1), fr)
	case *ssa.FieldAddr:
		fr := core.AsFieldAddr(x)
		return ds.sel(ds.d(fr.Base, depth+1), fr)
	case *ssa.IndexAddr:
		return ds.d(x.X, depth+1) + "[" + ds.d(x.Index, depth+1) + "]"
	case *ssa.Index:
		return ds.d(x.X, depth+1) + "[" + ds.d(x.Index, depth+1) + "]"
	case *ssa.TypeAssert:
		return ds.d(x.X, depth+1)
	case *ssa.Extract:
		return fmt.Sprintf("%s#%d", ds.d(x.Tuple, depth+1), x.Index)
	case *ssa.Convert:
		return ds.d(x.X, depth+1)
	case *ssa.Slice:
		s := ds.d(x.X, depth+1)
		if x.Low == nil && x.High == nil {
			return s
		}
		lo, hi := "", ""
		if x.Low != nil {
			lo = ds.d(x.Low, depth+1)
		}
		if x.High != nil {
			hi = ds.d(x.High, depth+1)
		}
		return s + "[" + lo + ":" + hi + "]"
	case *ssa.BinOp:
		return "(" + ds.d(x.X, depth+1) + x.Op.String() + ds.d(x.Y, depth+1) + ")"
	case *ssa.Phi:
		if ds.seen[x] {
			return "phi"
		}
		ds.seen[x] = true
		var es []string
		for _, e := range x.Edges {
			es = append(es, ds.d(e, depth+1))
		}
		return "phi(" + strings.Join(es, "|") + ")"
	case *ssa.MakeSlice:
		return "make"
	case *ssa.Call:
		return ds.call(x, depth)
	}
	return "?" + v.Name()
}

func allocName(a *ssa.Alloc) string {
	if a.Comment != "" {
		return a.Comment
	}
	return a.Name()
}

func (ds *describer) load(addr ssa.Value, depth int) string {
	switch a := addr.(type) {
	case *ssa.FieldAddr:
		fr := core.AsFieldAddr(a)
		return ds.sel(ds.d(fr.Base, depth+1), fr)
	case *ssa.IndexAddr:
		return ds.d(a.X, depth+1) + "[" + ds.d(a.Index, depth+1) + "]"
	case *ssa.Global:
		return "global:" + a.Name()
	case *ssa.Alloc:
		return "local:" + allocName(a)
	case *ssa.FreeVar:
		if b := core.FreeVarBinding(a); b != nil {
			if al, ok := b.(*ssa.Alloc); ok {
				return "local:" + allocName(al)
			}
			return "*" + ds.d(b, depth+1)
		}
	}
	return "*" + ds.d(addr, depth+1)
}

// sel appends a field selection, dropping embedded hops and the receiver prefix.
func (ds *describer) sel(base string, fr *core.FieldRef) string {
	if fr.Struct.Field(fr.Index).Embedded() {
		// embedded hop: round9.round8 … base, Parameters: keep the base name only
		return base
	}
	if base == "recv" {
		return fr.Name
	}
	return base + "." + fr.Name
}

func (ds *describer) call(c *ssa.Call, depth int) string {
	name := core.CalleeName(c)
	short := name
	if i := strings.LastIndex(short, "."); i >= 0 {
		short = short[i+1:]
	}
	cc := c.Common()
	var recv string
	var args []string
	if cc.IsInvoke() {
		recv = ds.d(cc.Value, depth+1)
		for _, a := range cc.Args {
			args = append(args, ds.d(a, depth+1))
		}
	} else if f := cc.StaticCallee(); f != nil && f.Signature.Recv() != nil && len(cc.Args) > 0 {
		recv = ds.d(cc.Args[0], depth+1)
		for _, a := range cc.Args[1:] {
			args = append(args, ds.d(a, depth+1))
		}
	} else {
		for _, a := range cc.Args {
			args = append(args, ds.d(a, depth+1))
		}
	}
	switch short {
	case "Content":
		return "msg(" + recv + ")"
	case "new":
		return "new"
	}
	if b, ok := cc.Value.(*ssa.Builtin); ok {
		return b.Name() + "(" + strings.Join(args, ",") + ")"
	}
	if strings.HasPrefix(name, "(*math/big.Int).") {
		// receiver of big.Int methods is a scratch target unless the method reads it
		switch short {
		case "Bytes", "BitLen", "Sign", "Bit", "Cmp", "Int64", "Uint64", "String", "ProbablyPrime":
			return short + "(" + strings.Join(append([]string{recv}, args...), ",") + ")"
		}
		return short + "(" + strings.Join(args, ",") + ")"
	}
	if recv != "" {
		if recv == "recv" {
			return short + "(" + strings.Join(args, ",") + ")"
		}
		return recv + "." + short + "(" + strings.Join(args, ",") + ")"
	}
	return short + "(" + strings.Join(args, ",") + ")"
}

// closureArg: the unique argument bound to closure parameter p at all its call sites.
func closureArg(p *ssa.Parameter) ssa.Value {
	fn := p.Parent()
	idx := -1
	for i, q := range fn.Params {
		if q == p {
			idx = i
		}
	}
	var found ssa.Value
	for _, cs := range core.ClosureCallSites(fn) {
		a := cs.Common().Args
		if idx >= len(a) {
			return nil
		}
		if found != nil && found != a[idx] {
			return nil
		}
		found = a[idx]
	}
	return found
}

// indexClass classifies an integer value used as a party index.
func indexClass(v ssa.Value) string {
	v = core.Strip(v)
	if !isIntLike(v.Type()) {
		return ""
	}
	if isSelfIndex(v) {
		return "self"
	}
	if loopIdx(v) != nil {
		return "peer"
	}
	if p, ok := v.(*ssa.Parameter); ok && bindableParam(p) {
		if a := closureArg(p); a != nil {
			return indexClass(a)
		}
	}
	return ""
}

func isIntLike(t types.Type) bool {
	b, ok := t.Underlying().(*types.Basic)
	return ok && b.Info()&types.IsInteger != 0
}

// isSelfIndex: v is <something>.PartyID().Index (the party's own index).
func isSelfIndex(v ssa.Value) bool {
	v = core.Strip(v)
	// the own index handed to a private helper (or a closure) as an argument
	if p, ok := v.(*ssa.Parameter); ok && bindableParam(p) && !selfIndexBusy[p] {
		idx := -1
		for k, q := range p.Parent().Params {
			if q == p {
				idx = k
			}
		}
		sites := core.ClosureCallSites(p.Parent())
		if idx < 0 || len(sites) == 0 {
			return false
		}
		selfIndexBusy[p] = true
		defer delete(selfIndexBusy, p)
		for _, cs := range sites {
			if idx >= len(cs.Common().Args) || !isSelfIndex(cs.Common().Args[idx]) {
				return false
			}
		}
		return true
	}
	fr := core.AsFieldLoad(v)
	if fr == nil || fr.Name != "Index" {
		return false
	}
	base := core.Strip(fr.Base)
	if c, ok := base.(*ssa.Call); ok {
		n := core.CalleeName(c)
		if strings.HasSuffix(n, ".PartyID") {
			return true
		}
	}
	return false
}

var selfIndexBusy = map[*ssa.Parameter]bool{}

// loopIdx: v is the index value of a counted/range loop in its function.
func loopIdx(v ssa.Value) *core.Loop {
	in, ok := v.(ssa.Instruction)
	if !ok || in.Parent() == nil {
		return nil
	}
	for _, l := range loopsOf(in.Parent()) {
		if l.Idx == v {
			return l
		}
	}
	return nil
}

var loopCache = map[*ssa.Function][]*core.Loop{}

func loopsOf(fn *ssa.Function) []*core.Loop {
	if l, ok := loopCache[fn]; ok {
		return l
	}
	l := core.Loops(fn)
	loopCache[fn] = l
	return l
}
