package rules

import (
	"fmt"
	"strings"

	"golang.org/x/tools/go/ssa"

	"tsscheck/internal/core"
)

// Dump prints the facts the analyses see for a function: spec is
// "pkg:Func" or "pkg:Type.Method". Debugging aid, not part of any check.
func Dump(p *core.Prog, spec string) {
	if spec == "model" {
		for _, rel := range protoRels {
			pr := ExtractProtocol(p, rel)
			fmt.Println("=====", rel, "party:", pr.Party)
			t := pr.Table()
			for _, k := range []string{"contents", "rounds", "arrays", "errors"} {
				fmt.Println(" ", k+":")
				switch v := t[k].(type) {
				case []string:
					for _, s := range v {
						fmt.Println("    ", s)
					}
				}
			}
		}
		return
	}
	if spec == "effects" {
		e := core.NewEffects(p)
		var rels []string
		for _, r := range core.RequiredPkgs {
			rels = append(rels, r)
		}
		for _, m := range e.NonFreshMutations(rels...) {
			fmt.Printf("%s  %s in %s  target origins: %v\n", p.Pos(core.InstrPos(m.Call)), core.CalleeShort(m.Call), m.Call.Parent(), m.Origins)
		}
		for f, ra := range e.RetAlias {
			if len(ra) > 0 {
				fmt.Printf("RETALIAS %s %v\n", f, ra)
			}
		}
		for f, mu := range e.Mutates {
			if len(mu) > 0 {
				fmt.Printf("MUTATES %s %v\n", f, mu)
			}
		}
		return
	}
	parts := strings.SplitN(spec, ":", 2)
	if len(parts) != 2 {
		fmt.Println("usage: -dump pkg:Func | pkg:Type.Method")
		return
	}
	var fn *ssa.Function
	if i := strings.Index(parts[1], "."); i >= 0 {
		fn = p.Method(parts[0], parts[1][:i], parts[1][i+1:])
	} else {
		fn = p.Func(parts[0], parts[1])
	}
	if fn == nil {
		fmt.Println("not found")
		return
	}
	for _, g := range core.WithClosures(fn) {
		fmt.Printf("== %s\n", g.String())
		for _, l := range core.Loops(g) {
			fmt.Printf("  loop header b%d idx=%s lo=%d hi=%s incl=%v range=%v\n", l.Header.Index, core.TermOf(l.Idx), l.Lo, core.TermOf(l.Hi), l.HiIncl, l.Range)
		}
		for _, b := range g.Blocks {
			if len(b.Instrs) == 0 {
				continue
			}
			last := b.Instrs[len(b.Instrs)-1]
			if ret, ok := last.(*ssa.Return); ok {
				fmt.Printf("  return b%d at %s:", b.Index, p.Pos(core.InstrPos(ret)))
				for _, r := range ret.Results {
					fmt.Printf(" %s", core.TermOf(r))
				}
				fmt.Println()
				for _, f := range core.TFactsAt(b, 2) {
					fmt.Printf("      fact %s  (via %s)\n", f, f.Via)
				}
				for _, f := range core.ForallFactsAt(b, 2) {
					fmt.Printf("      forall[b%d] %s\n", f.Loop.Header.Index, f.TFact)
				}
			}
		}
		for _, cs := range core.Calls(g) {
			if call, ok := cs.(*ssa.Call); ok {
				var ds []string
				for _, a := range call.Call.Args {
					ds = append(ds, descr(a))
				}
				fmt.Printf("  call b%d %s(%s)\n", call.Block().Index, core.CalleeShort(call), strings.Join(ds, ", "))
			}
		}
	}
}
