package rules

import (
	"go/token"
	"sort"

	"golang.org/x/tools/go/ssa"

	"tsscheck/internal/core"
)

func sortStrings(s []string) { sort.Strings(s) }

// eqGuard is a rejecting equality guard found in a verifier.
type eqGuard struct {
	pos      token.Pos
	fn       *ssa.Function
	deps     map[string]bool
	strength string // "always" | "forall" | "parallel" | "conditional"
	iff      *ssa.If
	side     int
	kind     string // "cmp" | "equals"
	x, y     ssa.Value
}

// trueSendBlocks: blocks of closure g that send constant true on a channel.
func trueSendBlocks(g *ssa.Function) (blocks []*ssa.BasicBlock, ch ssa.Value) {
	for _, b := range g.Blocks {
		for _, in := range b.Instrs {
			if s, ok := in.(*ssa.Send); ok {
				if v, isC := core.ConstBool(core.Strip(s.X)); isC && v {
					blocks = append(blocks, b)
					ch = s.Chan
				}
			}
		}
	}
	return
}

func anyReach(from *ssa.BasicBlock, targets []*ssa.BasicBlock) bool {
	for _, t := range targets {
		if core.Reaches(from, t) {
			return true
		}
	}
	return false
}

// collectEquations finds the rejecting equality guards of verifier fn
// (including those inside goroutine closures joined by the parallel idiom).
func collectEquations(c *ctx, fn *ssa.Function) []*eqGuard {
	var out []*eqGuard
	accept := acceptBlocks(fn, 0, true)
	loops := core.Loops(fn)
	for _, g := range unitFuncs(fn) {
		targets := accept
		closure := g != fn
		if closure && g.Parent() == nil && !startedByGo(fn, g) {
			// a private helper that is called, not spawned: its equations reach the caller through the
			// call fact of the guard that consults it (see eqFromFact)
			continue
		}
		if closure {
			targets, _ = trueSendBlocks(g)
			if len(targets) == 0 {
				continue
			}
		}
		gloops := loops
		if closure {
			gloops = core.Loops(g)
		}
		for _, b := range g.Blocks {
			if len(b.Instrs) == 0 {
				continue
			}
			iff, ok := b.Instrs[len(b.Instrs)-1].(*ssa.If)
			if !ok {
				continue
			}
			for s := 0; s < 2; s++ {
				safe, unsafe := b.Succs[s], b.Succs[1-s]
				if anyReach(unsafe, targets) || !anyReach(safe, targets) {
					continue
				}
				strength := "always"
				for _, t := range targets {
					if !core.EdgeDominates(b, s, t) {
						strength = "conditional"
					}
				}
				if strength == "conditional" {
					for _, l := range gloops {
						if !l.In[b] || l.Lo != 0 || l.HiIncl {
							continue
						}
						all := true
						for _, la := range l.Latches() {
							if !b.Dominates(la) {
								all = false
							}
						}
						for _, t := range targets {
							if !core.EdgeDominates(l.Header, 1, t) {
								all = false
							}
						}
						if all {
							strength = "forall"
						}
					}
				}
				if closure {
					if strength == "always" && parallelJoinOK(fn, g) {
						strength = "parallel"
					} else {
						strength = "conditional"
					}
				}
				for _, f := range core.CondFacts(iff.Cond, s == 0, iff) {
					out = append(out, eqFromFact(fn, g, f, iff, s, strength)...)
				}
			}
		}
	}
	// returned conjunctions: `return a.Cmp(b)==0 && …`
	nonConst := 0
	for _, ret := range core.Returns(fn) {
		res := core.Strip(ret.Results[0])
		if _, isC := core.ConstBool(res); isC {
			continue
		}
		nonConst++
	}
	for _, ret := range core.Returns(fn) {
		res := core.Strip(ret.Results[0])
		if _, isC := core.ConstBool(res); isC {
			continue
		}
		strength := "always"
		if nonConst != 1 || len(accept) != 1 {
			strength = "conditional"
		}
		for _, f := range core.CondFacts(res, true, nil) {
			for _, e := range eqFromFact(fn, fn, f, nil, 0, strength) {
				e.pos = ret.Pos()
				out = append(out, e)
			}
		}
	}
	return out
}

func eqFromFact(root, g *ssa.Function, f core.Fact, iff *ssa.If, side int, strength string) []*eqGuard {
	var pos token.Pos
	if iff != nil {
		pos = core.InstrPos(iff)
	}
	switch f.Kind {
	case core.FCmp:
		if f.Ord != core.EQ {
			return nil
		}
		// comparisons against small constants are range/sanity guards, not equations
		if k := core.TermOf(f.Y); core.IsZeroTerm(k) || core.IsOneTerm(k) {
			return nil
		}
		if k := core.TermOf(f.X); core.IsZeroTerm(k) || core.IsOneTerm(k) {
			return nil
		}
		return []*eqGuard{{pos: pos, fn: g, deps: core.DepsOf(root, true, f.X, f.Y), strength: strength, iff: iff, side: side, kind: "cmp", x: f.X, y: f.Y}}
	case core.FCall:
		if !f.Bool {
			return nil
		}
		call := f.X.(*ssa.Call)
		if core.CallIs(call, "(*~/crypto.ECPoint).Equals") {
			return []*eqGuard{{pos: pos, fn: g, deps: core.DepsOf(root, true, call.Call.Args[0], call.Call.Args[1]), strength: strength, iff: iff, side: side, kind: "equals", x: call.Call.Args[0], y: call.Call.Args[1]}}
		}
		// the equation factored into a private predicate `isEqual(…) bool`: what all its true returns
		// compare, with the predicate's parameters read as this call's arguments
		if h := core.Callee(call); core.PrivateHelper(h) && !call.Call.IsInvoke() && h.Pkg == pkgOf(root) {
			facts, ok := core.ReturnFacts(h, 0, true)
			if !ok {
				return nil
			}
			var out []*eqGuard
			for _, hf := range facts {
				for _, e := range eqFromFact(h, h, hf, nil, 0, strength) {
					w := core.NewDepWalker(root, true)
					w.Translate(e.deps, call)
					out = append(out, &eqGuard{pos: pos, fn: g, deps: w.Out, strength: strength, iff: iff, side: side, kind: e.kind, x: call, y: call})
				}
			}
			return out
		}
	}
	return nil
}

// startedByGo: the named function g is the body of a `go` statement of fn's unit.
func startedByGo(fn, g *ssa.Function) bool {
	for _, f := range unitFuncs(fn) {
		for _, b := range f.Blocks {
			for _, in := range b.Instrs {
				if gg, ok := in.(*ssa.Go); ok && !gg.Call.IsInvoke() {
					if h, isF := gg.Call.Value.(*ssa.Function); isF && h == g {
						return true
					}
				}
			}
		}
	}
	return false
}

// goBody: the function a go statement starts — a closure or a named function.
func goBody(gg *ssa.Go) *ssa.Function {
	if gg.Call.IsInvoke() {
		return nil
	}
	if mc, ok := core.Strip(gg.Call.Value).(*ssa.MakeClosure); ok {
		return mc.Fn.(*ssa.Function)
	}
	if h, ok := gg.Call.Value.(*ssa.Function); ok && h.Blocks != nil {
		return h
	}
	return nil
}

// parallelJoinOK checks the goroutine idiom of modproof.Verify: closure g is
// started by `go` inside a counted loop [0,K1) of fn with the loop index as its
// argument, sends exactly one bool on a channel on every path, and fn's
// accepting return is only reachable through a counted receive loop [0,K2)
// that rejects on any false, with K2 = K1 × (number of go sites in the spawn
// loop sending on that channel).
func parallelJoinOK(fn, g *ssa.Function) bool {
	_, ch := trueSendBlocks(g)
	if ch == nil {
		return false
	}
	mk := core.ChanMake(ch)
	if mk == nil {
		return false
	}
	// every return of g is preceded by exactly one send on every path: each
	// block with a Send must end in return, and each return block must contain a Send
	for _, ret := range core.Returns(g) {
		n := 0
		for _, in := range ret.Block().Instrs {
			if s, ok := in.(*ssa.Send); ok && core.ChanMake(s.Chan) == mk {
				n++
			}
		}
		if n != 1 {
			return false
		}
	}
	for _, b := range g.Blocks {
		for _, in := range b.Instrs {
			if s, ok := in.(*ssa.Send); ok && core.ChanMake(s.Chan) == mk {
				if _, isRet := b.Instrs[len(b.Instrs)-1].(*ssa.Return); !isRet {
					return false
				}
			}
		}
	}
	loops := core.Loops(fn)
	// spawn loop
	var spawn *core.Loop
	goSites := 0
	for _, l := range loops {
		for b := range l.In {
			for _, in := range b.Instrs {
				if gg, ok := in.(*ssa.Go); ok {
					if cf := goBody(gg); cf != nil {
						_, ch2 := trueSendBlocks(cf)
						if ch2 != nil && core.ChanMake(ch2) == mk {
							if cf == g {
								spawn = l
								// loop index passed as argument (a closure takes nothing else; a named body also
								// takes what the closure captured)
								hasIdx := false
								for _, a := range gg.Call.Args {
									if a == l.Idx {
										hasIdx = true
									}
								}
								if !hasIdx || cf.Parent() != nil && len(gg.Call.Args) != 1 {
									return false
								}
							}
						}
					}
				}
			}
		}
	}
	if spawn == nil || spawn.Lo != 0 || spawn.HiIncl {
		return false
	}
	for b := range spawn.In {
		for _, in := range b.Instrs {
			if gg, ok := in.(*ssa.Go); ok {
				if cf := goBody(gg); cf != nil {
					_, ch2 := trueSendBlocks(cf)
					if ch2 != nil && core.ChanMake(ch2) == mk {
						goSites++
					}
				}
			}
		}
	}
	k1, ok := core.ConstInt(spawn.Hi)
	if !ok {
		return false
	}
	// receive loop
	accept := acceptBlocks(fn, 0, true)
	for _, l := range loops {
		if l == spawn || l.Lo != 0 || l.HiIncl {
			continue
		}
		k2, ok := core.ConstInt(l.Hi)
		if !ok || k2 != k1*int64(goSites) {
			continue
		}
		okAll := true
		for _, t := range accept {
			if !core.EdgeDominates(l.Header, 1, t) {
				okAll = false
			}
		}
		if !okAll {
			continue
		}
		// body: receive from mk and reject on false
		for b := range l.In {
			if len(b.Instrs) == 0 {
				continue
			}
			iff, ok := b.Instrs[len(b.Instrs)-1].(*ssa.If)
			if !ok || b == l.Header {
				continue
			}
			for _, f := range core.CondFacts(iff.Cond, true, iff) {
				if f.Kind != core.FBool {
					continue
				}
				u, ok := core.Strip(f.X).(*ssa.UnOp)
				if !ok || u.Op != token.ARROW || core.ChanMake(u.X) != mk {
					continue
				}
				// f.Bool tells the value of the received bool on the true edge
				rejectSucc := b.Succs[0]
				if f.Bool {
					rejectSucc = b.Succs[1]
				}
				if !anyReach(rejectSucc, accept) {
					allLatch := true
					for _, la := range l.Latches() {
						if !b.Dominates(la) {
							allLatch = false
						}
					}
					if allLatch {
						return true
					}
				}
			}
		}
	}
	return false
}

// challengeInputs: the receiver fields and parameters that flow into any hash call of fn.
func challengeInputs(fn *ssa.Function) map[string]bool {
	return core.HashInputs(fn, 3)
}
