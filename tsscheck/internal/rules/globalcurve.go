package rules

import (
	"sort"
	"strings"

	"tsscheck/internal/core"
)

// globalCurveCallers (who-may-call): the deprecated process-global default curve (tss.EC(), set with
// tss.SetCurve) is consulted only where a point is decoded without curve information (ECPoint's gob /
// JSON decoders). Protocol and proof code takes the curve from the party's parameters or from the
// points it is given: arithmetic reduced modulo the order of whatever curve the process happens to
// have registered (secp256k1 by default) gives an EdDSA signature share sum that is never reduced.
func globalCurveCallers(c *ctx, rule string) {
	allowed := map[string]string{
		"crypto.(*ECPoint).GobDecode":     "decoder without curve information",
		"crypto.(*ECPoint).UnmarshalJSON": "decoder without curve information",
	}
	var callers []string
	bad := ""
	for _, fn := range c.p.ModuleFuncs(false) {
		fname := c.p.Fset.Position(fn.Pos()).Filename
		if strings.HasSuffix(fname, "test_utils.go") || strings.Contains(fname, "/test/") {
			continue
		}
		for _, cs := range core.Calls(fn) {
			if !core.CallIs(cs, "~/tss.EC") {
				continue
			}
			top := core.Outermost(fn)
			name := core.RelPkg(top) + "." + core.FuncName(top)
			callers = append(callers, name)
			_, ok := allowed[name]
			if !ok && core.PrivateHelper(top) {
				// the decoders' curve lookup factored into a private helper that nothing else calls
				sites := core.ClosureCallSites(top)
				ok = len(sites) > 0
				for _, s := range sites {
					ct := core.Outermost(s.Parent())
					if _, isOK := allowed[core.RelPkg(ct)+"."+core.FuncName(ct)]; !isOK {
						ok = false
					}
				}
			}
			if !ok {
				bad += name + " at " + c.pos(cs) + "; "
			}
		}
	}
	sort.Strings(callers)
	c.r.Tables["callers_of_global_curve"] = callers
	c.r.Check(bad == "", rule, core.Key(rule, "tss", "EC", "who-may-call"), "-", "tss.EC() is called only by the ECPoint decoders", "the process-global default curve is consulted by "+bad+"the result then depends on which curve the process registered, not on the party's curve")
}
