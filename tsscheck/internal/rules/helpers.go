package rules

import (
	"fmt"
	"strings"

	"golang.org/x/tools/go/ssa"

	"tsscheck/internal/core"
)

const mod = core.ModPath

type T = core.Term
type M = func(*T) bool

func anyOf(ms ...M) M {
	return func(t *T) bool {
		for _, m := range ms {
			if m(t) {
				return true
			}
		}
		return false
	}
}

// param i of fn as a matcher (by position: positions of exported signatures are API, names are not).
func paramIs(fn *ssa.Function, i int) M {
	if i >= len(fn.Params) {
		return func(*T) bool { return false }
	}
	return core.KeyIs(core.TermOf(fn.Params[i]))
}

func paramTerm(fn *ssa.Function, i int) *T { return core.TermOf(fn.Params[i]) }

// fieldOfParam: field `name` (through embedded hops) of parameter i.
func fieldOfParam(fn *ssa.Function, i int, name string) M {
	root := core.TermOf(fn.Params[i])
	return func(t *T) bool { return core.IsFieldOf(t, root, name) }
}

// elemOf: t is base[idx] where base matches.
func elemOf(base M, idx M) M {
	return func(t *T) bool {
		return t.Op == "[]" && base(t.Args[0]) && (idx == nil || idx(t.Args[1]))
	}
}

// nSquareOf: N² of the Paillier public key matched by pk: NSquare(pk) or Mul(pk.N,pk.N).
func nSquareOf(pk M) M {
	return func(t *T) bool {
		if t.Op == "call:NSquare" && pk(t.Args[0]) {
			return true
		}
		b, k := core.PowerOf(t)
		if k == 2 {
			if n, base := b.Field(); n == "N" && pk(base) {
				return true
			}
		}
		return false
	}
}

// fieldN: pk.N
func fieldNOf(pk M) M {
	return func(t *T) bool {
		n, base := t.Field()
		return n == "N" && base != nil && pk(base)
	}
}

// curveOrderPow: t = q^k with q a curve order expression.
func curveOrderPow(k int) M {
	return func(t *T) bool {
		b, e := core.PowerOf(t)
		return e == k && core.IsCurveOrder(b)
	}
}

func isOne(t *T) bool  { return core.IsOneTerm(t) }
func isZero(t *T) bool { return core.IsZeroTerm(t) }

// gcdOf: t = GCD(a,b) in either order.
func gcdOf(a, b M) M {
	return func(t *T) bool {
		if t.Op != "GCD" || len(t.Args) != 2 {
			return false
		}
		return (a(t.Args[0]) && b(t.Args[1])) || (a(t.Args[1]) && b(t.Args[0]))
	}
}

func modOf(x, m M) M {
	return func(t *T) bool { return t.Op == "Mod" && len(t.Args) == 2 && x(t.Args[0]) && m(t.Args[1]) }
}

// acceptFacts: the facts common to every return of fn at which result ri may
// equal want, in term form with helper calls expanded.
func acceptFacts(fn *ssa.Function, ri int, want bool, depth int) ([]core.TFact, bool) {
	fs, ok := core.ReturnFacts(fn, ri, want)
	if !ok {
		return nil, false
	}
	return core.ExpandFacts(fs, depth), true
}

// acceptBlocks: blocks of returns whose result ri may equal want.
func acceptBlocks(fn *ssa.Function, ri int, want bool) []*ssa.BasicBlock {
	var out []*ssa.BasicBlock
	for _, ret := range core.Returns(fn) {
		if ri >= len(ret.Results) {
			continue
		}
		if b, isC := core.ConstBool(core.Strip(ret.Results[ri])); isC && b != want {
			continue
		}
		out = append(out, ret.Block())
	}
	return out
}

// nonErrorReturnBlocks: blocks of returns whose error result (index ri) may be nil.
func nilErrReturnBlocks(fn *ssa.Function, ri int) []*ssa.BasicBlock {
	var out []*ssa.BasicBlock
	for _, ret := range core.Returns(fn) {
		if ri >= len(ret.Results) {
			continue
		}
		// errors.Wrap(err, …) is nil exactly when err is: such a return counts as an error return only
		// where err is known to be non-nil
		if core.MayReturnNil(ret, ri) {
			out = append(out, ret.Block())
		}
	}
	return out
}

func definitelyNonNil(v ssa.Value) bool {
	switch x := v.(type) {
	case *ssa.Call:
		n := core.CalleeName(x)
		switch n {
		case "errors.New", "fmt.Errorf", mod + "/tss.NewError", "github.com/pkg/errors.New", "github.com/pkg/errors.Wrap", "github.com/pkg/errors.Wrapf", "github.com/pkg/errors.Errorf":
			return true
		}
		if strings.HasSuffix(n, ".WrapError") {
			return true
		}
	case *ssa.Alloc:
		return true
	case *ssa.MakeInterface:
		return definitelyNonNil(x.X)
	case *ssa.UnOp:
		if g := core.GlobalOf(x); g != nil && strings.HasPrefix(g.Name(), "Err") {
			return true
		}
	}
	return false
}

type ctx struct {
	p *core.Prog
	r *core.Report
}

func (c *ctx) pos(in ssa.Instruction) string { return c.p.Pos(core.InstrPos(in)) }
func (c *ctx) fpos(fn *ssa.Function) string  { return c.p.Pos(fn.Pos()) }

func fkey(rule string, fn *ssa.Function, construct string) string {
	return core.Key(rule, core.RelPkg(fn), core.FuncName(fn), construct)
}

// mustFunc fetches a function or records an unresolved anchor (which fails the check).
func (c *ctx) mustFunc(rule, rel, name string) *ssa.Function {
	f := c.p.Func(rel, name)
	if f == nil || f.Blocks == nil {
		c.r.Unk(rule, core.Key(rule, rel, name, "anchor"), "-", fmt.Sprintf("anchor function %s.%s not found", rel, name))
		return nil
	}
	return f
}

func (c *ctx) mustMethod(rule, rel, typ, name string) *ssa.Function {
	f := c.p.Method(rel, typ, name)
	if f == nil || f.Blocks == nil {
		c.r.Unk(rule, core.Key(rule, rel, typ+"."+name, "anchor"), "-", fmt.Sprintf("anchor method %s.%s.%s not found", rel, typ, name))
		return nil
	}
	return f
}

// cmpGuard checks that facts exclude the reject orderings of Cmp(x,y).
func cmpExcluded(facts []core.TFact, x, y M, reject core.Ord) (string, bool) {
	w, ok := core.ExcludesCmp(facts, x, y, reject)
	if ok {
		return w.String(), true
	}
	return fmt.Sprintf("possible orderings %s still include rejected %s", core.PossibleCmp(facts, x, y), reject), false
}

func tfactsAtBlocks(blocks []*ssa.BasicBlock, depth int) [][]core.TFact {
	var out [][]core.TFact
	for _, b := range blocks {
		out = append(out, core.TFactsAt(b, depth))
	}
	return out
}
