package rules

import (
	"fmt"
	"sort"
	"strings"

	"golang.org/x/tools/go/ssa"

	"tsscheck/internal/core"
)

// key-data owner types: values of these types handed to signing belong to the caller
var keyDataTypes = []string{
	"ecdsa/keygen.LocalPartySaveData", "ecdsa/keygen.LocalSecrets", "ecdsa/keygen.LocalPreParams",
	"eddsa/keygen.LocalPartySaveData", "eddsa/keygen.LocalSecrets",
	"crypto/paillier.PrivateKey", "crypto/paillier.PublicKey", "crypto.ECPoint",
}

func isKeyDataField(f string) bool {
	for _, t := range keyDataTypes {
		if strings.HasPrefix(f, t+".") {
			return true
		}
	}
	return false
}

// keyDataMutations (R20.1 / R18.4): effect analysis over the signing packages and what they call.
// Every in-place *big.Int operation whose target is not freshly allocated, every store into an
// element of a slice owned by key data and every ECPoint mutator applied to a key point is an
// obligation; targets that are session state (temp fields that cannot alias key data, local
// slices filled from fresh results) discharge it.
func keyDataMutations(c *ctx, rule string) {
	e := core.NewEffects(c.p)
	rels := []string{"ecdsa/signing", "eddsa/signing", "crypto/ckd", "common"}
	// fields of session state that may hold a pointer into key data
	alias := map[string]string{}
	for _, rel := range []string{"ecdsa/signing", "eddsa/signing"} {
		for _, fn := range c.p.FuncsOfPkg(rel) {
			for _, b := range fn.Blocks {
				for _, in := range b.Instrs {
					st, ok := in.(*ssa.Store)
					if !ok {
						continue
					}
					fr := core.AsFieldAddr(st.Addr)
					if fr == nil || !strings.Contains(st.Val.Type().String(), "big.Int") {
						continue
					}
					for _, o := range e.Origins(st.Val) {
						if (o.Kind == "field" && isKeyDataField(o.Field)) || (o.Kind == "elem" && isKeyDataField(o.Field)) {
							alias[fr.String()] = o.String()
						}
					}
				}
			}
		}
	}
	var aliasList []string
	for k, v := range alias {
		aliasList = append(aliasList, k+" ← "+v)
	}
	sort.Strings(aliasList)
	c.r.Tables["session_fields_aliasing_key_data"] = aliasList
	n := 0
	for _, m := range e.NonFreshMutations(rels...) {
		top := core.Outermost(m.Call.Parent())
		n++
		key := fkey(rule, top, "in-place:"+core.CalleeShort(m.Call)+"→"+fmt.Sprint(m.Origins))
		bad := ""
		for _, o := range m.Origins {
			switch o.Kind {
			case "field":
				if isKeyDataField(o.Field) {
					bad += "overwrites key data " + o.Field + " in place; "
				} else if a, ok := alias[o.Field]; ok {
					bad += "overwrites " + o.Field + " which may point into key data (" + a + "); "
				}
			case "elem":
				if isKeyDataField(o.Field) {
					bad += "overwrites an element of key data " + o.Field + " in place; "
				} else if o.Field != "local slice" && o.Field != "local array" {
					bad += "overwrites an element of " + o.Field + "; "
				}
			case "param":
				// every caller must pass a fresh value
				for _, site := range callSitesOf(c.p, top) {
					a := site.Common().Args
					if o.Param < len(a) {
						for _, oo := range e.Origins(a[o.Param]) {
							if oo.Kind != "fresh" {
								bad += fmt.Sprintf("overwrites its parameter #%d, which the caller at %s fills with %s; ", o.Param, c.pos(site), oo)
							}
						}
					}
				}
			default:
				bad += "overwrites a big.Int of " + o.String() + " origin; "
			}
		}
		if bad == "" {
			c.r.OK(rule, key, c.pos(m.Call), "target is session state or a fresh result; cannot alias caller-owned key data")
		} else {
			c.r.Bad(rule, key, c.pos(m.Call), bad+"the caller's stored key material changes across signing sessions")
		}
	}
	// stores into elements of key-data slices, ECPoint mutators on key points
	for _, rel := range []string{"ecdsa/signing", "eddsa/signing"} {
		for _, fn := range c.p.FuncsOfPkg(rel) {
			top := core.Outermost(fn)
			if top.Name() == "UpdatePublicKeyAndAdjustBigXj" {
				// declared exception: an application-called helper whose documented purpose is to rewrite the
				// caller's copy of the key data before a derived-key session
				continue
			}
			for _, b := range fn.Blocks {
				for _, in := range b.Instrs {
					switch x := in.(type) {
					case *ssa.Store:
						if ia, ok := x.Addr.(*ssa.IndexAddr); ok {
							if fr := core.AsFieldLoad(ia.X); fr != nil && isKeyDataField(fr.String()) {
								c.r.Bad(rule, fkey(rule, top, "element-store:"+fr.String()), c.pos(x), "stores into an element of the key-data slice "+fr.String()+" (shared with the caller's copy)")
							}
						}
					case *ssa.Call:
						if core.CallIs(x, "(*~/crypto.ECPoint).SetCurve") {
							if d := descr(x.Call.Args[0]); strings.HasPrefix(d, "key.") {
								c.r.Bad(rule, fkey(rule, top, "SetCurve:"+d), c.pos(x), "mutates the key-data point "+d)
							}
						}
					}
				}
			}
		}
	}
	// the subset builder copies into fresh slices
	for _, rel := range []string{"ecdsa/keygen", "eddsa/keygen"} {
		if fn := c.p.Func(rel, "BuildLocalSaveDataSubset"); fn != nil {
			n++
			key := fkey(rule, fn, "fresh-slices")
			bad := ""
			for _, b := range fn.Blocks {
				for _, in := range b.Instrs {
					if st, ok := in.(*ssa.Store); ok {
						if ia, ok := st.Addr.(*ssa.IndexAddr); ok {
							// the container must be a field of the fresh result, not of the source parameter
							if d := descr(ia.X); strings.HasPrefix(d, "param:") || strings.Contains(d, "param:sourceData") {
								bad += "writes into the source data's slice " + d + "; "
							}
						}
					}
				}
			}
			c.r.Check(bad == "", rule, key, c.fpos(fn), "the subset is written into slices of the new value only", bad)
		}
	}
	c.r.Stats["in_place_sites_examined"] = n
}

// callSitesOf: static call sites of fn in the module.
func callSitesOf(p *core.Prog, fn *ssa.Function) []ssa.CallInstruction {
	var out []ssa.CallInstruction
	for _, f := range p.ModuleFuncs(false) {
		for _, cs := range core.Calls(f) {
			if core.Callee(cs) == fn {
				out = append(out, cs)
			}
		}
	}
	return out
}
