package rules

import (
	"fmt"
	"go/token"
	"go/types"
	"sort"
	"strings"

	"golang.org/x/tools/go/ssa"

	"tsscheck/internal/core"
)

// Protocol is the model extracted from one protocol package. Nothing in it is
// written by hand: every table is read off the type-checked program.
type Protocol struct {
	Rel       string
	Party     *types.Named
	PartyFns  map[string]*ssa.Function // Start, Update, UpdateFromBytes, ValidateMessage, StoreMessage, FirstRound
	Contents  []*Content
	ByContent map[string]*Content
	Arrays    []string          // message-store fields ([]tss.ParsedMessage) of the temp data
	StoreTab  map[string]string // content type → array (from StoreMessage)
	StoreIdx  map[string]string // content type → descr of the index used
	Rounds    []*Round          // in NextRound order
	Base      *types.Named
	BaseFns   map[string]*ssa.Function
	Errs      []string
}

type Content struct {
	Name     string
	Named    *types.Named
	Ctor     *Ctor
	Validate *ssa.Function
	Unmarsh  []*ssa.Function
}

type Ctor struct {
	Fn          *ssa.Function
	Content     string
	IsBroadcast *bool
	To          string // "none" | "one:<param>" | "list:<descr>"
	Flags       map[string]string
	Fields      map[string]ssa.Value
	ContentPtr  ssa.Value
}

type Round struct {
	Name      string
	Named     *types.Named
	Fns       map[string]*ssa.Function // Start, Update, CanAccept, NextRound
	Next      string
	Final     bool
	Accepts   []Accept
	Scans     []string // arrays read by Update
	Sends     []*SendSite
	StartRead []string // arrays read by Start
}

type Accept struct {
	Content   string
	Broadcast string // "IsBroadcast" | "!IsBroadcast" | other descr
}

// syncUnit: the round step and the private helpers it calls synchronously (not started with go / defer),
// to depth 3, without closures.
func syncUnit(top *ssa.Function) map[*ssa.Function]bool {
	out := map[*ssa.Function]bool{top: true}
	var add func(f *ssa.Function, d int)
	add = func(f *ssa.Function, d int) {
		if d >= 3 {
			return
		}
		for _, b := range f.Blocks {
			for _, in := range b.Instrs {
				call, ok := in.(*ssa.Call)
				if !ok || call.Call.IsInvoke() {
					continue
				}
				h := core.Callee(call)
				if !core.PrivateHelper(h) || h.Pkg != top.Pkg || out[h] {
					continue
				}
				in := false
				for _, u := range unitFuncs(top) {
					if u == h {
						in = true
					}
				}
				if !in {
					continue
				}
				out[h] = true
				add(h, d+1)
			}
		}
	}
	add(top, 0)
	return out
}

// enclosingLoopInUnit: the loop of the round step (or of an intermediate helper) inside which the
// instruction runs: its own function's loop, else the loop around the call through which its function
// is entered.
func enclosingLoopInUnit(top *ssa.Function, in ssa.Instruction, d int) *core.Loop {
	fn := in.Parent()
	for _, l := range loopsOf(fn) {
		if l.In[in.Block()] {
			return l
		}
	}
	if fn == top || d > 3 {
		return nil
	}
	var site ssa.Instruction
	n := 0
	for g := range syncUnit(top) {
		for _, cs := range core.Calls(g) {
			if c, ok := cs.(*ssa.Call); ok && core.Callee(c) == fn {
				site = c
				n++
			}
		}
	}
	if n != 1 {
		return nil
	}
	return enclosingLoopInUnit(top, site, d+1)
}

// entryInTop: the instruction of the round step `top` through which `in` is reached: `in` itself when it
// is in top, else the call (chain) by which top enters the private helper holding it; nil when not unique.
func entryInTop(top *ssa.Function, in ssa.Instruction, d int) ssa.Instruction {
	if in.Parent() == top {
		return in
	}
	if d > 3 {
		return nil
	}
	var site ssa.Instruction
	n := 0
	for g := range syncUnit(top) {
		for _, cs := range core.Calls(g) {
			if c, ok := cs.(*ssa.Call); ok && core.Callee(c) == in.Parent() {
				site = c
				n++
			}
		}
	}
	if n != 1 {
		return nil
	}
	return entryInTop(top, site, d+1)
}

type SendSite struct {
	// Sync: the send executes in the round step itself or in a private helper it calls synchronously
	Sync bool
	// At: where the send happens in the round step's own control flow (the send, or the call of the helper)
	At ssa.Instruction
	Send    *ssa.Send
	Ctor    *Ctor
	Call    *ssa.Call
	InLoop  *core.Loop
	Skipped string // "self" when the send is skipped for j == i
}

var protoRels = []string{"ecdsa/keygen", "ecdsa/signing", "ecdsa/resharing", "eddsa/keygen", "eddsa/signing", "eddsa/resharing"}

var protoCache = map[string]*Protocol{}

func tssIface(p *core.Prog, name string) *types.Interface {
	nt := p.NamedType("tss", name)
	if nt == nil {
		return nil
	}
	i, _ := nt.Underlying().(*types.Interface)
	return i
}

// ExtractProtocol builds the model of one protocol package.
func ExtractProtocol(p *core.Prog, rel string) *Protocol {
	if pr, ok := protoCache[rel]; ok {
		return pr
	}
	pr := &Protocol{Rel: rel, PartyFns: map[string]*ssa.Function{}, ByContent: map[string]*Content{}, StoreTab: map[string]string{}, StoreIdx: map[string]string{}, BaseFns: map[string]*ssa.Function{}}
	protoCache[rel] = pr
	sp := p.Pkg(rel)
	if sp == nil {
		pr.Errs = append(pr.Errs, "package not loaded")
		return pr
	}
	partyI, roundI, contentI := tssIface(p, "Party"), tssIface(p, "Round"), tssIface(p, "MessageContent")
	if partyI == nil || roundI == nil || contentI == nil {
		pr.Errs = append(pr.Errs, "tss interfaces not found")
		return pr
	}
	var names []string
	for n := range sp.Members {
		names = append(names, n)
	}
	sort.Strings(names)
	rounds := map[string]*Round{}
	for _, n := range names {
		t, ok := sp.Members[n].(*ssa.Type)
		if !ok {
			continue
		}
		nt, ok := t.Type().(*types.Named)
		if !ok {
			continue
		}
		if _, isStruct := nt.Underlying().(*types.Struct); !isStruct {
			continue
		}
		ptr := types.NewPointer(nt)
		switch {
		case types.Implements(ptr, partyI):
			pr.Party = nt
		case types.Implements(ptr, roundI):
			if declaresMethod(nt, "Start") {
				r := &Round{Name: n, Named: nt, Fns: map[string]*ssa.Function{}}
				for _, m := range []string{"Start", "Update", "CanAccept", "NextRound", "CanProceed", "WaitingFor"} {
					r.Fns[m] = p.Method(rel, n, m)
				}
				rounds[n] = r
			} else {
				pr.Base = nt
			}
		case types.Implements(ptr, contentI):
			c := &Content{Name: n, Named: nt, Validate: p.Method(rel, n, "ValidateBasic")}
			ms := p.SSA.MethodSets.MethodSet(ptr)
			for i := 0; i < ms.Len(); i++ {
				if strings.HasPrefix(ms.At(i).Obj().Name(), "Unmarshal") {
					if f := p.SSA.MethodValue(ms.At(i)); f != nil && f.Synthetic == "" {
						c.Unmarsh = append(c.Unmarsh, f)
					}
				}
			}
			pr.Contents = append(pr.Contents, c)
			pr.ByContent[n] = c
		}
	}
	if pr.Party == nil {
		pr.Errs = append(pr.Errs, "no tss.Party implementation")
		return pr
	}
	for _, m := range []string{"Start", "Update", "UpdateFromBytes", "ValidateMessage", "StoreMessage", "FirstRound", "WaitingFor"} {
		pr.PartyFns[m] = p.Method(rel, pr.Party.Obj().Name(), m)
	}
	// base round type: the struct embedding *tss.Parameters with fields ok/started
	if pr.Base == nil {
		if t, ok := sp.Members["base"].(*ssa.Type); ok {
			pr.Base, _ = t.Type().(*types.Named)
		}
	}
	if pr.Base != nil {
		for _, m := range []string{"CanProceed", "WaitingFor", "WrapError", "resetOK", "getSSID", "RoundNumber", "Params"} {
			pr.BaseFns[m] = p.Method(rel, pr.Base.Obj().Name(), m)
		}
	}
	// message arrays: fields of type []tss.ParsedMessage in any struct of the package
	parsed := p.NamedType("tss", "ParsedMessage")
	for _, n := range names {
		t, ok := sp.Members[n].(*ssa.Type)
		if !ok {
			continue
		}
		st, ok := t.Type().Underlying().(*types.Struct)
		if !ok {
			continue
		}
		for i := 0; i < st.NumFields(); i++ {
			if sl, ok := st.Field(i).Type().(*types.Slice); ok && parsed != nil && types.Identical(sl.Elem(), parsed) {
				pr.Arrays = append(pr.Arrays, st.Field(i).Name())
			}
		}
	}
	sort.Strings(pr.Arrays)
	// constructors: functions whose result is tss.NewMessage(meta, content, wrapper)
	// (the closing tss.NewMessageWrapper / tss.NewMessage pair may be shared by the constructors through a
	// private wrapper that only forwards its routing and content parameters)
	type wrap struct{ meta, content int }
	wrappers := map[*ssa.Function]wrap{}
	paramIdx := func(f *ssa.Function, v ssa.Value) int {
		for i, q := range f.Params {
			if core.Strip(v) == ssa.Value(q) {
				return i
			}
		}
		return -1
	}
	for _, f := range p.FuncsOfPkg(rel) {
		if f.Parent() != nil || !core.PrivateHelper(f) {
			continue
		}
		for _, cs := range core.CallsTo(f, "~/tss.NewMessage") {
			call := cs.(*ssa.Call)
			if mi, ci := paramIdx(f, call.Call.Args[0]), paramIdx(f, call.Call.Args[1]); mi >= 0 && ci >= 0 {
				wrappers[f] = wrap{mi, ci}
			}
		}
	}
	record := func(f *ssa.Function, ct *Ctor) {
		if ct == nil {
			pr.Errs = append(pr.Errs, "constructor "+f.Name()+": content not recognised")
			return
		}
		if c := pr.ByContent[ct.Content]; c != nil {
			if c.Ctor != nil {
				pr.Errs = append(pr.Errs, "content "+ct.Content+" has more than one constructor")
			}
			c.Ctor = ct
		}
	}
	for _, f := range p.FuncsOfPkg(rel) {
		if f.Parent() != nil {
			continue
		}
		if _, isW := wrappers[f]; !isW {
			for _, cs := range core.CallsTo(f, "~/tss.NewMessage") {
				call := cs.(*ssa.Call)
				record(f, extractCtor(f, call.Call.Args[0], call.Call.Args[1]))
			}
		}
		for _, cs := range core.Calls(f) {
			call, ok := cs.(*ssa.Call)
			if !ok || call.Call.IsInvoke() {
				continue
			}
			if w, isW := wrappers[core.Callee(call)]; isW && core.Callee(call) != nil {
				record(f, extractCtor(f, call.Call.Args[w.meta], call.Call.Args[w.content]))
			}
		}
	}
	// StoreMessage table
	if sm := pr.PartyFns["StoreMessage"]; sm != nil {
		for _, as := range messageArrayStores(pr, sm) {
			st, ia, arr := as.Store, as.IA, as.Array
			ctype := ""
			for _, f := range core.FactsAt(as.At) {
				if f.Kind == core.FBool && f.Bool {
					if ex, ok := core.Strip(f.X).(*ssa.Extract); ok && ex.Index == 1 {
						if ta, ok := ex.Tuple.(*ssa.TypeAssert); ok {
							ctype = typeName(ta.AssertedType)
						}
					}
				}
			}
			if ctype == "" {
				// `case *A, *B:` bodies and phi-selected slots: the types established on the incoming edges
				if ts := assertedTypesAt(as.At); len(ts) == 1 {
					ctype = ts[0]
				}
			}
			if ctype == "" {
				pr.Errs = append(pr.Errs, "StoreMessage: store into "+arr+" not under a content type case")
				continue
			}
			if prev, dup := pr.StoreTab[ctype]; dup && prev != arr {
				pr.Errs = append(pr.Errs, "StoreMessage: "+ctype+" stored in two arrays")
			}
			pr.StoreTab[ctype] = arr
			pr.StoreIdx[ctype] = descr(ia.Index)
			if core.Strip(st.Val) != ssa.Value(sm.Params[1]) {
				pr.Errs = append(pr.Errs, "StoreMessage: value stored for "+ctype+" is not the message")
			}
		}
	}
	// round order
	first := ""
	if fr := pr.PartyFns["FirstRound"]; fr != nil {
		first = allocatedRound(fr, rounds, 2)
	}
	for n, r := range rounds {
		if nr := r.Fns["NextRound"]; nr != nil {
			next := allocatedRound(nr, rounds, 0)
			if next == "" {
				allNil := true
				for _, ret := range core.Returns(nr) {
					if !core.IsNilConst(core.Strip(ret.Results[0])) {
						allNil = false
					}
				}
				r.Final = allNil
			}
			r.Next = next
		}
		_ = n
	}
	seen := map[string]bool{}
	for cur := first; cur != "" && !seen[cur]; cur = rounds[cur].Next {
		seen[cur] = true
		pr.Rounds = append(pr.Rounds, rounds[cur])
	}
	if len(pr.Rounds) != len(rounds) {
		pr.Errs = append(pr.Errs, fmt.Sprintf("round chain from FirstRound covers %d of %d round types", len(pr.Rounds), len(rounds)))
	}
	for _, r := range pr.Rounds {
		extractRound(pr, r)
	}
	return pr
}

func contains(xs []string, x string) bool {
	for _, y := range xs {
		if y == x {
			return true
		}
	}
	return false
}

func declaresMethod(nt *types.Named, name string) bool {
	for i := 0; i < nt.NumMethods(); i++ {
		if nt.Method(i).Name() == name {
			return true
		}
	}
	return false
}

func typeName(t types.Type) string {
	if p, ok := t.(*types.Pointer); ok {
		t = p.Elem()
	}
	if n, ok := t.(*types.Named); ok {
		return n.Obj().Name()
	}
	return t.String()
}

// allocatedRound: the round type allocated (directly or through depth helper functions) and returned by fn.
func allocatedRound(fn *ssa.Function, rounds map[string]*Round, depth int) string {
	for _, ret := range core.Returns(fn) {
		v := core.Strip(ret.Results[0])
		if a, ok := v.(*ssa.Alloc); ok {
			if n := typeName(a.Type()); rounds[n] != nil {
				return n
			}
		}
		if c, ok := v.(*ssa.Call); ok && depth > 0 {
			if g := core.Callee(c); g != nil && g.Blocks != nil {
				if n := allocatedRound(g, rounds, depth-1); n != "" {
					return n
				}
			}
		}
	}
	return ""
}

// extractCtor decodes a message constructor from its tss.NewMessage(meta, content, wire) call.
func extractCtor(f *ssa.Function, metaArg, contentArg ssa.Value) *Ctor {
	ct := &Ctor{Fn: f, Flags: map[string]string{}, Fields: map[string]ssa.Value{}}
	content := core.Strip(contentArg)
	a, ok := content.(*ssa.Alloc)
	if !ok {
		return nil
	}
	ct.Content = typeName(a.Type())
	ct.ContentPtr = a
	for k, v := range storedFields(a) {
		ct.Fields[k] = v
	}
	// routing literal: a local MessageRouting value
	meta := core.Strip(metaArg)
	var metaAlloc ssa.Value
	if u, ok := meta.(*ssa.UnOp); ok && u.Op == token.MUL {
		metaAlloc = u.X
	}
	ct.To = "none"
	if metaAlloc != nil {
		for k, v := range storedFields(metaAlloc) {
			switch k {
			case "IsBroadcast":
				if b, ok := core.ConstBool(core.Strip(v)); ok {
					ct.IsBroadcast = &b
				}
			case "To":
				if segs, ok := core.SeqOf(v); ok && len(segs) == 1 && segs[0].Kind == "elem" {
					ct.To = "one:" + descr(segs[0].V)
				} else {
					ct.To = "list:" + descr(v)
				}
			case "From":
				ct.Flags["From"] = descr(v)
			default:
				ct.Flags[k] = descr(v)
			}
		}
		if ct.IsBroadcast == nil {
			// field left at its zero value
			if _, set := storedFields(metaAlloc)["IsBroadcast"]; !set {
				f := false
				ct.IsBroadcast = &f
			}
		}
	}
	return ct
}

func extractRound(pr *Protocol, r *Round) {
	// CanAccept table
	if ca := r.Fns["CanAccept"]; ca != nil {
		for _, ret := range core.Returns(ca) {
			res := core.Strip(ret.Results[0])
			if b, isC := core.ConstBool(res); isC && !b {
				continue
			}
			ctype := ""
			for _, f := range core.FactsAt(ret.Block()) {
				if f.Kind == core.FBool && f.Bool {
					if ex, ok := core.Strip(f.X).(*ssa.Extract); ok && ex.Index == 1 {
						if ta, ok := ex.Tuple.(*ssa.TypeAssert); ok {
							ctype = typeName(ta.AssertedType)
						}
					}
				}
			}
			r.Accepts = append(r.Accepts, Accept{Content: ctype, Broadcast: bcastDescr(res, ca)})
		}
	}
	arraysRead := func(fn *ssa.Function) []string {
		set := map[string]bool{}
		if fn == nil {
			return nil
		}
		for _, g := range unitFuncs(fn) {
			for _, b := range g.Blocks {
				for _, in := range b.Instrs {
					if u, ok := in.(*ssa.UnOp); ok && u.Op == token.MUL {
						if fr := core.AsFieldAddr(u.X); fr != nil && contains(pr.Arrays, fr.Name) {
							set[fr.Name] = true
						}
					}
				}
			}
		}
		var out []string
		for k := range set {
			out = append(out, k)
		}
		sort.Strings(out)
		return out
	}
	r.Scans = arraysRead(r.Fns["Update"])
	r.StartRead = arraysRead(r.Fns["Start"])
	// sends on the `out` channel in Start and in the private helpers it is factored into
	if st := r.Fns["Start"]; st != nil {
		sync := syncUnit(st)
		for _, g := range unitFuncs(st) {
			for _, b := range g.Blocks {
				for _, in := range b.Instrs {
					snd, ok := in.(*ssa.Send)
					if !ok {
						continue
					}
					if fr := core.AsFieldLoad(snd.Chan); fr == nil || fr.Name != "out" {
						continue
					}
					site := &SendSite{Send: snd, Sync: sync[g]}
					v := core.Strip(snd.X)
					if ex, ok := v.(*ssa.Extract); ok {
						v = ex.Tuple
					}
					if call, ok := v.(*ssa.Call); ok {
						site.Call = call
						if g := core.Callee(call); g != nil {
							for _, c := range pr.Contents {
								if c.Ctor != nil && c.Ctor.Fn == g {
									site.Ctor = c.Ctor
								}
							}
						}
					}
					site.At = snd
					if sync[g] {
						if e := entryInTop(st, snd, 0); e != nil {
							site.At = e
						}
						site.InLoop = enclosingLoopInUnit(st, snd, 0)
					} else {
						for _, l := range loopsOf(snd.Parent()) {
							if l.In[b] {
								site.InLoop = l
							}
						}
					}
					r.Sends = append(r.Sends, site)
				}
			}
		}
	}
}

// bcastDescr renders what CanAccept returns for a content type.
func bcastDescr(v ssa.Value, fn *ssa.Function) string {
	v = core.Strip(v)
	neg := false
	if u, ok := v.(*ssa.UnOp); ok && u.Op == token.NOT {
		neg = true
		v = core.Strip(u.X)
	}
	if c, ok := v.(*ssa.Call); ok && c.Call.IsInvoke() && c.Call.Method.Name() == "IsBroadcast" && core.Strip(c.Call.Value) == ssa.Value(fn.Params[1]) {
		if neg {
			return "!IsBroadcast"
		}
		return "IsBroadcast"
	}
	if b, ok := core.ConstBool(v); ok {
		return fmt.Sprint(b != neg)
	}
	return "other:" + descr(v)
}

// Table renders the model for the evidence file.
func (pr *Protocol) Table() map[string]any {
	t := map[string]any{}
	var cs []string
	for _, c := range pr.Contents {
		s := c.Name
		if c.Ctor != nil {
			b := "?"
			if c.Ctor.IsBroadcast != nil {
				b = fmt.Sprint(*c.Ctor.IsBroadcast)
			}
			s += fmt.Sprintf(" ctor=%s broadcast=%s to=%s flags=%v", c.Ctor.Fn.Name(), b, c.Ctor.To, c.Ctor.Flags)
		}
		s += " store=" + pr.StoreTab[c.Name] + "[" + pr.StoreIdx[c.Name] + "]"
		cs = append(cs, s)
	}
	t["contents"] = cs
	var rs []string
	for _, r := range pr.Rounds {
		var snd []string
		for _, s := range r.Sends {
			n := "?"
			if s.Ctor != nil {
				n = s.Ctor.Content
			}
			if s.InLoop != nil {
				n += "(per-peer)"
			}
			snd = append(snd, n)
		}
		rs = append(rs, fmt.Sprintf("%s next=%s final=%v accepts=%v scans=%v startReads=%v sends=%v", r.Name, r.Next, r.Final, r.Accepts, r.Scans, r.StartRead, snd))
	}
	t["rounds"] = rs
	t["arrays"] = pr.Arrays
	t["errors"] = pr.Errs
	return t
}
