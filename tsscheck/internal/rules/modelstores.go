package rules

import (
	"golang.org/x/tools/go/ssa"

	"tsscheck/internal/core"
)

// arrayStore is one place where StoreMessage files a message in a message array: the store, the
// element address, and the block whose facts select the element (for `arr[i] = msg` the store's own
// block; for `slot = &arr[i]` merged through a phi and `*slot = msg` later, the predecessor block
// of the phi edge that carries that element address).
type arrayStore struct {
	Store *ssa.Store
	IA    *ssa.IndexAddr
	Array string
	At    *ssa.BasicBlock
}

// messageArrayStores lists the stores of fn into the protocol's message arrays, through direct
// element addresses and through element addresses selected by a phi.
func messageArrayStores(pr *Protocol, fn *ssa.Function) []arrayStore {
	var out []arrayStore
	add := func(st *ssa.Store, v ssa.Value, at *ssa.BasicBlock) {
		ia, ok := v.(*ssa.IndexAddr)
		if !ok {
			return
		}
		arr := core.LastFields(ia.X, 1)
		if !contains(pr.Arrays, arr) {
			return
		}
		out = append(out, arrayStore{st, ia, arr, at})
	}
	for _, b := range fn.Blocks {
		for _, in := range b.Instrs {
			st, ok := in.(*ssa.Store)
			if !ok {
				continue
			}
			switch a := st.Addr.(type) {
			case *ssa.IndexAddr:
				add(st, a, b)
				// the array chosen by a private helper from the content type (`store, ok := p.storeFor(content);
				// store[from] = msg`): one filing per return of the helper that hands back a message array,
				// selected by the facts at that return
				x := core.Strip(a.X)
				ri := 0
				if ex, isEx := x.(*ssa.Extract); isEx {
					x, ri = ex.Tuple, ex.Index
				}
				if call, isC := x.(*ssa.Call); isC && !call.Call.IsInvoke() && core.PrivateHelper(core.Callee(call)) {
					for _, ret := range core.Returns(core.Callee(call)) {
						if ri >= len(ret.Results) {
							continue
						}
						if arr := core.LastFields(core.Strip(ret.Results[ri]), 1); contains(pr.Arrays, arr) {
							out = append(out, arrayStore{st, a, arr, ret.Block()})
						}
					}
				}
			case *ssa.Phi:
				for i, e := range a.Edges {
					add(st, e, a.Block().Preds[i])
				}
			}
		}
	}
	return out
}
