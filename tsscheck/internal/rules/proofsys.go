package rules

import (
	"fmt"
	"go/token"
	"strings"

	"golang.org/x/tools/go/ssa"

	"tsscheck/internal/core"
)

// proofSys describes one zero-knowledge proof system of the library by API
// positions (positions of exported signatures are API; parameter names are not).
type proofSys struct {
	name       string
	rel, typ   string
	prover     string // package-level function, or "T.M" method
	proverSess int    // index of the Session parameter in the prover, -1 if none
	verSess    int    // index of the Session parameter in Verify (receiver = 0), -1 if none
	// statement correspondence: prover-side role → verifier parameter index.
	// keys: "param:<i>" or "recv.<field>" (prover is a method of the key holder)
	stmt map[string]int
	// verifier parameters that are part of the statement
	verStmt []int
	// statement parameters deliberately not hashed, each with the reason
	exempt map[int]string
}

var proofSystems = []proofSys{
	{name: "schnorr", rel: "crypto/schnorr", typ: "ZKProof", prover: "NewZKProof", proverSess: 0, verSess: 1,
		stmt: map[string]int{"param:2": 2}, verStmt: []int{2}},
	{name: "schnorr-v", rel: "crypto/schnorr", typ: "ZKVProof", prover: "NewZKVProof", proverSess: 0, verSess: 1,
		stmt: map[string]int{"param:1": 2, "param:2": 3}, verStmt: []int{2, 3}},
	{name: "dln", rel: "crypto/dlnproof", typ: "Proof", prover: "NewDLNProof", proverSess: -1, verSess: -1,
		stmt: map[string]int{"param:0": 1, "param:1": 2, "param:5": 3}, verStmt: []int{1, 2, 3}},
	{name: "paillier-key", rel: "crypto/paillier", typ: "Proof", prover: "PrivateKey.Proof", proverSess: -1, verSess: -1,
		stmt: map[string]int{"recv.N": 1, "param:1": 2, "param:2": 3}, verStmt: []int{1, 2, 3}},
	{name: "paillier-blum-mod", rel: "crypto/modproof", typ: "ProofMod", prover: "NewProof", proverSess: 0, verSess: 1,
		stmt: map[string]int{"param:1": 2}, verStmt: []int{2}},
	{name: "no-small-factor", rel: "crypto/facproof", typ: "ProofFac", prover: "NewProof", proverSess: 0, verSess: 1,
		stmt: map[string]int{"param:1": 2, "param:2": 3, "param:3": 4, "param:4": 5, "param:5": 6}, verStmt: []int{3, 4, 5, 6},
		exempt: map[int]string{2: "the curve only fixes the challenge modulus q; the statement (N0, NCap, s, t) is hashed"}},
	{name: "range-alice", rel: "crypto/mta", typ: "RangeProofAlice", prover: "ProveRangeAlice", proverSess: -1, verSess: -1,
		stmt: map[string]int{"param:0": 1, "param:1": 2, "param:2": 6, "param:3": 3, "param:4": 4, "param:5": 5}, verStmt: []int{2, 6},
		exempt: map[int]string{3: "GG18 Fig. 9 hashes the Paillier key, ciphertext and commitments; NTilde is bound by equation 5 (R11.2)", 4: "as NTilde (h1)", 5: "as NTilde (h2)", 1: "curve only fixes q"}},
	{name: "bob-wc", rel: "crypto/mta", typ: "ProofBobWC", prover: "ProveBobWC", proverSess: 0, verSess: 1,
		stmt: map[string]int{"param:1": 2, "param:2": 3, "param:3": 4, "param:4": 5, "param:5": 6, "param:6": 7, "param:7": 8, "param:11": 9}, verStmt: []int{3, 7, 8, 9},
		exempt: map[int]string{4: "GG18 Fig. 10/11 hash the Paillier key, ciphertexts and commitments; NTilde is bound by equations 5/6 (R11.2)", 5: "as NTilde (h1)", 6: "as NTilde (h2)", 2: "curve only fixes q"}},
}

func (ps *proofSys) proverFn(c *ctx, rule string) *ssa.Function {
	if i := strings.Index(ps.prover, "."); i >= 0 {
		return c.mustMethod(rule, ps.rel, ps.prover[:i], ps.prover[i+1:])
	}
	return c.mustFunc(rule, ps.rel, ps.prover)
}

func (ps *proofSys) verifyFn(c *ctx, rule string) *ssa.Function {
	return c.mustMethod(rule, ps.rel, ps.typ, "Verify")
}

// coreValue maps a value to the object that identifies it for "same value" questions:
// loads of / slices over a local array → the Alloc.
func coreValue(v ssa.Value) ssa.Value {
	v = core.Strip(v)
	switch x := v.(type) {
	case *ssa.UnOp:
		if x.Op == token.MUL {
			if a, ok := x.X.(*ssa.Alloc); ok {
				return a
			}
		}
	case *ssa.Slice:
		if a, ok := core.Strip(x.X).(*ssa.Alloc); ok {
			return a
		}
	}
	return v
}

// proofFieldValues: for a prover, the value stored into each field of the returned proof
// (nested embedded proof structs are flattened). For array-typed proofs (paillier.Proof) the
// single pseudo-field "[]" maps to the local array.
func proofFieldValues(fn *ssa.Function) map[string]ssa.Value {
	out := map[string]ssa.Value{}
	var collect func(ptr ssa.Value, d int)
	collect = func(ptr ssa.Value, d int) {
		if d > 3 {
			return
		}
		for name, v := range storedFields(ptr) {
			sv := core.Strip(v)
			// embedded/nested proof struct pointer allocated in the same function
			if a, ok := sv.(*ssa.Alloc); ok && len(storedFields(a)) > 0 {
				collect(a, d+1)
				continue
			}
			out[name] = v
		}
	}
	for _, ret := range core.Returns(fn) {
		if len(ret.Results) == 0 {
			continue
		}
		r := core.Strip(ret.Results[0])
		if core.IsNilConst(r) {
			continue
		}
		if _, isPtr := r.(*ssa.Alloc); isPtr {
			collect(r, 0)
			continue
		}
		// value-typed proof (array): `return pi` loads a local array
		if u, ok := r.(*ssa.UnOp); ok && u.Op == token.MUL {
			if a, ok := u.X.(*ssa.Alloc); ok {
				out["[]"] = a
			}
		}
	}
	return out
}

// challengeCalls: the calls in fn (and its closures) that produce Fiat–Shamir
// challenges: direct library hash calls, or calls to module helpers that hash
// (some of) their arguments. In source order.
func challengeCalls(fn *ssa.Function) []*ssa.Call {
	var out []*ssa.Call
	for _, g := range unitFuncs(fn) {
		for _, cs := range core.Calls(g) {
			call, ok := cs.(*ssa.Call)
			if !ok {
				continue
			}
			if core.CallIs(call, core.HashFuncs...) {
				out = append(out, call)
				continue
			}
			if callee := core.Callee(call); callee != nil && callee.Blocks != nil && callee.Parent() == nil && isModuleFn(callee) {
				if strings.HasSuffix(core.FullName(callee), "common.RejectionSample") {
					continue
				}
				if len(core.HashInputs(callee, 2)) > 0 {
					out = append(out, call)
				}
			}
		}
	}
	return out
}

func isModuleFn(f *ssa.Function) bool {
	return f.Pkg != nil && f.Pkg.Pkg != nil && strings.HasPrefix(f.Pkg.Pkg.Path(), mod)
}

// roleSeq renders the flattened argument sequence of a challenge call as roles.
// mapParam maps a parameter index of fn to a role name; fieldOf maps a local value to a proof field.
func roleSeq(fn *ssa.Function, call *ssa.Call, role func(v ssa.Value) string) ([]string, bool) {
	var out []string
	exact := true
	args := call.Call.Args
	for i, a := range args {
		// variadic tail
		if i == len(args)-1 && call.Call.Signature().Variadic() {
			segs, ok := core.SeqOf(a)
			if !ok {
				exact = false
				out = append(out, "…")
				continue
			}
			for _, s := range segs {
				if s.Kind == "elem" {
					out = append(out, role(s.V))
				} else {
					r := "splice(" + role(s.V) + ")"
					if s.Lo != nil || s.Hi != nil {
						r += "[" + idxRole(s.Lo) + ":" + idxRole(s.Hi) + "]"
					}
					out = append(out, r)
				}
			}
			continue
		}
		out = append(out, role(a))
	}
	return out, exact
}

func idxRole(v ssa.Value) string {
	if v == nil {
		return ""
	}
	if k, ok := core.ConstInt(v); ok {
		return fmt.Sprint(k)
	}
	if loopIdx(core.Strip(v)) != nil {
		return "i"
	}
	return "?"
}

// makeRole builds the role function for one side of a proof system.
func makeRole(ps *proofSys, fn *ssa.Function, prover bool) func(v ssa.Value) string {
	fields := map[ssa.Value]string{}
	if prover {
		for name, v := range proofFieldValues(fn) {
			fields[coreValue(v)] = name
		}
	}
	var role func(v ssa.Value) string
	role = func(v ssa.Value) string {
		v = core.Strip(v)
		cv := coreValue(v)
		if prover {
			if f, ok := fields[cv]; ok {
				return "field:" + f
			}
		}
		// a result of a private helper (g, q := generatorAndOrder(ec)): what the helper hands back
		if ex, isEx := cv.(*ssa.Extract); isEx {
			if r := core.ResolveIn(fn, ex); r != ssa.Value(ex) {
				return role(r)
			}
		}
		switch x := cv.(type) {
		case *ssa.Const:
			if x.Value == nil {
				return "nil"
			}
			return "const:" + x.Value.ExactString()
		case *ssa.Parameter:
			idx := -1
			for i, p := range fn.Params {
				if p == x {
					idx = i
				}
			}
			if idx < 0 {
				if a := closureArg(x); a != nil {
					return role(a)
				}
				return "param?"
			}
			if prover {
				if idx == ps.proverSess {
					return "session"
				}
				if vi, ok := ps.stmt[fmt.Sprintf("param:%d", idx)]; ok {
					return fmt.Sprintf("stmt:%d", vi)
				}
				return fmt.Sprintf("witness:%d", idx)
			}
			if idx == ps.verSess {
				return "session"
			}
			if idx == 0 && fn.Signature.Recv() != nil {
				return "proof"
			}
			return fmt.Sprintf("stmt:%d", idx)
		case *ssa.FreeVar:
			if b := core.FreeVarBinding(x); b != nil {
				if a, ok := b.(*ssa.Alloc); ok {
					if f, ok := fields[a]; ok && prover {
						return "field:" + f
					}
					// single-store captured variable
					var st ssa.Value
					n := 0
					if refs := a.Referrers(); refs != nil {
						for _, in := range *refs {
							if s, ok := in.(*ssa.Store); ok && s.Addr == a {
								st = s.Val
								n++
							}
						}
					}
					if n == 1 {
						return role(st)
					}
					return "local:" + allocName(a)
				}
				return role(b)
			}
		case *ssa.Alloc:
			return "local:" + localRole(x)
		case *ssa.UnOp:
			if x.Op == token.MUL {
				if fr := core.AsFieldAddr(x.X); fr != nil {
					return fieldRole(ps, fn, prover, fr, role)
				}
				if ia, ok := x.X.(*ssa.IndexAddr); ok {
					return role(ia.X) + "[" + idxRole(ia.Index) + "]"
				}
				if g, ok := x.X.(*ssa.Global); ok {
					return "global:" + g.Name()
				}
			}
		case *ssa.FieldAddr:
			if fr := core.AsFieldAddr(x); fr != nil {
				return fieldRole(ps, fn, prover, fr, role)
			}
		case *ssa.Field:
			if fr := core.AsFieldLoad(x); fr != nil {
				return fieldRole(ps, fn, prover, fr, role)
			}
		case *ssa.Call:
			name := core.CalleeName(x)
			short := name[strings.LastIndex(name, ".")+1:]
			switch {
			case strings.HasSuffix(name, "crypto.ECPoint).X"), strings.HasSuffix(name, "crypto.ECPoint).Y"),
				strings.HasSuffix(name, "PublicKey).AsInts"), strings.HasSuffix(name, "PublicKey).Gamma"), strings.HasSuffix(name, "PublicKey).NSquare"),
				name == "(*math/big.Int).Bytes":
				return short + "(" + role(x.Call.Args[0]) + ")"
			case strings.HasSuffix(name, "crypto.NewECPointNoCurveCheck"):
				// the curve generator
				t1, t2 := core.TermOf(x.Call.Args[1]), core.TermOf(x.Call.Args[2])
				if n1, _ := t1.Field(); n1 == "Gx" {
					if n2, _ := t2.Field(); n2 == "Gy" {
						return "G"
					}
				}
			case name == "strconv.Itoa":
				return "Itoa(" + role(x.Call.Args[0]) + ")"
			}
			if core.BigSetter(x) || strings.Contains(name, "common.modInt") || strings.Contains(name, "crypto.ScalarBaseMult") || strings.Contains(name, "ECPoint).") {
				return "computed"
			}
			return "call:" + short
		case *ssa.Convert:
			return role(x.X)
		case *ssa.Phi:
			if loopIdx(x) != nil {
				return "i"
			}
			return "phi"
		case *ssa.BinOp:
			if loopIdx(x) != nil {
				return "i"
			}
			return "computed"
		case *ssa.MakeSlice:
			return "local:slice"
		case *ssa.Slice:
			// x[:] of an array or list denotes the same sequence of values
			if x.Low == nil && x.High == nil && x.Max == nil {
				return role(x.X)
			}
		}
		return "?" + cv.Name()
	}
	return role
}

func localRole(a *ssa.Alloc) string {
	// local arrays are identified by their element type and length, not by name
	return a.Type().String()
}

func fieldRole(ps *proofSys, fn *ssa.Function, prover bool, fr *core.FieldRef, role func(ssa.Value) string) string {
	base := role(fr.Base)
	if fr.Struct.Field(fr.Index).Embedded() {
		return base
	}
	if !prover && base == "proof" {
		return "field:" + fr.Name
	}
	if prover {
		// receiver field of a key-holder prover (paillier PrivateKey.Proof)
		if vi, ok := ps.stmt["recv."+fr.Name]; ok && (base == "witness:0" || base == "proof") {
			return fmt.Sprintf("stmt:%d", vi)
		}
	}
	return base + "." + fr.Name
}
