// Package rules holds one file per property; each registers its rule set.
package rules

import (
	"sort"

	"tsscheck/internal/core"
)

type RunFunc func(p *core.Prog, r *core.Report)

var Registry = map[string]RunFunc{}

func IDs() []string {
	var ids []string
	for k := range Registry {
		ids = append(ids, k)
	}
	sort.Strings(ids)
	return ids
}
