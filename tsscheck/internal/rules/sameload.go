package rules

import (
	"go/token"

	"golang.org/x/tools/go/ssa"

	"tsscheck/internal/core"
)

// sameLoad: a and b are loads of the same local/captured variable and no store to
// that variable can execute between them (a is executed first on every path to b).
func sameLoad(a, b ssa.Value) bool {
	ua, ok1 := a.(*ssa.UnOp)
	ub, ok2 := b.(*ssa.UnOp)
	if !ok1 || !ok2 || ua.Op != token.MUL || ub.Op != token.MUL || ua.X != ub.X {
		return false
	}
	if ua == ub {
		return true
	}
	if !core.InstrDominates(ua, ub) {
		ua, ub = ub, ua
		if !core.InstrDominates(ua, ub) {
			return false
		}
	}
	addr := ua.X
	refs := addr.Referrers()
	if refs == nil {
		return true
	}
	for _, in := range *refs {
		st, ok := in.(*ssa.Store)
		if !ok || st.Addr != addr || st.Parent() != ua.Parent() {
			continue
		}
		// is the store strictly between ua and ub on some path that does not re-execute ua?
		if st.Block() == ua.Block() && st.Block() == ub.Block() {
			if core.InstrDominates(ua, st) && core.InstrDominates(st, ub) {
				return false
			}
			continue
		}
		if core.InstrReaches(ua, st) && core.InstrReaches(st, ub) {
			// a path store → ub that avoids ua's block means the store sits between them
			if st.Block() == ub.Block() {
				if core.InstrDominates(st, ub) {
					return false
				}
				continue
			}
			if st.Block() == ua.Block() {
				if core.InstrDominates(ua, st) {
					return false
				}
				continue
			}
			if reachesAvoiding(st.Block(), ua.Block(), ub.Block()) {
				return false
			}
		}
	}
	return true
}
