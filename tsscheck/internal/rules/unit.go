package rules

import (
	"golang.org/x/tools/go/ssa"

	"tsscheck/internal/core"
)

// unitFuncs: the code of one round step — the function, its closures, and the private helpers it is
// factored into: unexported named functions / methods of the same package that are called (or started
// with `go`) from inside the unit, to depth 3, with their closures. A goroutine body moved from a
// closure into a method (`go round.verifyPeer(j, ch)`) stays part of the round it belongs to.
func unitFuncs(top *ssa.Function) []*ssa.Function {
	seen := map[*ssa.Function]bool{}
	var out []*ssa.Function
	var add func(f *ssa.Function, depth int)
	add = func(f *ssa.Function, depth int) {
		for _, g := range core.WithClosures(f) {
			if seen[g] {
				continue
			}
			seen[g] = true
			out = append(out, g)
			if depth >= 3 {
				continue
			}
			for _, cs := range core.Calls(g) {
				cc := cs.Common()
				if cc.IsInvoke() {
					continue
				}
				h, ok := cc.Value.(*ssa.Function)
				if !ok || h.Blocks == nil || h.Parent() != nil || h.Pkg == nil || h.Pkg != top.Pkg || seen[h] {
					continue
				}
				n := h.Name()
				if n == "" || !(n[0] >= 'a' && n[0] <= 'z') || n == "init" {
					continue
				}
				// shared infrastructure of the package (flag bookkeeping, error wrapping) is not a piece of this round
				switch n {
				case "resetOK", "allOldOK", "allNewOK", "getSSID":
					continue
				}
				// (renamed flag bookkeeping: recognised by what it does)
				if flagBookkeeping(h) {
					continue
				}
				add(h, depth+1)
			}
		}
	}
	add(top, 0)
	return out
}

// bindableParam: the parameter belongs to a closure or to a private helper (an unexported named
// function whose call sites are all in its package): its value is what those call sites pass.
func bindableParam(p *ssa.Parameter) bool {
	fn := p.Parent()
	if fn.Parent() != nil {
		return true
	}
	return len(core.ClosureCallSites(fn)) > 0
}

// flagBookkeeping: h only stores boolean constants into the elements of ok arrays of its receiver.
func flagBookkeeping(h *ssa.Function) bool {
	stores := okStores(h)
	if len(stores) == 0 {
		return false
	}
	n := 0
	for _, b := range h.Blocks {
		for _, in := range b.Instrs {
			if _, ok := in.(*ssa.Store); ok {
				n++
			}
		}
	}
	return n == len(stores)
}
