package rules

import (
	"fmt"

	"golang.org/x/tools/go/ssa"

	"tsscheck/internal/core"
)

// callSpec: expected canonical description (descr) of each argument of a call.
// "" = not constrained by this rule.
type callSpec struct {
	callee string
	args   []string
	why    string
}

// checkCallWiring finds every call to spec.callee in package rel and compares the descr of
// each constrained argument. Returns the calls found.
func checkCallWiring(c *ctx, rule, rel string, spec callSpec, wantSites int) []*ssa.Call {
	var found []*ssa.Call
	for _, fn := range c.p.FuncsOfPkg(rel) {
		for _, cs := range core.CallsTo(fn, spec.callee) {
			call, ok := cs.(*ssa.Call)
			if !ok {
				continue
			}
			found = append(found, call)
			args := call.Call.Args
			bad := ""
			for i, want := range spec.args {
				if want == "" || i >= len(args) {
					continue
				}
				got := descr(args[i])
				if got != want {
					bad += fmt.Sprintf("arg %d is %s, expected %s; ", i, got, want)
				}
			}
			key := fkey(rule, core.Outermost(fn), "wiring:"+shortName(spec.callee))
			c.r.Check(bad == "", rule, key, c.pos(call), "per-peer arguments carry the expected party index: "+spec.why, bad+"("+spec.why+")")
		}
	}
	if len(found) != wantSites {
		c.r.Bad(rule, core.Key(rule, rel, "-", "sites:"+shortName(spec.callee)), "-", fmt.Sprintf("expected %d call sites of %s in %s, found %d", wantSites, shortName(spec.callee), rel, len(found)))
	}
	return found
}

func c13RoundWiring(c *ctx) {
	const rule = "R13.2"
	const rel = "ecdsa/signing"
	m1 := "msg(temp.signRound1Message1s[peer])"
	m2 := "msg(temp.signRound2Messages[peer])"
	// BobMid(Session, ec, pkA, pf, b, cA, NTildeA, h1A, h2A, NTildeB, h1B, h2B, rand)
	bob := checkCallWiring(c, rule, rel, callSpec{"~/crypto/mta.BobMid", []string{
		"", "", "key.PaillierPKs[peer]", m1 + ".UnmarshalRangeProofAlice()#0", "temp.gamma", m1 + ".UnmarshalC()",
		"key.NTildej[peer]", "key.H1j[peer]", "key.H2j[peer]", "key.NTildej[self]", "key.H1j[self]", "key.H2j[self]", ""},
		"Alice's (peer's) key, proof and ciphertext; Bob's proof under the peer's ring-Pedersen parameters; Alice's proof verified under our own"}, 1)
	bobwc := checkCallWiring(c, rule, rel, callSpec{"~/crypto/mta.BobMidWC", []string{
		"", "", "key.PaillierPKs[peer]", m1 + ".UnmarshalRangeProofAlice()#0", "temp.w", m1 + ".UnmarshalC()",
		"key.NTildej[peer]", "key.H1j[peer]", "key.H2j[peer]", "key.NTildej[self]", "key.H1j[self]", "key.H2j[self]", "temp.bigWs[self]", ""},
		"as BobMid, with our own public share point W_i"}, 1)
	// AliceEnd(Session, ec, pkA, pf, h1A, h2A, cA, cB, NTildeA, sk)
	ae := checkCallWiring(c, rule, rel, callSpec{"~/crypto/mta.AliceEnd", []string{
		"", "", "key.PaillierPKs[self]", m2 + ".UnmarshalProofBob()#0", "key.H1j[self]", "key.H2j[self]", "temp.cis[peer]",
		"SetBytes(" + m2 + ".GetC1())", "key.NTildej[self]", "key.PaillierSK"},
		"our own key and ring-Pedersen parameters, the ciphertext we sent to that peer, the peer's response"}, 1)
	aewc := checkCallWiring(c, rule, rel, callSpec{"~/crypto/mta.AliceEndWC", []string{
		"", "", "key.PaillierPKs[self]", m2 + ".UnmarshalProofBobWC(EC())#0", "temp.bigWs[peer]", "temp.cis[peer]",
		"SetBytes(" + m2 + ".GetC2())", "key.NTildej[self]", "key.H1j[self]", "key.H2j[self]", "key.PaillierSK"},
		"as AliceEnd, checking against the peer's public share point W_j"}, 1)
	// results are stored under the same peer index
	storeSpec := func(calls []*ssa.Call, wants map[int]string) {
		for _, call := range calls {
			for idx, want := range wants {
				key := fkey(rule, core.Outermost(call.Parent()), fmt.Sprintf("result:%s#%d", shortName(core.CalleeName(call)), idx))
				ex := extractOf(call, idx)
				ok := false
				got := ""
				if ex != nil {
					if refs := ex.Referrers(); refs != nil {
						for _, in := range *refs {
							if st, isSt := in.(*ssa.Store); isSt && st.Val == ex {
								got = descr(st.Addr)
								if got == want {
									ok = true
								}
							}
						}
					}
				}
				c.r.Check(ok, rule, key, c.pos(call), "result stored in "+want, fmt.Sprintf("result #%d is stored in %q, expected %s (same peer index as the inputs)", idx, got, want))
			}
		}
	}
	storeSpec(bob, map[int]string{0: "temp.betas[peer]", 1: "temp.c1jis[peer]", 3: "temp.pi1jis[peer]"})
	storeSpec(bobwc, map[int]string{0: "temp.vs[peer]", 1: "temp.c2jis[peer]", 3: "temp.pi2jis[peer]"})
	storeSpec(ae, map[int]string{0: "make[peer]"})
	storeSpec(aewc, map[int]string{0: "make[peer]"})
	c.r.Floor(rule, 12)
}
